"""C14 - contract for aw_datastore/migration.py: peewee_v2_to_sqlite_v1 copies every legacy bucket and every legacy event.

The legacy database is observed only through PeeweeStorage.buckets() and PeeweeStorage.get_events(b, -1): "loses nothing"
means that everything those two calls return is in the new SQLite store afterwards.  Their contracts are *assumed*
(T-PEEWEE: the peewee ORM is outside the verifier's reach); SqliteStorage.create_bucket / insert_many are the contracts
discharged in contracts/sqlite.py."""
import json
from datetime import timedelta, datetime, timezone
from pyvc.specrt import *  # noqa: F401,F403
from pyvc.api import contract, spec, classdef, opaque
from contracts.sqlite import *  # noqa: F401,F403
from contracts.sqlite import DBMOD, CUR_FRESH, EV_FRESH

P_ = "aw_datastore.storages.peewee.PeeweeStorage"
classdef(P_, fields={"testing": "bool"})



@spec
def listing_ok(L):
    """every entry describes the bucket it is filed under: string-valued id / type / client / hostname / created, an optional
    name and a data table; the entries are allocated dicts"""
    return all(allocated(L[b]) and 'id' in L[b] and 'type' in L[b] and 'client' in L[b] and 'hostname' in L[b]
               and 'created' in L[b] and 'name' in L[b] and 'data' in L[b]
               and L[b]['id'] == b and isinstance(L[b]['type'], str) and isinstance(L[b]['client'], str)
               and isinstance(L[b]['hostname'], str) and isinstance(L[b]['created'], str)
               and (L[b]['name'] is None or isinstance(L[b]['name'], str)) and isinstance(L[b]['data'], dict)
               and allocated(jv_dict(L[b]['data']))
               for b in L)


contract(
    P_ + ".__init__", params={"self": "PeeweeStorage", "testing": "bool", "filepath": "Optional[str]"}, requires=[], ensures=[],
    modifies=["self.testing"], raises=[], trusted=True,
)
contract(
    P_ + ".buckets", params={"self": "PeeweeStorage"}, returns="Dict[str,Dict[str,JV]]", requires=[],
    ensures=[
        "fresh(result) and all(fresh(result[b]) for b in result)", "listing_ok(result)",
    ],
    modifies=["alloc"], writes_fresh=["*"], raises=[], trusted=True,
)
contract(
    P_ + ".get_events", params={"self": "PeeweeStorage", "bucket_id": "str", "limit": "int", "starttime": "Optional[datetime]",
                                 "endtime": "Optional[datetime]"},
    returns="List[Event]", requires=[],
    ghost_returns={"legacy": "List[Event]"},        # (the list returned, under a name the caller's ghost code can use)
    ensures=["legacy is result",
             "fresh(result) and all(fresh(result[j]) and fresh(result[j].data) for j in range(len(result)))",
             "all(result[a] is not result[b] for a in range(len(result)) for b in range(a + 1, len(result)))"],
    modifies=["alloc"], writes_fresh=["*"], raises=[], trusted=True,
)

MG = "aw_datastore.migration."


@spec
def migrated_meta(datastore, r, b, d):
    """bucket row r of the new store is the legacy bucket b with the listing entry d"""
    return (bk_live(datastore, r) and bk_id(datastore, r) == b and bk_col(datastore, r, 'type') == d['type']
            and bk_col(datastore, r, 'client') == d['client'] and bk_col(datastore, r, 'hostname') == d['hostname']
            and bk_col(datastore, r, 'created') == d['created'] and bk_col(datastore, r, 'name') == d['name']
            and bk_col(datastore, r, 'datastr') == json.dumps(jv_dict(d['data']) or {}))


@opaque
def bucket_migrated(datastore, base, fp, key, evs):
    """every event of the list has a row of its own (base + 1 + fp[i]) in bucket `key`, holding its encoding"""
    return all(in_bucket(datastore, base + 1 + fp[i], key) and 0 <= fp[i] and holds(datastore, base + 1 + fp[i], evs[i]) for i in range(len(evs)))


MIGRATED_EVENTS = "all(bucket_migrated(datastore, BASE[q], FP[q], KEY[q], EV[q]) for q in range({K}))"
KEYS_OK = "len(KEY) == {K} and len(EV) == {K} and all(key_index(L, b) >= {K} or KEY[key_index(L, b)] == b for b in L)"

contract(
    MG + "peewee_v2_to_sqlite_v1",
    params={"datastore": "SqliteStorage"},
    requires=["lazy_inv(datastore)"],
    ghost_vars={"L": ("Dict[str,Dict[str,JV]]", "{}"), "R": ("IntMap", "mnew()"), "EV": ("List[List[Event]]", "[]"),
                "KEY": ("List[str]", "[]"), "BASE": ("IntMap", "mnew()"), "FP": ("IntMap2", "mnew2()")},
    # (witnesses: KEY[k] = id of the k-th bucket of the listing, R[k] = its row, EV[k] = its legacy events, BASE[k] = last event row id before they were inserted,
    #  FP[k][i] = position of legacy event i among the rows inserted for bucket k)
    ghost_code=[dict(after="buckets = pw_db.buckets()", code="L = buckets"),
                dict(after="bucket = buckets[bucket_id]", code="R = mset(R, k, bk_max(datastore) + 1)"),
                dict(after="bucket_events = pw_db.get_events(", code="BASE = mset(BASE, k, ev_max(datastore))"),
                dict(after="datastore.insert_many(bucket_id, bucket_events)", code="EV = EV + [g_legacy]\nKEY = KEY + [bucket_id]\nFP = mset_row(FP, k, filter_pos(g_N))")],
    ensures=[
        # every legacy bucket exists in the new store with the metadata of the listing
        "all(migrated_meta(datastore, R[key_index(L, b)], b, L[b]) for b in L)",
        # every legacy event of every legacy bucket has a row of its own in that bucket of the new store, holding its encoding
        KEYS_OK.format(K="len(L)"),
        MIGRATED_EVENTS.format(K="len(L)"),
        "lazy_inv(datastore)", "datastore.enable_lazy_commit == old(datastore.enable_lazy_commit)",
    ],
    internal_ensures=[0, 1, 2],        # (stated over the function's own ghost witnesses: not visible to callers)
    modifies=["datastore.last_commit", "datastore.num_uncommitted_statements", "datastore.conn.*", "alloc", "Event.id"],
    writes_fresh=["*"], raises=["IntegrityError"],
    loops={0: dict(index="k", invariant=[
        "lazy_inv(datastore)", "datastore.enable_lazy_commit == old(datastore.enable_lazy_commit)", "buckets is L and allocated(L)", "listing_ok(L)",
        "all(key_index(L, b) >= k or migrated_meta(datastore, R[key_index(L, b)], b, L[b]) for b in L)",
        KEYS_OK.format(K="k"), "all(allocated(EV[q]) for q in range(k)) and allocated(EV) and allocated(KEY)",
        MIGRATED_EVENTS.format(K="k"),
    ], hints=[
        # (the step in two halves: the bucket just migrated, and the buckets migrated before it, which this step left alone)
        "key_index(L, bucket_id) == prev(k) and EV[prev(k)] is g_legacy and KEY[prev(k)] == bucket_id",
        "all(g_legacy[i].id is None for i in range(len(g_legacy)))",
        "all(0 <= filter_pos(g_N)[i] and in_bucket(datastore, BASE[prev(k)] + 1 + filter_pos(g_N)[i], bucket_id)"
        "    and holds(datastore, BASE[prev(k)] + 1 + filter_pos(g_N)[i], g_legacy[i]) for i in range(len(g_legacy)))",
        "all(FP[prev(k)][i] == filter_pos(g_N)[i] for i in range(len(g_legacy)))",
        "bucket_migrated(datastore, BASE[prev(k)], FP[prev(k)], bucket_id, g_legacy)",
        MIGRATED_EVENTS.format(K="prev(k)"),
    ]), 1: dict(index="m", invariant=[
        "all(bucket_events[j].id is None for j in range(m))",
    ])},
)


# -- the constructor of the sqlite store and the migration hook it runs --------------------------------------------------------------
contract(
    "aw_core.dirs.get_data_dir", params={"module_name": "Optional[str]"}, returns="str", requires=[], ensures=[], modifies=[], raises=[],
    trusted=True, note="platformdirs / os.makedirs: the file system is outside the verifier's reach",
)
contract(
    MG + "detect_db_files",
    params={"data_dir": "str", "datastore_name": "Optional[str]", "version": "Optional[int]"}, returns="List[str]",
    requires=[], ensures=["fresh(result)"], modifies=["alloc"], writes_fresh=["List.len", "List.items"], raises=[], trusted=True,
    note="os.listdir and file-name matching: the file system is outside the verifier's reach.  Assumed of the environment (A-DATADIR): "
         "every file in the data directory whose name up to the first dot equals the legacy database name does contain a dot - "
         "`filename.split('.')[1]` raises IndexError otherwise, and SqliteStorage.__init__ with it",
)
contract(
    MG + "check_for_migration",
    params={"datastore": "SqliteStorage"},
    requires=["lazy_inv(datastore)"], ensures=["lazy_inv(datastore)", "datastore.enable_lazy_commit == old(datastore.enable_lazy_commit)"],
    modifies=["datastore.last_commit", "datastore.num_uncommitted_statements", "datastore.conn.*", "alloc", "Event.id"],
    writes_fresh=["*"], raises=["IntegrityError"],
)
