"""C17 / C11 - contracts for the hand-written scanner/parser of aw_query/query2.py.

Scanners (`X.check`) are *lossless*: token + remainder == input (C11: nothing between tokens is dropped), and raise
nothing but QueryParseException (C17).  Character classes (str.isdecimal/isalpha/isdigit) are uninterpreted predicates
of the one-character string (T-UNICODE)."""
from pyvc.specrt import *  # noqa: F401,F403
from pyvc.api import contract, spec, classdef

Q = "aw_query.query2."

contract(
    Q + "QInteger.check",
    params={"string": "str"}, returns="Tuple[str, str]", requires=[],
    ensures=[
        "result[0] + result[1] == string",
        "all_decimal(result[0])",
        "len(result[1]) == 0 or not result[1][0].isdecimal()",
    ],
    modifies=[], raises=[],
    loops={0: dict(index="k", invariant=[
        "token == string[:k]",
        "all_decimal(token)",
    ])},
)

IDENT_INV = ["token == string[:k]"]

contract(
    Q + "QVariable.check",
    params={"string": "str"}, returns="Tuple[str, str]", requires=[],
    ensures=["result[0] + result[1] == string"],
    modifies=[], raises=[],
    loops={0: dict(index="k", invariant=["token == string[:k]"])},
)

contract(
    Q + "QString.check",
    params={"string": "str"}, returns="Tuple[str, str]", requires=["len(string) > 0"],
    ensures=["result[0] + result[1] == string",
             # a token is a complete quoted string: at least the two quotes, closed by the quote that opened it
             "len(result[0]) == 0 or (len(result[0]) >= 2 and (result[0][0] == '\"' or result[0][0] == \"'\") and result[0][len(result[0]) - 1] == result[0][0])",
             "len(result[0]) > 0 or (string[0] != '\"' and string[0] != \"'\")"],
    modifies=[], raises=["QueryParseException"],
    loops={0: dict(index="k", invariant=["token == string[:k + 1]", "quotes_type == string[0] and len(string) > 0"])},
)

BRACKET_ENS = ["(result[0] is None and result[1] == string) or (result[0] is not None and result[0] + result[1] == string)"]

contract(
    Q + "QFunction.check",
    params={"string": "str"}, returns="Tuple[Optional[str], str]", requires=[],
    # (a call token is complete too: it ends with the parenthesis that closes the argument list)
    ensures=BRACKET_ENS + ["result[0] is None or (len(result[0]) >= 2 and result[0][len(result[0]) - 1] == ')')"],
    modifies=[], raises=[],
    ghost_vars={"i1": ("int", "0")},
    ghost_code=[dict(after="prev_char = None", code="i1 = i")],
    loops={0: dict(index="k", invariant=["0 <= i and i <= k", "not found"]),
           1: dict(index="k2", invariant=["i == i1 + k2 and 1 <= i1 and i1 <= len(string)", "to_consume >= 1"])},
)
# a dict / list token is a complete bracketed text: it starts with the opening bracket and ends with a closing one (an unclosed
# literal is no token - the defect repaired in e01fcad made `[` a list token)
contract(
    Q + "QDict.check",
    params={"string": "str"}, returns="Tuple[Optional[str], str]", requires=["len(string) > 0"],
    ensures=BRACKET_ENS + ["result[0] is None or (len(result[0]) >= 2 and result[0][0] == '{' and result[0][len(result[0]) - 1] == '}')"],
    modifies=[], raises=[],
    loops={0: dict(index="k", invariant=["i == k + 1", "to_consume >= 1"])},
)
contract(
    Q + "QList.check",
    params={"string": "str"}, returns="Tuple[Optional[str], str]", requires=["len(string) > 0"],
    ensures=BRACKET_ENS + ["result[0] is None or (len(result[0]) >= 2 and result[0][0] == '[' and result[0][len(result[0]) - 1] == ']')"],
    modifies=[], raises=[],
    loops={0: dict(index="k", invariant=["i == k + 1", "to_consume >= 1"])},
)

QTYPES = ["QString", "QInteger", "QFunction", "QDict", "QList", "QVariable"]


@spec
def is_qtype(t):
    return (t is cls("aw_query.query2.QString") or t is cls("aw_query.query2.QInteger") or t is cls("aw_query.query2.QFunction")
            or t is cls("aw_query.query2.QDict") or t is cls("aw_query.query2.QList") or t is cls("aw_query.query2.QVariable"))


contract(
    Q + "_parse_token",
    params={"string": "str", "namespace": "Dict[str,JV]"}, returns="Tuple[Tuple[Optional[Cls], str], str]", requires=[],
    ensures=[
        # nothing but white space: no token
        "result[0][0] is not None or (result[0][1] == '' and result[1] == '' and string.strip() == '')",
        # otherwise a non-empty token of one of the six kinds, and the rest: together exactly the stripped input (lossless)
        "result[0][0] is None or (is_qtype(result[0][0]) and len(result[0][1]) > 0 and result[0][1] + result[1] == string.strip())",
        # (lengths spelled out: callers' termination arguments are arithmetic)
        "len(result[0][1]) + len(result[1]) == len(string.strip()) and len(string.strip()) <= len(string)",
        # what the parse function of the token's kind relies on
        "result[0][0] is not cls('aw_query.query2.QInteger') or all_decimal(result[0][1])",
    ],
    modifies=[], raises=["QueryParseException"],
)

# -- token classes and their parse functions -----------------------------------------------------------------------------------
classdef(Q + "QToken", fields={})
classdef(Q + "QInteger", fields={"value": "int"})
classdef(Q + "QVariable", fields={"name": "str", "value": "JV"})     # (None is the JSON null)
classdef(Q + "QString", fields={"value": "str"})
classdef(Q + "QFunction", fields={"name": "str", "args": "List[QToken]"})
classdef(Q + "QDict", fields={"value": "Dict[str,QToken]"})
classdef(Q + "QList", fields={"value": "List[QToken]"})
TOKEN_FRESH = [Q + f for f in ("QInteger.value", "QVariable.name", "QVariable.value", "QString.value", "QFunction.name", "QFunction.args",
                                "QDict.value", "QList.value")] + ["List.len", "List.items", "Dict.map:QToken", "Dict.map:JV"]
NS = {"string": "str", "namespace": "Dict[str,JV]"}

contract(Q + "QInteger.parse", params=NS, returns="QInteger", requires=["all_decimal(string) and len(string) > 0"],
         ensures=["fresh(result)"], modifies=["alloc"], writes_fresh=TOKEN_FRESH, raises=[])
contract(Q + "QVariable.parse", params=NS, returns="QVariable", requires=[],
         ensures=["fresh(result)"], modifies=["alloc"], writes_fresh=TOKEN_FRESH, raises=[])
contract(Q + "QString.parse", params=NS, returns="QString", requires=["len(string) > 0"],
         ensures=["fresh(result)"], modifies=["alloc"], writes_fresh=TOKEN_FRESH, raises=[])

REC = dict(decreases="len(string)", rec_group="query-parse")

contract(Q + "QFunction.parse", params=NS, returns="QFunction", requires=[],
         locals={"args": "List[QToken]"},
         ensures=["fresh(result)"], modifies=["alloc"], writes_fresh=TOKEN_FRESH, raises=["QueryParseException"],
         loops={0: dict(index="k", invariant=["arg_start == k"]),
                1: dict(invariant=["len(args_str) < len(string) or len(args_str) == 0"], decreases="len(args_str)")},
         **REC)
contract(Q + "QList.parse", params=NS, returns="QList", requires=[],
         locals={"ls": "List[QToken]"},
         ensures=["fresh(result)"], modifies=["alloc"], writes_fresh=TOKEN_FRESH, raises=["QueryParseException"],
         loops={0: dict(invariant=["len(entries_str) < len(string) or len(entries_str) == 0"], decreases="len(entries_str)")},
         **REC)
contract(Q + "QDict.parse", params=NS, returns="QDict", requires=[],
         locals={"d": "Dict[str,QToken]"},
         ensures=["fresh(result)"], modifies=["alloc"], writes_fresh=TOKEN_FRESH, raises=["QueryParseException"],
         loops={0: dict(invariant=["len(entries_str) < len(string) or len(entries_str) == 0"], decreases="len(entries_str)")},
         **REC)

# -- one statement --------------------------------------------------------------------------------------------------------------
contract(
    Q + "parse",
    params={"line": "str", "namespace": "Dict[str,JV]"}, returns="Tuple[QVariable, QToken]",
    # query() hands over stripped, non-empty statements
    requires=["len(line) > 0 and not line[0].isspace() and not line[len(line) - 1].isspace()"],
    # (a statement is an assignment: one that holds no '=' is rejected - the defect repaired in 49b6adf parsed `true` as `tru = true`)
    ensures=["fresh(result[0]) and fresh(result[1])", "'=' in line"],
    # (cut: the value text ends where the statement ends - so it is not blank, because the statement is stripped)
    ghost_code=[dict(after="val_str = line[separator_i + 1", code="assert len(val_str) == 0 or val_str[len(val_str) - 1] == line[len(line) - 1]")],
    modifies=["alloc"], writes_fresh=TOKEN_FRESH, raises=["QueryParseException"],
)


# ---- C11 / C17: leaves of the abstract syntax tree mean what their text says ---------------------------------------------------
# (the composite nodes - calls, lists, dicts - and the statement loop of query() are covered by the bounded reference evaluator)
contract(Q + "QInteger.parse:value", params=NS, returns="QInteger", requires=["all_decimal(string) and len(string) > 0"],
         ensures=["fresh(result)", "result.value == int(string)"], modifies=["alloc"], writes_fresh=TOKEN_FRESH, raises=[])
contract(Q + "QString.parse:value", params=NS, returns="QString", requires=["len(string) > 0"],
         # the text between the quotes, escaped quotes of the same kind unescaped
         ensures=["fresh(result)", "result.value == string.replace('\\\\' + string[0], string[0])[1:-1]"],
         modifies=["alloc"], writes_fresh=TOKEN_FRESH, raises=[])
contract(Q + "QVariable.parse:value", params=NS, returns="QVariable", requires=[],
         # a variable node carries its name and the value the name is bound to when the statement is parsed (None: not bound)
         ensures=["fresh(result)", "result.name == string",
                  "(string in namespace and same_value(result.value, namespace[string]))"
                  " or (string not in namespace and result.value is None)",
                  "namespace == old(namespace)"],
         modifies=["alloc"], writes_fresh=TOKEN_FRESH, raises=[])

INTERP = {"datastore": "Datastore", "namespace": "Dict[str,JV]"}
contract(Q + "QInteger.interpret", params=dict(self="QInteger", **INTERP), returns="int", requires=[],
         ensures=["result == self.value", "namespace == old(namespace)"], modifies=[], raises=[])
contract(Q + "QString.interpret", params=dict(self="QString", **INTERP), returns="str", requires=[],
         ensures=["result == self.value", "namespace == old(namespace)"], modifies=[], raises=[])
contract(Q + "QVariable.interpret", params=dict(self="QVariable", **INTERP), returns="JV", requires=[],
         # an unknown variable is an interpret error and changes nothing; a known one evaluates to the value the node carries,
         # which is also (re)bound to the name - every other binding is as before
         ensures=["old(self.name in namespace)", "same_value(result, self.value)",
                  "self.name in namespace and same_value(namespace[self.name], self.value)",
                  "all(k == self.name or (k in old(namespace) and same_value(namespace[k], old(namespace)[k])) for k in namespace)",
                  "all(k in namespace for k in old(namespace))"],
         exc_ensures={"QueryInterpretException": ["not old(self.name in namespace)", "namespace == old(namespace)"]},
         modifies=["namespace"], raises=["QueryInterpretException"])
contract(Q + "get_return", params={"namespace": "Dict[str,JV]"}, returns="JV", requires=[],
         # the query's result is the binding of RETURN; a query that never assigns it is rejected with a query error
         ensures=["old('RETURN' in namespace)", "same_value(result, namespace['RETURN'])", "namespace == old(namespace)"],
         exc_ensures={"QueryParseException": ["'RETURN' not in namespace", "namespace == old(namespace)"]},
         modifies=[], raises=["QueryParseException"])
