"""C19 - contracts for aw_transform/classify.py, split_url_events.py, simplify.py."""
from pyvc.specrt import *  # noqa: F401,F403
from pyvc.api import contract, spec, classdef, opaque

classdef("re.Pattern", fields={"pattern": "str", "flags": "int"})
classdef("urllib.parse.ParseResult", fields={"scheme": "str", "netloc": "str", "path": "str", "params": "str",
                                             "query": "str", "fragment": "str"})
classdef("aw_transform.classify.Rule", fields={"regex": "Optional[re.Pattern]", "select_keys": "Optional[List[str]]",
                                                "ignore_case": "bool"})

C = "aw_transform.classify."

contract(
    C + "_pick_deepest_cat",
    params={"t1": "List[str]", "t2": "List[str]"}, returns="List[str]", requires=[],
    ensures=["(result is t2) == (len(t2) >= len(t1))", "result is t1 or result is t2"],
    modifies=[], raises=[],
)


@spec
def value_matches(rule, v):
    """v is a string in which the rule's (non-empty) regex is found."""
    return isinstance(v, str) and re_search(rule.regex.pattern, rule.regex.flags, v)


@opaque
def rule_matches(rule, e):
    """The property's matching rule: a non-empty regex found in any selected string value."""
    return rule.regex is not None and (
        any(k in e.data and value_matches(rule, e.data[k]) for k in rule.select_keys)
        if rule.select_keys
        else any(value_matches(rule, e.data[k]) for k in e.data))


contract(
    C + "Rule.match",
    params={"self": "Rule", "e": "Event"}, returns="bool", requires=[],
    functional="rule_matches(self, e)",
    ensures=["result == rule_matches(self, e)",
             "e.data == old(e.data) and e.timestamp == old(e.timestamp) and e.duration == old(e.duration)"],
    modifies=["alloc"], raises=[],
    writes_fresh=["List.len", "List.items"],
    loops={0: dict(index="k", invariant=[
        "self.regex is not None",
        "all(not value_matches(self, values[j]) for j in range(k))",
    ])},
)


# The rule description handed to Rule(...): a dict with the optional keys select_keys / ignore_case / regex.
classdef("aw_transform.classify.RuleDict", fields={"select_keys": "Optional[List[str]]", "ignore_case": "bool",
                                                    "regex": "Optional[str]"})
from pyvc.api import CLASSDEFS
CLASSDEFS["aw_transform.classify.RuleDict"].update(record=True, partial=True)

contract(
    C + "Rule.__init__",
    params={"self": "Rule", "rules": "RuleDict"}, requires=[],
    ensures=[
        "self.select_keys is (rules['select_keys'] if 'select_keys' in rules else None)",
        "self.ignore_case == (rules['ignore_case'] if 'ignore_case' in rules else False)",
        # the regex is compiled only when non-empty; case-insensitive exactly when asked
        "(self.regex is not None) == ('regex' in rules and rules['regex'] is not None and len(rules['regex']) > 0)",
        "self.regex is None or (self.regex.pattern == rules['regex'] "
        "                       and self.regex.flags == ((2 if self.ignore_case else 0) | 32))",
    ],
    modifies=["self.regex", "self.select_keys", "self.ignore_case", "alloc"], writes_fresh=["re.Pattern.pattern", "re.Pattern.flags"], raises=[],
)


contract(
    C + "_pick_category",
    params={"tags": "List[List[str]]"}, returns="List[str]",
    requires=["all(len(tags[m]) >= 1 for m in range(len(tags)))"],
    ghost_returns={"wm": "int"},
    ensures=[
        # nothing to pick from: 'Uncategorized'
        "len(tags) > 0 or (len(result) == 1 and result[0] == 'Uncategorized' and fresh(result))",
        # otherwise the deepest one, the later one winning ties
        "len(tags) == 0 or (0 <= wm and wm < len(tags) and result is tags[wm])",
        "all(len(tags[m]) <= len(result) for m in range(len(tags)))",
        "all(len(tags[m]) < len(result) for m in range(wm + 1, len(tags)))",
    ],
    modifies=["alloc"], writes_fresh=["List.len", "List.items"], raises=[],
    loops={"reduce": dict(
        index="k",
        ghost={"wm": ("int", "-1")},
        ghost_update=["wm = k if acc is x else wm"],
        invariant=[
            "len(acc) >= 1",
            "k > 0 or (acc is entry(acc) and wm == -1)",
            "k == 0 or (0 <= wm and wm < k and acc is __xs[wm])",
            "all(len(__xs[j]) <= len(acc) for j in range(k))",
            "all(len(__xs[j]) < len(acc) for j in range(wm + 1, k))",
        ])},
)


@spec
def cls_match(classes, m, e):
    return rule_matches(classes[m][1], e)


KEEP = ("result is e and e.timestamp == old(e.timestamp) and e.duration == old(e.duration) and e.id == old(e.id)")

contract(
    C + "_categorize_one",
    params={"e": "Event", "classes": "List[Tuple[List[str], Rule]]"}, returns="Event",
    requires=["all(len(classes[m][0]) >= 1 for m in range(len(classes)))",
              "'$category' not in e.data or not isinstance(e.data['$category'], str)"],
    ensures=[
        KEEP,
        # only the $category key is written
        "dict_without(e.data, '$category') == old(dict_without(e.data, '$category')) and '$category' in e.data",
        # nothing matches -> ['Uncategorized']
        "any(old(cls_match(classes, m, e)) for m in range(len(classes))) or "
        "(len(jv_list(e.data['$category'])) == 1 and jv_list(e.data['$category'])[0] == 'Uncategorized')",
        # otherwise the category of a matching rule that is at least as deep as every matching rule's,
        # and strictly deeper than every later matching rule's (the later rule wins ties)
        # (lemmas about the function's own filter result F = last_filter() and the index g_wm chosen in it)
        "not any(old(cls_match(classes, m, e)) for m in range(len(classes))) or len(last_filter()) > 0",
        "len(last_filter()) == 0 or (0 <= g_wm and g_wm < len(last_filter()) and jv_list(e.data['$category']) is last_filter()[g_wm])",
        "len(last_filter()) == 0 or (0 <= filter_sel(last_filter())[g_wm] and filter_sel(last_filter())[g_wm] < len(classes)"
        "                            and old(cls_match(classes, filter_sel(last_filter())[g_wm], e))"
        "                            and last_filter()[g_wm] is classes[filter_sel(last_filter())[g_wm]][0])",
        "all(not old(cls_match(classes, m2, e)) or (0 <= filter_pos(last_filter())[m2] and filter_pos(last_filter())[m2] < len(last_filter())"
        "    and filter_sel(last_filter())[filter_pos(last_filter())[m2]] == m2"
        "    and last_filter()[filter_pos(last_filter())[m2]] is classes[m2][0]) for m2 in range(len(classes)))",
        "len(last_filter()) == 0 or all(not old(cls_match(classes, m2, e)) or filter_pos(last_filter())[m2] > g_wm"
        "    for m2 in range(filter_sel(last_filter())[g_wm] + 1, len(classes)))",
        "len(last_filter()) == 0 or all(not old(cls_match(classes, m2, e)) or len(classes[m2][0]) < len(jv_list(e.data['$category']))"
        "    for m2 in range(filter_sel(last_filter())[g_wm] + 1, len(classes)))",
        # (the witness is written out: WM = index in `classes` of the chosen rule)
        "not any(old(cls_match(classes, m, e)) for m in range(len(classes))) or "
        "(0 <= filter_sel(last_filter())[g_wm] and filter_sel(last_filter())[g_wm] < len(classes)"
        " and old(cls_match(classes, filter_sel(last_filter())[g_wm], e))"
        " and jv_list(e.data['$category']) is classes[filter_sel(last_filter())[g_wm]][0]"
        " and all(not old(cls_match(classes, m2, e)) or len(classes[m2][0]) < len(jv_list(e.data['$category']))"
        "         for m2 in range(filter_sel(last_filter())[g_wm] + 1, len(classes))))",
        # (lemmas over the function's own filter result)
        "all(not old(cls_match(classes, m, e)) or (0 <= filter_pos(last_filter())[m] and filter_pos(last_filter())[m] < len(last_filter())"
        "    and filter_sel(last_filter())[filter_pos(last_filter())[m]] == m) for m in range(len(classes)))",
        "all(not old(cls_match(classes, m, e)) or last_filter()[filter_pos(last_filter())[m]] is classes[m][0] for m in range(len(classes)))",
        "all(not old(cls_match(classes, m, e)) or len(last_filter()[filter_pos(last_filter())[m]]) <= len(jv_list(e.data['$category']))"
        "    for m in range(len(classes)))",
        "all(not old(cls_match(classes, m, e)) or len(classes[m][0]) <= len(jv_list(e.data['$category'])) for m in range(len(classes)))",
        # the same without the ghost witness (for callers)
        "not any(old(cls_match(classes, m, e)) for m in range(len(classes))) or "
        "any(old(cls_match(classes, m, e)) and jv_list(e.data['$category']) is classes[m][0]"
        "    and all(not old(cls_match(classes, m2, e)) or len(classes[m2][0]) < len(classes[m][0]) for m2 in range(m + 1, len(classes)))"
        "    for m in range(len(classes)))",
    ],
    internal_ensures=[3, 4, 5, 6, 7, 8, 9, 10, 11, 12],
    modifies=["e.data[]", "alloc"], writes_fresh=["List.len", "List.items"], raises=[],
)

contract(
    C + "_tag_one",
    params={"e": "Event", "classes": "List[Tuple[str, Rule]]"}, returns="Event",
    requires=["'$tags' not in e.data or not isinstance(e.data['$tags'], str)"],
    ensures=[
        KEEP,
        "dict_without(e.data, '$tags') == old(dict_without(e.data, '$tags')) and '$tags' in e.data",
        # exactly the matching tags, in rule order
        "jv_list(e.data['$tags']) is last_filter()",
        "all(0 <= filter_sel(last_filter())[j] and filter_sel(last_filter())[j] < len(classes)"
        "    and last_filter()[j] == classes[filter_sel(last_filter())[j]][0]"
        "    and old(cls_match(classes, filter_sel(last_filter())[j], e)) for j in range(len(last_filter())))",
        "all(filter_sel(last_filter())[j] < filter_sel(last_filter())[j2] for j in range(len(last_filter())) for j2 in range(j + 1, len(last_filter())))",
        "all(not old(cls_match(classes, m, e)) or (0 <= filter_pos(last_filter())[m] and filter_pos(last_filter())[m] < len(last_filter())"
        "    and filter_sel(last_filter())[filter_pos(last_filter())[m]] == m) for m in range(len(classes)))",
    ],
    modifies=["e.data[]", "alloc"], writes_fresh=["List.len", "List.items"], raises=[],
)


@spec
def distinct_data(events):
    return all(events[a].data is not events[b].data for a in range(len(events)) for b in range(a + 1, len(events)))


SAME_EVENTS = ("len(result) == len(events) and all(result[i] is events[i] and events[i].timestamp == old(events[i].timestamp) "
               "and events[i].duration == old(events[i].duration) and events[i].id == old(events[i].id) for i in range(len(events)))")

contract(
    C + "categorize",
    params={"events": "List[Event]", "classes": "List[Tuple[List[str], Rule]]"}, returns="List[Event]",
    requires=["distinct_data(events)", "all(len(classes[m][0]) >= 1 for m in range(len(classes)))",
              "all('$category' not in events[i].data or not isinstance(events[i].data['$category'], str) for i in range(len(events)))"],
    ensures=[
        SAME_EVENTS,
        "all(dict_without(events[i].data, '$category') == old(dict_without(events[i].data, '$category')) and '$category' in events[i].data"
        "    for i in range(len(events)))",
        # 'Uncategorized' when nothing matches
        "all(any(old(cls_match(classes, m, events[i])) for m in range(len(classes))) or "
        "    (len(jv_list(events[i].data['$category'])) == 1 and jv_list(events[i].data['$category'])[0] == 'Uncategorized')"
        "    for i in range(len(events)))",
        # the category set is at least as deep as that of every matching rule
        "all(not old(cls_match(classes, m, events[i])) or len(classes[m][0]) <= len(jv_list(events[i].data['$category']))"
        "    for i in range(len(events)) for m in range(len(classes)))",
        # ... and it is the category of a matching rule after which no equally deep rule matches (later wins ties)
        "all(not any(old(cls_match(classes, m, events[i])) for m in range(len(classes))) or "
        "    any(old(cls_match(classes, m, events[i])) and jv_list(events[i].data['$category']) is classes[m][0]"
        "        and all(not old(cls_match(classes, m2, events[i])) or len(classes[m2][0]) < len(classes[m][0])"
        "                for m2 in range(m + 1, len(classes))) for m in range(len(classes)))"
        "    for i in range(len(events)))",
    ],
    modifies=["alloc", "Dict.map"], writes_fresh=["*"], raises=[],
)

contract(
    C + "tag",
    params={"events": "List[Event]", "classes": "List[Tuple[str, Rule]]"}, returns="List[Event]",
    requires=["distinct_data(events)",
              "all('$tags' not in events[i].data or not isinstance(events[i].data['$tags'], str) for i in range(len(events)))"],
    ensures=[
        SAME_EVENTS,
        "all(dict_without(events[i].data, '$tags') == old(dict_without(events[i].data, '$tags')) and '$tags' in events[i].data"
        "    for i in range(len(events)))",
    ],
    modifies=["alloc", "Dict.map"], writes_fresh=["*"], raises=[],
)

from pyvc.api import CONTRACTS
CONTRACTS[C + "_tag_one"]["internal_ensures"] = [2, 3, 4, 5]      # stated over the function's own filter result


# ---- split_url_events -------------------------------------------------------------------------------------
URLKEYS = "'$protocol', '$domain', '$path', '$params', '$options', '$identifier'"


@spec
def url_annotated(d, url):
    """The six $-keys hold the components of url (a leading 'www.' is stripped from the domain)."""
    return (d['$protocol'] == url_part('scheme', url)
            and d['$domain'] == (url_part('netloc', url)[4:] if url_part('netloc', url)[:4] == 'www.' else url_part('netloc', url))
            and d['$path'] == url_part('path', url) and d['$params'] == url_part('params', url)
            and d['$options'] == url_part('query', url) and d['$identifier'] == url_part('fragment', url))


DONE_URL = ("(('url' in old(events[i].data)) and url_annotated(events[i].data, old(events[i].data)['url'])"
            "  and dict_without(events[i].data, " + URLKEYS + ") == dict_without(old(events[i].data), " + URLKEYS + "))"
            " or (('url' not in old(events[i].data)) and events[i].data == old(events[i].data))")

contract(
    "aw_transform.split_url_events.split_url_events",
    params={"events": "List[Event]"}, returns="List[Event]",
    requires=["distinct_data(events)",
              "all('url' not in events[i].data or isinstance(events[i].data['url'], str) for i in range(len(events)))"],
    ensures=[
        "result is events and len(events) == old(len(events))",
        "all(events[i] is old(events[i]) and events[i].timestamp == old(events[i].timestamp) and events[i].duration == old(events[i].duration)"
        "    and events[i].id == old(events[i].id) for i in range(len(events)))",
        "all(" + DONE_URL + " for i in range(len(events)))",
    ],
    modifies=["alloc", "Dict.map"], writes_fresh=["*"], raises=[],
    loops={0: dict(index="k",
        hints=["all(events[i].data is not events[prev(k)].data for i in range(len(events)) if i != prev(k))"],
        invariant=[
        "all(" + DONE_URL + " for i in range(k))",
        "all(events[i].data == old(events[i].data) for i in range(k, len(events)))",
    ])},
)

# ---- simplify_string ----------------------------------------------------------------------------------------
contract(
    "aw_transform.simplify.simplify_string",
    params={"events": "List[Event]", "key": "str"}, returns="List[Event]",
    requires=["all(key in events[i].data and isinstance(events[i].data[key], str) for i in range(len(events)))"],
    ghost_vars={"C0": ("List[Event]", "[]")},
    ghost_code=[dict(after="events = deepcopy(events)", code="C0 = events")],
    ensures=[
        "len(result) == len(events) and fresh(result)",
        "all(fresh(result[i]) and result[i].timestamp == events[i].timestamp and result[i].duration == events[i].duration"
        "    and result[i].id == events[i].id for i in range(len(result)))",
        # only the given key is rewritten
        "all(dict_without(result[i].data, key) == dict_without(events[i].data, key) and key in result[i].data for i in range(len(result)))",
        # the input is not modified
        "len(events) == old(len(events)) and all(events[i] is old(events[i]) and events[i].data == old(events[i].data)"
        "    and events[i].timestamp == old(events[i].timestamp) and events[i].duration == old(events[i].duration) for i in range(len(events)))",
    ],
    modifies=["alloc"], writes_fresh=["*"], raises=[],
    loops={0: dict(index="k", invariant=[
        "all(old(events[i]).data == old(events[i].data) for i in range(old(len(events))))",
        "old_objects_unchanged('Dict.map') and all(fresh(C0[i]) and fresh(C0[i].data) for i in range(len(C0)))",
        "all(dict_without(C0[i].data, key) == dict_without(old(events[i].data), key) and key in C0[i].data"
        "    and isinstance(C0[i].data[key], str) for i in range(len(C0)))",
    ])},
)
