"""C20 - contracts for aw_core/config.py.

_merge is proved at one nesting level (no key holds a table on both sides, so the recursive branch is dead - that
is itself an obligation) and at two (tables of plain values on both sides: the variant `:d1`, which descends once into
the flat case); deeper documents (tables up to three deep) are covered by the run-time contract against an executable
reference merge (bounded).  The comparison `a[key] == b[key]` is Python's ==, modelled as an
uninterpreted relation: 1 == 1.0 == True in Python while TOML integer, float and boolean are different values."""
from pyvc.specrt import *  # noqa: F401,F403
from pyvc.api import contract, spec


@spec
def is_tab(v):
    return isinstance(v, dict)


@spec
def both_tab(a, b, k):
    return k in a and k in b and is_tab(a[k]) and is_tab(b[k])


@spec
def flat_pair(x, y):
    """no key holds a table on both sides"""
    return all(k not in x or not (is_tab(x[k]) and is_tab(y[k])) for k in y)


contract(
    "aw_core.config._merge",
    params={"a": "Dict[str,JV]", "b": "Dict[str,JV]", "path": "Optional[List[str]]"},
    returns="Dict[str,JV]",
    requires=["a is not b",
              # one nesting level: no key holds a table on both sides
              "all(k not in a or not (is_tab(a[k]) and is_tab(b[k])) for k in b)"],
    ensures=[
        "result is a",
        # keys: the union
        "all(k in a for k in b) and all(k in a for k in old(a)) and all(k in old(a) or k in b for k in a)",
        # a key the user's file does not set keeps the default
        "all(k in b or same_value(a[k], old(a)[k]) for k in old(a))",
        # a key only the user has is kept
        "all(k in old(a) or same_value(a[k], b[k]) for k in b)",
        # a key both have: the user's value - the very same value, whatever Python's == says about the default
        "all(k not in old(a) or same_value(a[k], b[k]) for k in b)",
        # the user's document is not modified
        "b == old(b)",
    ],
    modifies=["a", "alloc"], writes_fresh=["List.len", "List.items"], raises=[],
    loops={0: dict(index="kidx", invariant=[
        "b == old(b)",
        "all(k in a for k in old(a)) and all(k in old(a) or k in b for k in a)",
        "all(k in b or same_value(a[k], old(a)[k]) for k in old(a))",
        # keys of b not reached yet: a is as it was there
        "all(key_index(b, k) < kidx or ((k in a) == (k in old(a)) and (k not in a or same_value(a[k], old(a)[k]))) for k in b)",
        # keys of b already handled
        "all(key_index(b, k) >= kidx or (k in a and same_value(a[k], b[k])) for k in b)",
    ])},
)


# ---- _merge, two nesting levels: tables of plain values (the shape of every configuration aw-core ships: [section] key = value) ------
# Proved by descending once: the recursive call is met with the contract of the flat case above (its precondition is this one's
# requirement that the two tables under a common key are flat with respect to each other); under that contract the function is
# proved not to recurse (`recursion-unreachable`), so the descent ends there.
# Deeper nesting stays with the run-time contract (bounded).
contract(
    "aw_core.config._merge:d1",
    params={"a": "Dict[str,JV]", "b": "Dict[str,JV]", "path": "Optional[List[str]]"},
    returns="Dict[str,JV]",
    descends_to="aw_core.config._merge",
    requires=["a is not b",
              # a TOML document is a tree: the tables the two documents hold are objects of their own, pairwise distinct
              "all(not is_tab(b[k]) or (jv_dict(b[k]) is not a and jv_dict(b[k]) is not b) for k in b)",
              "all(not is_tab(a[k]) or (jv_dict(a[k]) is not a and jv_dict(a[k]) is not b) for k in a)",
              "all(not (is_tab(b[k]) and is_tab(a[k2])) or jv_dict(b[k]) is not jv_dict(a[k2]) for k in b for k2 in a)",
              "all(k == k2 or not (is_tab(a[k]) and is_tab(a[k2])) or jv_dict(a[k]) is not jv_dict(a[k2]) for k in a for k2 in a)",
              # two nesting levels: where both sides hold a table, those two tables are flat with respect to each other,
              # and they are objects of their own (a TOML document is a tree)
              "all(not both_tab(a, b, k) or (flat_pair(jv_dict(a[k]), jv_dict(b[k])) and jv_dict(a[k]) is not jv_dict(b[k])"
              "    and jv_dict(a[k]) is not a and jv_dict(a[k]) is not b and jv_dict(b[k]) is not a and jv_dict(b[k]) is not b) for k in b)",
              "all(not (both_tab(a, b, k) and both_tab(a, b, k2)) or k == k2 or (jv_dict(a[k]) is not jv_dict(a[k2]) and jv_dict(a[k]) is not jv_dict(b[k2]))"
              "    for k in b for k2 in b)"],
    ensures=[
        "result is a",
        "all(k in a for k in b) and all(k in a for k in old(a)) and all(k in old(a) or k in b for k in a)",
        "all(k in b or same_value(a[k], old(a)[k]) for k in old(a))",
        "all(k in old(a) or same_value(a[k], b[k]) for k in b)",
        # a key both have, not both tables: the user's value
        "all(k not in old(a) or old(both_tab(a, b, k)) or same_value(a[k], b[k]) for k in b)",
        # a key both have as tables: the default's table object, merged one level down
        "all(not old(both_tab(a, b, k)) or (same_value(a[k], old(a)[k])"
        "    and all(k2 in jv_dict(a[k]) and same_value(jv_dict(a[k])[k2], jv_dict(b[k])[k2]) for k2 in jv_dict(b[k]))) for k in b)",
        "b == old(b)",
    ],
    modifies=["a", "alloc", "Dict.map"], writes_fresh=["List.len", "List.items"], raises=[],
    loops={0: dict(index="kidx", invariant=[
        "b == old(b)",
        "all(not is_tab(b[k]) or jv_dict(b[k]) == old(jv_dict(b[k])) for k in b)",
        "all(k in a for k in old(a)) and all(k in old(a) or k in b for k in a)",
        "all(k in b or same_value(a[k], old(a)[k]) for k in old(a))",
        # keys of b not reached yet: a is as it was there, and so is the table it may hold there
        "all(key_index(b, k) < kidx or ((k in a) == (k in old(a)) and (k not in a or same_value(a[k], old(a)[k]))) for k in b)",
        "all(key_index(b, k) < kidx or not old(both_tab(a, b, k)) or jv_dict(a[k]) == old(jv_dict(a[k])) for k in b)",
        # keys of b already handled
        "all(key_index(b, k) >= kidx or old(both_tab(a, b, k)) or (k in a and same_value(a[k], b[k])) for k in b)",
        "all(key_index(b, k) >= kidx or not old(both_tab(a, b, k)) or (k in a and same_value(a[k], old(a)[k])"
        "    and all(k2 in jv_dict(a[k]) and same_value(jv_dict(a[k])[k2], jv_dict(b[k])[k2]) for k2 in jv_dict(b[k]))) for k in b)",
    ])},
)


# ---- load_config_toml: executable statement (bounded) -------------------------------------------------------------
def ref_merge(d, u):
    """Independent reference: defaults overlaid by the user's values at every nesting level."""
    out = {}
    for k in d:
        if k in u:
            if isinstance(d[k], dict) and isinstance(u[k], dict):
                out[k] = ref_merge(d[k], u[k])
            else:
                out[k] = u[k]
        else:
            out[k] = d[k]
    for k in u:
        if k not in d:
            out[k] = u[k]
    return out


def plain(v):
    """tomlkit containers/items -> plain python values (types preserved)."""
    if hasattr(v, "unwrap"):
        v = v.unwrap()
    if isinstance(v, dict):
        return {k: plain(x) for k, x in v.items()}
    if isinstance(v, (list, tuple)):
        return [plain(x) for x in v]
    return v


def load_config_harness(default_doc, user_doc, existing):
    """Runs the real load_config_toml in a fresh config directory; returns everything the clauses need."""
    import os
    import tempfile
    import shutil
    import tomlkit
    from aw_core import config, dirs
    tmp = tempfile.mkdtemp(prefix="c20-")
    old = os.environ.get("XDG_CONFIG_HOME")
    os.environ["XDG_CONFIG_HOME"] = tmp
    try:
        default_text = tomlkit.dumps(default_doc)
        path = os.path.join(dirs.get_config_dir("c20app"), "c20app.toml")
        before = None
        if existing:
            before = tomlkit.dumps(user_doc)
            with open(path, "w") as f:
                f.write(before)
        r1 = plain(config.load_config_toml("c20app", default_text))
        with open(path) as f:
            after = f.read()
        r2 = plain(config.load_config_toml("c20app", default_text))
        return {"first": r1, "second": r2, "before": before, "after": after,
                "default": plain(tomlkit.parse(default_text)), "user": plain(tomlkit.parse(before)) if existing else {}}
    finally:
        if old is None:
            os.environ.pop("XDG_CONFIG_HOME", None)
        else:
            os.environ["XDG_CONFIG_HOME"] = old
        shutil.rmtree(tmp, ignore_errors=True)


contract(
    "aw_core.config.load_config_toml",
    params={"default_doc": "TomlDoc", "user_doc": "TomlDoc", "existing": "bool"},
    requires=[], ensures=[],
    native_ensures=[
        # defaults overlaid by the user's file at every level, same values *and types*
        "same_value(result['first'], ref_merge(result['default'], result['user']))",
        "same_value(result['second'], result['first'])",
        # an existing user file is never altered
        "not existing or result['after'] == result['before']",
        # first run: the written file leaves the effective configuration equal to the defaults on every later load
        "existing or same_value(result['second'], result['default'])",
    ],
)
