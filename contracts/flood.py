"""C10 - contract for aw_transform/flood.py::flood.

Vocabulary (S, D: ghost snapshots of the sorted working copy taken before the sweep):
  S[j], D[j]        original start / duration of the j-th event in start order;  E_j = S[j] + D[j]
  gap j             S[j+1] - E_j   (>= 0 under the precondition)
  P                 timedelta(seconds=pulsetime)
"""
from datetime import timedelta
from pyvc.specrt import *  # noqa: F401,F403
from pyvc.api import contract, spec

M = "aw_transform.flood."


@spec
def end_of(e):
    return e.timestamp + e.duration


@spec
def flood_input_ok(evs):
    """Non-overlapping events with distinct timestamps and non-negative whole-millisecond durations."""
    return (all(evs[i].duration >= timedelta(0) and ms_aligned(evs[i].duration)
                for i in range(len(evs)))
            and all(evs[a].timestamp != evs[b].timestamp for a in range(len(evs)) for b in range(a + 1, len(evs)))
            and all(not (evs[a].timestamp < evs[b].timestamp) or end_of(evs[a]) <= evs[b].timestamp
                    for a in range(len(evs)) for b in range(len(evs))))


INV = [
    # (0) shape: snapshots and lists keep their lengths; the two zip operands are the shifted copies
    "len(S) == len(events) and len(D) == len(events) and k <= len(events)",
    # (a) events not yet reached are untouched
    "all(events[j].timestamp == S[j] and events[j].duration == D[j] for j in range(k + 1, len(events)))",
    # (b) the current left event still ends where it originally ended
    "k >= len(events) or (end_of(events[k]) == S[k] + D[k] and events[k].duration >= timedelta(0))",
    # alignment (so the millisecond-flooring timestamp setter is the identity on every value assigned)
    "all(ms_aligned(events[j].timestamp) and ms_aligned(events[j].duration)"
    "    and events[j].duration >= timedelta(0) for j in range(len(events)))",
    # (N) everything processed ends before every later start
    "all(not (events[i].duration > timedelta(0)) or end_of(events[i]) <= events[j].timestamp"
    "    for i in range(k + 1) for j in range(i + 1, k + 1) if j < len(events))",
    # (Cv) every positive original is inside a positive element with its label
    "all(not (D[j] > timedelta(0)) or (0 <= w[j] and w[j] <= k and w[j] < len(events)"
    "        and events[w[j]].data == events[j].data and events[w[j]].duration > timedelta(0)"
    "        and events[w[j]].timestamp <= S[j] and S[j] + D[j] <= end_of(events[w[j]]))"
    "    for j in range(k + 1) if j < len(events))",
    # (Cl) every short gap already passed is covered by one positive element
    "all(not (timedelta(0) < S[j + 1] - (S[j] + D[j]) and S[j + 1] - (S[j] + D[j]) <= timedelta(seconds=pulsetime))"
    "    or (0 <= c[j] and c[j] <= k and events[c[j]].duration > timedelta(0)"
    "        and events[c[j]].timestamp <= S[j] + D[j] and S[j + 1] <= end_of(events[c[j]]))"
    "    for j in range(k))",
    # (In) no element enters a long gap already passed
    "all(not (S[j + 1] - (S[j] + D[j]) > timedelta(seconds=pulsetime))"
    "    or ((not (i > j) or events[i].timestamp >= S[j + 1])"
    "        and (not (i <= j and events[i].duration > timedelta(0)) or end_of(events[i]) <= S[j] + D[j]))"
    "    for j in range(k) for i in range(k + 1) if i < len(events))",
    # (Fr) processed elements stay inside the original hull so far
    "all((not (events[i].duration > timedelta(0)) or k >= len(events) or end_of(events[i]) <= S[k] + D[k])"
    "    and events[i].timestamp >= S[0] for i in range(k + 1) if i < len(events))",
    # the caller's events are never written (all writes go to the deep copies)
    "all(old(events[i]).timestamp == old(events[i].timestamp) and old(events[i]).duration == old(events[i].duration)"
    "    and old(events[i]).data == old(events[i].data) for i in range(old(len(events))))",
    "old_objects_unchanged('Event.timestamp', 'Event.duration') and all(fresh(events[j]) for j in range(len(events)))",
    # sortedness / separation of the originals
    "all(S[a] + D[a] <= S[b] and S[a] < S[b] for a in range(len(S)) for b in range(a + 1, len(S)))",
    "all(D[a] >= timedelta(0) for a in range(len(D)))",
]

contract(
    M + "flood",
    params={"events": "List[Event]", "pulsetime": "float"},
    returns="List[Event]",
    requires=["flood_input_ok(events)", "pulsetime >= 0"],
    ghost_vars={"S": ("List[datetime]", "[]"), "D": ("List[timedelta]", "[]"), "W": ("List[Event]", "[]"),
                "w": ("IntMap", "mnew()"), "c": ("IntMap", "mnew()"), "FP": ("IntMap", "mnew()"),
                "Q": ("IntMap", "mnew()")},
    ghost_code=[
        dict(after="events = sorted(events",
             code="W = events\nQ = sort_inv(events)\nS = [e.timestamp for e in events]\nD = [e.duration for e in events]\n"
                  "w = mset(w, 0, 0)"),
        dict(after="events = [e for e in events if", code="FP = filter_pos(events)"),
    ],
    ensures=[
        # S, D describe the input (in start order): a permutation of the input's values
        "len(S) == old(len(events)) and len(D) == len(S) and len(W) == len(S)",
        "all(0 <= Q[i] and Q[i] < len(S) and S[Q[i]] == old(events[i].timestamp) and D[Q[i]] == old(events[i].duration)"
        "    and W[Q[i]].data == old(events[i].data) for i in range(len(S)))",
        # P1 positive-length, non-overlapping, in order
        "all(result[r].duration > timedelta(0) for r in range(len(result)))",
        "all(end_of(result[r]) <= result[r + 1].timestamp for r in range(len(result) - 1))",
        # P2 all time covered by the input is still covered, by an event with the same label
        "all(not (D[j] > timedelta(0)) or (0 <= FP[w[j]] and FP[w[j]] < len(result) "
        "        and result[FP[w[j]]].data == W[j].data"
        "        and result[FP[w[j]]].timestamp <= S[j] and S[j] + D[j] <= end_of(result[FP[w[j]]]))"
        "    for j in range(len(S)))",
        # P3 every gap of at most the pulsetime has been closed
        "all(not (timedelta(0) < S[j + 1] - (S[j] + D[j]) and S[j + 1] - (S[j] + D[j]) <= timedelta(seconds=pulsetime))"
        "    or (0 <= FP[c[j]] and FP[c[j]] < len(result) and result[FP[c[j]]].timestamp <= S[j] + D[j] "
        "        and S[j + 1] <= end_of(result[FP[c[j]]]))"
        "    for j in range(len(S) - 1))",
        # P4 every longer gap is intact: no returned event reaches into it
        "all(not (S[j + 1] - (S[j] + D[j]) > timedelta(seconds=pulsetime))"
        "    or end_of(result[r]) <= S[j] + D[j] or result[r].timestamp >= S[j + 1]"
        "    for j in range(len(S) - 1) for r in range(len(result)))",
        # P5 nothing leaves the hull of the input (with P4: newly covered time lies only inside short gaps)
        "all(result[r].timestamp >= S[0] and end_of(result[r]) <= S[len(S) - 1] + D[len(S) - 1] for r in range(len(result)))",
        # P6 the input is not modified, the result is made of new objects
        "len(events) == old(len(events))",
        "all(events[i] is old(events[i]) and events[i].timestamp == old(events[i].timestamp)"
        "    and events[i].duration == old(events[i].duration) and events[i].data == old(events[i].data)"
        "    for i in range(len(events)))",
        "all(fresh(result[r]) for r in range(len(result)))",
    ],
    native_ensures=[
        "all(result[r].duration > timedelta(0) for r in range(len(result)))",
        "all(end_of(result[r]) <= result[r + 1].timestamp for r in range(len(result) - 1))",
        "all(not (e.duration > timedelta(0)) or any(r.data == e.data and r.timestamp <= e.timestamp and end_of(e) <= end_of(r) for r in result)"
        "    for e in old(events))",
        "all(not (timedelta(0) < g[1] - g[0] and g[1] - g[0] <= timedelta(seconds=pulsetime))"
        "    or any(r.timestamp <= g[0] and g[1] <= end_of(r) for r in result) for g in gaps(old(events)))",
        "all(not (g[1] - g[0] > timedelta(seconds=pulsetime)) or all(end_of(r) <= g[0] or r.timestamp >= g[1] for r in result)"
        "    for g in gaps(old(events)))",
        "len(old(events)) == 0 or all(r.timestamp >= min(e.timestamp for e in old(events)) "
        "    and end_of(r) <= max(end_of(e) for e in old(events)) for r in result)",
        "len(events) == old(len(events))",
        "all(events[i] is old(events[i]) and events[i].timestamp == old(events[i].timestamp)"
        "    and events[i].duration == old(events[i].duration) and events[i].data == old(events[i].data)"
        "    for i in range(len(events)))",
    ],
    modifies=["alloc"], writes_fresh=["*"],
    raises=[],
    loops={0: dict(
        index="k",
        ghost_update=[
            "w = mremap(w, k, k + 1) if events[k].duration == timedelta(0) else w",
            "c = mremap(c, k, k + 1) if events[k].duration == timedelta(0) else c",
            "w = mset(w, k + 1, k if events[k + 1].duration == timedelta(0) else k + 1)",
            "c = mset(c, k, k if end_of(events[k]) >= S[k + 1] else k + 1)",
        ],
        hints=[
            # the left event never moves; the right one never moves before the left one's start
            "events[prev(k)].timestamp == prev(events[k].timestamp)",
            "events[prev(k) + 1].timestamp >= prev(events[k].timestamp)",
            # a long gap means nothing is changed in this step
            "S[prev(k) + 1] - (S[prev(k)] + D[prev(k)]) <= timedelta(seconds=pulsetime)"
            " or (events[prev(k)].duration == prev(events[k].duration) and events[prev(k) + 1].timestamp == S[prev(k) + 1]"
            "     and events[prev(k) + 1].duration == D[prev(k) + 1])",
            # whatever happens, the pair ends where the right event originally ended (or the left one, if untouched)
            "end_of(events[prev(k) + 1]) == S[prev(k) + 1] + D[prev(k) + 1]",
        ],
        invariant=INV,
    )},
)


def gaps(evs):
    """Run-time helper: (end of j-th, start of (j+1)-th) in start order."""
    s = sorted(evs, key=lambda e: e.timestamp)
    return [(a.timestamp + a.duration, b.timestamp) for a, b in zip(s[:-1], s[1:])]
