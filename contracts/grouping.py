"""C16 - sort_by_*, limit_events, filter_keyvals (deductive); merge_events_by_keys, chunk_events_by_key (run-time contract, bounded)."""
from datetime import timedelta
from pyvc.specrt import *  # noqa: F401,F403
from pyvc.api import contract, spec

UNCHANGED = ("len(events) == old(len(events)) and all(events[i] is old(events[i]) and events[i].timestamp == old(events[i].timestamp)"
             " and events[i].duration == old(events[i].duration) and events[i].data == old(events[i].data)"
             " and events[i].id == old(events[i].id) for i in range(len(events)))")

PERM = [
    "len(result) == len(events) and fresh(result)",
    # result is a permutation of the input: sort_perm / sort_inv are mutually inverse index maps
    "all(0 <= sort_perm(result)[a] and sort_perm(result)[a] < len(events) and result[a] is events[sort_perm(result)[a]]"
    "    and sort_inv(result)[sort_perm(result)[a]] == a for a in range(len(result)))",
    "all(0 <= sort_inv(result)[i] and sort_inv(result)[i] < len(result) and sort_perm(result)[sort_inv(result)[i]] == i"
    "    for i in range(len(events)))",
]


def same_multiset(xs, ys):
    return sorted(map(id, xs)) == sorted(map(id, ys))


contract(
    "aw_transform.sort_by.sort_by_timestamp",
    params={"events": "List[Event]"}, returns="List[Event]", requires=[],
    ensures=PERM + ["all(result[a].timestamp <= result[b].timestamp for a in range(len(result)) for b in range(a + 1, len(result)))",
                    UNCHANGED],
    native_ensures=["same_multiset(result, events)", "result is not events",
                    "all(result[a].timestamp <= result[a + 1].timestamp for a in range(len(result) - 1))", UNCHANGED],
    modifies=["alloc"], writes_fresh=["List.len", "List.items"], raises=[],
)

contract(
    "aw_transform.sort_by.sort_by_duration",
    params={"events": "List[Event]"}, returns="List[Event]", requires=[],
    ensures=PERM + ["all(result[a].duration >= result[b].duration for a in range(len(result)) for b in range(a + 1, len(result)))",
                    UNCHANGED],
    native_ensures=["same_multiset(result, events)", "result is not events",
                    "all(result[a].duration >= result[a + 1].duration for a in range(len(result) - 1))", UNCHANGED],
    modifies=["alloc"], writes_fresh=["List.len", "List.items"], raises=[],
)

contract(
    "aw_transform.sort_by.limit_events",
    params={"events": "List[Event]", "count": "int"}, returns="List[Event]", requires=[],
    ensures=["len(result) <= len(events) and fresh(result)",
             "all(result[i] is events[i] for i in range(len(result)))",
             "count < 0 or len(result) == min(count, len(events))",
             UNCHANGED],
    modifies=["alloc"], writes_fresh=["List.len", "List.items"], raises=[],
)


@spec
def kv_pred(e, key, vals):
    return key in e.data and e.data[key] in vals


contract(
    "aw_transform.filter_keyvals.filter_keyvals",
    params={"events": "List[Event]", "key": "str", "vals": "List[JV]", "exclude": "bool"},
    returns="List[Event]", requires=[],
    ensures=[
        "len(result) <= len(events) and fresh(result)",
        # an order-preserving sub-sequence: exactly the events whose predicate value differs from `exclude`
        "all(0 <= filter_sel(result)[j] and filter_sel(result)[j] < len(events) and result[j] is events[filter_sel(result)[j]]"
        "    and kv_pred(result[j], key, vals) != exclude for j in range(len(result)))",
        "all(filter_sel(result)[j] < filter_sel(result)[j2] for j in range(len(result)) for j2 in range(j + 1, len(result)))",
        "all(kv_pred(events[i], key, vals) == exclude or (0 <= filter_pos(result)[i] and filter_pos(result)[i] < len(result)"
        "    and filter_sel(result)[filter_pos(result)[i]] == i) for i in range(len(events)))",
        UNCHANGED,
    ],
    native_ensures=[
        "[id(e) for e in result] == [id(e) for e in events if kv_pred(e, key, vals) != exclude]",
        # the two polarities split the input into complementary sub-sequences
        "sorted([id(e) for e in result] + [id(e) for e in filter_keyvals_real(events, key, vals, not exclude)]) == sorted(id(e) for e in events)",
        UNCHANGED,
    ],
    modifies=["alloc"], writes_fresh=["List.len", "List.items"], raises=[],
)


def filter_keyvals_real(events, key, vals, exclude):
    from aw_transform import filter_keyvals
    return filter_keyvals(events, key, vals, exclude)


# ---- merge_events_by_keys / chunk_events_by_key: executable statement (bounded) ---------------------------
def group_key(e, keys):
    """One group per distinct combination of presence and value of the given keys."""
    out = []
    for k in keys:
        if k in e.data:
            v = e.data[k]
            out.append((True, tuple(v) if isinstance(v, list) else v))
        else:
            out.append((False, None))
    return tuple(out)


def total(evs):
    return sum((e.duration for e in evs), timedelta(0))


contract(
    "aw_transform.merge_events_by_keys.merge_events_by_keys",
    params={"events": "List[Event]", "keys": "List[str]"}, returns="List[Event]",
    requires=["len(keys) >= 1"], ensures=[],
    native_ensures=[
        "len(result) == len({group_key(e, keys) for e in old(list(events))})",
        "all(sum(1 for r in result if group_key(r, keys) == g) == 1 for g in {group_key(e, keys) for e in old(list(events))})",
        "all(r.duration == total([e for e in old(list(events)) if group_key(e, keys) == group_key(r, keys)]) for r in result)",
        "total(result) == total(old(list(events)))",
        "all(set(r.data.keys()) == {k for k in keys if k in r.data} for r in result)",
        UNCHANGED,
    ],
)

contract(
    "aw_transform.chunk_events_by_key.chunk_events_by_key",
    params={"events": "List[Event]", "key": "str"}, returns="List[Event]",
    requires=["all(key in e.data for e in events)"], ensures=[],
    native_ensures=[
        # sub-events concatenate back to the input
        "[id(s) for c in result for s in c.data['subevents']] == [id(e) for e in events]",
        "all(c.duration == total(c.data['subevents']) for c in result)",
        "all(all(s.data[key] == c.data[key] for s in c.data['subevents']) for c in result)",
        "all(len(c.data['subevents']) >= 1 and c.timestamp == c.data['subevents'][0].timestamp for c in result)",
        "total(result) == total(events)",
        UNCHANGED,
    ],
)
