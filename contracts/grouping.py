"""C16 - sort_by_*, limit_events, filter_keyvals (deductive); merge_events_by_keys, chunk_events_by_key (run-time contract, bounded)."""
from datetime import timedelta
from pyvc.specrt import *  # noqa: F401,F403
from pyvc.api import contract, spec

UNCHANGED = ("len(events) == old(len(events)) and all(events[i] is old(events[i]) and events[i].timestamp == old(events[i].timestamp)"
             " and events[i].duration == old(events[i].duration) and events[i].data == old(events[i].data)"
             " and events[i].id == old(events[i].id) for i in range(len(events)))")

PERM = [
    "len(result) == len(events) and fresh(result)",
    # result is a permutation of the input: sort_perm / sort_inv are mutually inverse index maps
    "all(0 <= sort_perm(result)[a] and sort_perm(result)[a] < len(events) and result[a] is events[sort_perm(result)[a]]"
    "    and sort_inv(result)[sort_perm(result)[a]] == a for a in range(len(result)))",
    "all(0 <= sort_inv(result)[i] and sort_inv(result)[i] < len(result) and sort_perm(result)[sort_inv(result)[i]] == i"
    "    for i in range(len(events)))",
]


def same_multiset(xs, ys):
    return sorted(map(id, xs)) == sorted(map(id, ys))


contract(
    "aw_transform.sort_by.sort_by_timestamp",
    params={"events": "List[Event]"}, returns="List[Event]", requires=[],
    ensures=PERM + ["all(result[a].timestamp <= result[b].timestamp for a in range(len(result)) for b in range(a + 1, len(result)))",
                    UNCHANGED],
    native_ensures=["same_multiset(result, events)", "result is not events",
                    "all(result[a].timestamp <= result[a + 1].timestamp for a in range(len(result) - 1))", UNCHANGED],
    modifies=["alloc"], writes_fresh=["List.len", "List.items"], raises=[],
)

contract(
    "aw_transform.sort_by.sort_by_duration",
    params={"events": "List[Event]"}, returns="List[Event]", requires=[],
    ensures=PERM + ["all(result[a].duration >= result[b].duration for a in range(len(result)) for b in range(a + 1, len(result)))",
                    UNCHANGED],
    native_ensures=["same_multiset(result, events)", "result is not events",
                    "all(result[a].duration >= result[a + 1].duration for a in range(len(result) - 1))", UNCHANGED],
    modifies=["alloc"], writes_fresh=["List.len", "List.items"], raises=[],
)

contract(
    "aw_transform.sort_by.limit_events",
    params={"events": "List[Event]", "count": "int"}, returns="List[Event]", requires=[],
    ensures=["len(result) <= len(events) and fresh(result)",
             "all(result[i] is events[i] for i in range(len(result)))",
             "count < 0 or len(result) == min(count, len(events))",
             UNCHANGED],
    modifies=["alloc"], writes_fresh=["List.len", "List.items"], raises=[],
)


@spec
def kv_pred(e, key, vals):
    return key in e.data and e.data[key] in vals


contract(
    "aw_transform.filter_keyvals.filter_keyvals",
    params={"events": "List[Event]", "key": "str", "vals": "List[JV]", "exclude": "bool"},
    returns="List[Event]", requires=[],
    ensures=[
        "len(result) <= len(events) and fresh(result)",
        # an order-preserving sub-sequence: exactly the events whose predicate value differs from `exclude`
        "all(0 <= filter_sel(result)[j] and filter_sel(result)[j] < len(events) and result[j] is events[filter_sel(result)[j]]"
        "    and kv_pred(result[j], key, vals) != exclude for j in range(len(result)))",
        "all(filter_sel(result)[j] < filter_sel(result)[j2] for j in range(len(result)) for j2 in range(j + 1, len(result)))",
        "all(kv_pred(events[i], key, vals) == exclude or (0 <= filter_pos(result)[i] and filter_pos(result)[i] < len(result)"
        "    and filter_sel(result)[filter_pos(result)[i]] == i) for i in range(len(events)))",
        UNCHANGED,
    ],
    native_ensures=[
        "[id(e) for e in result] == [id(e) for e in events if kv_pred(e, key, vals) != exclude]",
        # the two polarities split the input into complementary sub-sequences
        "sorted([id(e) for e in result] + [id(e) for e in filter_keyvals_real(events, key, vals, not exclude)]) == sorted(id(e) for e in events)",
        UNCHANGED,
    ],
    modifies=["alloc"], writes_fresh=["List.len", "List.items"], raises=[],
)


def filter_keyvals_real(events, key, vals, exclude):
    from aw_transform import filter_keyvals
    return filter_keyvals(events, key, vals, exclude)


# ---- merge_events_by_keys / chunk_events_by_key: executable statement (bounded) ---------------------------
def group_key(e, keys):
    """One group per distinct combination of presence and value of the given keys."""
    out = []
    for k in keys:
        if k in e.data:
            v = e.data[k]
            out.append((True, tuple(v) if isinstance(v, list) else v))
        else:
            out.append((False, None))
    return tuple(out)


def total(evs):
    return sum((e.duration for e in evs), timedelta(0))


contract(
    "aw_transform.merge_events_by_keys.merge_events_by_keys",
    params={"events": "List[Event]", "keys": "List[str]"}, returns="List[Event]",
    requires=["len(keys) >= 1"], ensures=[],
    native_ensures=[
        "len(result) == len({group_key(e, keys) for e in old(list(events))})",
        "all(sum(1 for r in result if group_key(r, keys) == g) == 1 for g in {group_key(e, keys) for e in old(list(events))})",
        "all(r.duration == total([e for e in old(list(events)) if group_key(e, keys) == group_key(r, keys)]) for r in result)",
        "total(result) == total(old(list(events)))",
        "all(set(r.data.keys()) == {k for k in keys if k in r.data} for r in result)",
        UNCHANGED,
    ],
)

# ---- chunk_events_by_key (deductive) --------------------------------------------------------------------------------------------
# The property's domain: a key-bearing sequence (every event has the key), and the key is not the name under which the function
# itself files the sub-events.  Ghost state: start[c] = position of chunk c's first event, P[i] = total duration of events[:i]
# (so "durations add up" is C[c].duration == P[start[c+1]] - P[start[c]], without a recursive sum).
SUBS = "jv_list({C}[{c}].data['subevents'], 'Event')"


def chunk_facts(C, k):
    """Facts about the chunks C built from events[:k] (start: ghost list of the chunks' first positions, P: prefix sums of durations,
    G[c]: the list object that chunk c holds under 'subevents')."""
    S = lambda c: SUBS.format(C=C, c=c)
    m = f"len({C})"
    return [
        f"len(start) == {m} and len(G) == {m} and {m} <= {k} and ({k} == 0 or {m} > 0)",
        f"all(0 <= start[c] and start[c] < {k} for c in range(len(start))) and (len(start) == 0 or start[0] == 0)",
        "all(start[c] < start[c + 1] for c in range(len(start) - 1))",
        # the chunks, their data tables and their sub-event lists are objects of this call, all distinct
        f"all(fresh({C}[c]) and fresh({C}[c].data) and 'subevents' in {C}[c].data and key in {C}[c].data"
        f"    and isinstance({C}[c].data['subevents'], list) and {S('c')} is G[c] and fresh(G[c]) for c in range({m}))",
        f"all(allocated({C}[c]) and allocated({C}[c].data) and allocated(G[c]) for c in range({m}))",
        f"all(G[c] is not {C} and G[c] is not start and G[c] is not P and G[c] is not G for c in range({m}))",
        f"all({C}[c] is not {C}[d] and {C}[c].data is not {C}[d].data and G[c] is not G[d]"
        f"    for c in range({m}) for d in range(c + 1, {m}))",
        # the sub-events of chunk c are the input events start[c] .. start[c+1]-1 (the last chunk: .. k-1): they concatenate back to the input
        f"all(len(G[c]) == start[c + 1] - start[c] for c in range({m} - 1))",
        f"{m} == 0 or len(G[{m} - 1]) == {k} - start[{m} - 1]",
        # (stated for the chunks before the last one and for the last one separately: the bounds are then ghost integers)
        f"all(G[c][i - start[c]] is events[i] for c in range({m} - 1) for i in range(start[c], start[c + 1]))",
        f"{m} == 0 or all(G[{m} - 1][i - start[{m} - 1]] is events[i] for i in range(start[{m} - 1], {k}))",
        # a chunk starts where its first sub-event starts and carries that event's value of the key; every sub-event shares it
        f"all({C}[c].timestamp == events[start[c]].timestamp and same_value({C}[c].data[key], events[start[c]].data[key]) for c in range({m}))",
        f"all(events[i].data[key] == {C}[c].data[key] for c in range({m} - 1) for i in range(start[c], start[c + 1]))",
        f"{m} == 0 or all(events[i].data[key] == {C}[{m} - 1].data[key] for i in range(start[{m} - 1], {k}))",
        # durations add up (P[i] is the total duration of events[:i])
        f"all({C}[c].duration == P[start[c + 1]] - P[start[c]] for c in range({m} - 1))",
        f"{m} == 0 or {C}[{m} - 1].duration == P[{k}] - P[start[{m} - 1]]",
    ]


PSUM = "len(P) == {k} + 1 and P[0] == timedelta(0) and all(P[i + 1] == P[i] + events[i].duration for i in range({k}))"

contract(
    "aw_transform.chunk_events_by_key.chunk_events_by_key",
    params={"events": "List[Event]", "key": "str", "pulsetime": "float"}, returns="List[Event]",
    requires=["all(key in e.data for e in events)", "key != 'subevents'"],
    locals={"chunked_events": "List[Event]", "data": "Dict[str,JV]"},
    ghost_vars={"start": ("List[int]", "[]"), "P": ("List[timedelta]", "[timedelta(0)]"), "G": ("List[List[Event]]", "[]")},
    ghost_code=[
        dict(after="chunked_event.data['subevents'].append(event)", code="P.append(P[len(P) - 1] + event.duration)"),
        dict(after="chunked_events.append(chunked_event)", code="start.append(len(P) - 1)\nG.append(jv_list(data['subevents'], 'Event'))\nP.append(P[len(P) - 1] + event.duration)"),
    ],
    ensures=[PSUM.format(k="len(events)")] + chunk_facts("result", "len(events)") + [UNCHANGED],
    native_ensures=[
        # sub-events concatenate back to the input
        "[id(s) for c in result for s in c.data['subevents']] == [id(e) for e in events]",
        "all(c.duration == total(c.data['subevents']) for c in result)",
        "all(all(s.data[key] == c.data[key] for s in c.data['subevents']) for c in result)",
        "all(len(c.data['subevents']) >= 1 and c.timestamp == c.data['subevents'][0].timestamp for c in result)",
        "total(result) == total(events)",
        UNCHANGED,
    ],
    modifies=["alloc"], writes_fresh=["*"], raises=[],
    loops={0: dict(index="k", cut=True, hints=[
        # the chunks before the last one are as the iteration found them
        "all(chunked_events[c] is prev(chunked_events[c]) and chunked_events[c].data is prev(chunked_events[c].data)"
        "    and G[c] is prev(G[c]) and len(G[c]) == prev(len(G[c])) for c in range(len(chunked_events) - 1))",
        "all(G[c][t] is prev(G[c][t]) for c in range(len(chunked_events) - 1) for t in range(len(G[c])))",
    ], invariant=[PSUM.format(k="k")] + chunk_facts("chunked_events", "k") + [UNCHANGED])},
)
