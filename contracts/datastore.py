"""C03 / C05 (and the API level of C02, C04) - contracts for aw_datastore/datastore.py in the sqlite configuration.

Datastore and Bucket are thin layers over the storage object; they are verified against the *contracts* of the
SqliteStorage methods (contracts/sqlite.py), which are discharged from the source in the same check.  The storage field is
typed SqliteStorage: the other back ends are not under contract, and for them this layer is only covered by the bounded
run-time harness."""
import json
from datetime import timedelta
from pyvc.specrt import *  # noqa: F401,F403
from pyvc.api import contract, spec, classdef
from contracts.sqlite import *  # noqa: F401,F403  (vocabulary over the table state)
from contracts.sqlite import CUR_FRESH, EV_FRESH, BUCKETS_SAME, EVENTS_SAME, MAXES_SAME

D = "aw_datastore.datastore."
classdef(D + "Datastore", fields={"bucket_instances": "Dict[str,Bucket]", "storage_strategy": "SqliteStorage"})
classdef(D + "Bucket", fields={"ds": "Datastore", "bucket_id": "str"})


@spec
def cache_inv(self):
    """Every cached handle is the handle of an existing bucket, filed under its own id, and belongs to this datastore."""
    return (lazy_inv(self.storage_strategy)
            and all(bucket_exists(self.storage_strategy, k) and self.bucket_instances[k].bucket_id == k
                    and self.bucket_instances[k].ds is self and allocated(self.bucket_instances[k])
                    for k in self.bucket_instances))


def tables_same(s):
    return [x.replace("self", s) for x in (BUCKETS_SAME, EVENTS_SAME, MAXES_SAME)]


contract(
    D + "Datastore.buckets",
    params={"self": "Datastore"}, returns="Dict[str,Dict[str,JV]]", requires=["cache_inv(self)"],
    ensures=["all(not bk_live(self.storage_strategy, r) or bk_id(self.storage_strategy, r) in result for r in bucket_rowids(self.storage_strategy))",
             "all(bucket_exists(self.storage_strategy, b) for b in result)", "cache_inv(self)"] + tables_same("self.storage_strategy"),
    modifies=["alloc"], writes_fresh=CUR_FRESH + ["Dict.map:JV", "Dict.map:Dict[str,JV]"], raises=[],
)

contract(
    D + "Datastore.__getitem__",
    params={"self": "Datastore", "bucket_id": "str"}, returns="Bucket", requires=["cache_inv(self)"],
    ensures=["bucket_exists(self.storage_strategy, bucket_id)", "result.bucket_id == bucket_id and result.ds is self",
             "bucket_id in self.bucket_instances and self.bucket_instances[bucket_id] is result", "cache_inv(self)"]
            + tables_same("self.storage_strategy"),
    exc_ensures={"KeyError": ["not bucket_exists(self.storage_strategy, bucket_id)", "cache_inv(self)"] + tables_same("self.storage_strategy")},
    modifies=["self.bucket_instances[]", "alloc"], writes_fresh=CUR_FRESH + ["Dict.map:JV", "Dict.map:Dict[str,JV]", D + "Bucket.ds", D + "Bucket.bucket_id"],
    raises=["KeyError"],
)

ST = "self.storage_strategy"
contract(
    D + "Datastore.create_bucket",
    params={"self": "Datastore", "bucket_id": "str", "type": "str", "client": "str", "hostname": "str", "created": "Optional[datetime]",
            "name": "Optional[str]", "data": "Optional[Dict[str,JV]]"},
    returns="Bucket", requires=["cache_inv(self)"],
    ensures=[
        "not old(bucket_exists(self.storage_strategy, bucket_id)) and bucket_exists(self.storage_strategy, bucket_id)",
        "result.bucket_id == bucket_id and result.ds is self",
        # a new bucket row with exactly the metadata given (creation instant: the one given, else the clock's)
        "created is None or bucket_row_is(self.storage_strategy, old(bk_max(self.storage_strategy)) + 1, bucket_id, type, client, hostname,"
        "                                 created.isoformat(), name, json.dumps(data or {}))",
        "all(r == old(bk_max(self.storage_strategy)) + 1 or bk_row(self.storage_strategy, r) == old(bk_row(self.storage_strategy, r))"
        "    for r in bucket_rowids(self.storage_strategy))",
        # which starts empty; all events of all other buckets untouched; durable on return
        EVENTS_SAME.replace("self", ST), "all(not in_bucket(self.storage_strategy, i, bucket_id) for i in event_ids(self.storage_strategy))",
        "pending(self.storage_strategy) == 0", "cache_inv(self)",
    ],
    exc_ensures={"IntegrityError": ["old(bucket_exists(self.storage_strategy, bucket_id))"] + tables_same(ST) + ["cache_inv(self)"]},
    modifies=["self.bucket_instances[]", "self.storage_strategy.last_commit", "self.storage_strategy.num_uncommitted_statements",
              "self.storage_strategy.conn.*", "alloc"],
    writes_fresh=CUR_FRESH + ["Dict.map:JV", "Dict.map:Dict[str,JV]", D + "Bucket.ds", D + "Bucket.bucket_id"],
    raises=["IntegrityError"],
)

contract(
    D + "Datastore.delete_bucket",
    params={"self": "Datastore", "bucket_id": "str"}, requires=["cache_inv(self)"],
    ensures=[
        "old(bucket_exists(self.storage_strategy, bucket_id)) and not bucket_exists(self.storage_strategy, bucket_id)",
        "bucket_id not in self.bucket_instances",
        "all((old(bk_live(self.storage_strategy, r) and bk_id(self.storage_strategy, r) == bucket_id) and not bk_live(self.storage_strategy, r))"
        "    or (not old(bk_live(self.storage_strategy, r) and bk_id(self.storage_strategy, r) == bucket_id)"
        "        and bk_row(self.storage_strategy, r) == old(bk_row(self.storage_strategy, r))) for r in bucket_rowids(self.storage_strategy))",
        "all((old(in_bucket(self.storage_strategy, i, bucket_id)) and not ev_live(self.storage_strategy, i))"
        "    or (not old(in_bucket(self.storage_strategy, i, bucket_id)) and ev_row(self.storage_strategy, i) == old(ev_row(self.storage_strategy, i)))"
        "    for i in event_ids(self.storage_strategy))",
        "pending(self.storage_strategy) == 0", "cache_inv(self)",
    ],
    exc_ensures={"ValueError": ["not old(bucket_exists(self.storage_strategy, bucket_id))"] + tables_same(ST) + ["cache_inv(self)"]},
    modifies=["self.bucket_instances[]", "self.storage_strategy.last_commit", "self.storage_strategy.num_uncommitted_statements",
              "self.storage_strategy.conn.*", "alloc"],
    writes_fresh=CUR_FRESH, raises=["ValueError"],
)


# -- Bucket: the per-bucket handle ----------------------------------------------------------------------------------------------
@spec
def handle_ok(self):
    return cache_inv(self.ds)


BST = "self.ds.storage_strategy"
BMOD = ["self.ds.storage_strategy.last_commit", "self.ds.storage_strategy.num_uncommitted_statements", "self.ds.storage_strategy.conn.*", "alloc"]


@spec
def ms_floor(t):
    """The instant rounded down to the millisecond (what Bucket.get does to the window start)."""
    return floor_to_ms(t)


contract(
    D + "Bucket.get",
    params={"self": "Bucket", "limit": "int", "starttime": "Optional[datetime]", "endtime": "Optional[datetime]"},
    returns="List[Event]", requires=["handle_ok(self)"],
    ghost_vars={"s2": ("Optional[datetime]", "None"), "e2": ("Optional[datetime]", "None")},
    ghost_returns={"s2": "Optional[datetime]", "e2": "Optional[datetime]"},        # (the window actually handed to the storage)
    ghost_code=[dict(after="if endtime:", code="s2 = starttime\ne2 = endtime")],
    ensures=[
        # the window handed to the storage is the caller's window widened to whole milliseconds: the start rounded down,
        # the end rounded down and moved one millisecond up - so no event intersecting the caller's window is missed
        "(starttime is None) == (s2 is None) and (endtime is None) == (e2 is None)",
        "starttime is None or (s2 == floor_to_ms(starttime) and s2 <= starttime)",
        "endtime is None or (e2 == floor_to_ms(endtime) + timedelta(milliseconds=1) and endtime < e2)",
        # and the result is exactly what the storage's windowed read returns for that window
        "limit != 0 or len(result) == 0", "limit <= 0 or len(result) <= limit",
        "all(result[j].id is not None and may_window(self.ds.storage_strategy, result[j].id, self.bucket_id, s2, e2)"
        "    and decodes(result[j], (result[j].id, ev_start(self.ds.storage_strategy, result[j].id), ev_end(self.ds.storage_strategy, result[j].id),"
        "                            ev_data(self.ds.storage_strategy, result[j].id))) for j in range(len(result)))",
        "all(before(self.ds.storage_strategy, result[j].id, result[j2].id) for j in range(len(result)) for j2 in range(j + 1, len(result)))",
        "limit == 0 or all(not must_window(self.ds.storage_strategy, i, self.bucket_id, s2, e2)"
        "    or any(result[j].id == i for j in range(len(result)))"
        "    or (limit > 0 and len(result) == limit and all(before(self.ds.storage_strategy, result[j].id, i) for j in range(len(result))))"
        "    for i in event_ids(self.ds.storage_strategy))",
        "fresh(result) and all(fresh(result[j]) and fresh(result[j].data) for j in range(len(result)))",
        "handle_ok(self)",
    ] + tables_same(BST),
    modifies=BMOD, writes_fresh=CUR_FRESH + EV_FRESH, raises=[],
)


import re as _re
from pyvc.api import CONTRACTS as _C


def lifted(method, drop=()):
    """The postconditions of the storage method, read for the handle: self -> self.ds.storage_strategy, bucket_id -> self.bucket_id."""
    out = []
    for k, e in enumerate(_C[S_ + "." + method]["ensures"]):
        if k in drop:
            continue
        e = _re.sub(r"\bself\b", "self.ds.storage_strategy", e)
        e = _re.sub(r"\bbucket_id\b", "self.bucket_id", e)
        out.append(e)
    return out


def lifted_exc(method):
    return {x: [_re.sub(r"\bbucket_id\b", "self.bucket_id", _re.sub(r"\bself\b", "self.ds.storage_strategy", e)) for e in es]
            for x, es in _C[S_ + "." + method]["exc_ensures"].items()}


contract(D + "Bucket.delete", params={"self": "Bucket", "event_id": "int"}, returns="bool", requires=["handle_ok(self)"],
         ensures=lifted("delete") + ["handle_ok(self)"], modifies=BMOD, writes_fresh=CUR_FRESH, raises=[])
contract(D + "Bucket.replace", params={"self": "Bucket", "event_id": "int", "event": "Event"}, returns="bool", requires=["handle_ok(self)"],
         ensures=lifted("replace") + ["handle_ok(self)"], modifies=BMOD, writes_fresh=CUR_FRESH, raises=[])
contract(D + "Bucket.replace_last", params={"self": "Bucket", "event": "Event"}, returns="bool", requires=["handle_ok(self)"],
         ensures=lifted("replace_last") + ["handle_ok(self)"], modifies=BMOD, writes_fresh=CUR_FRESH, raises=[])
contract(D + "Bucket.get_by_id", params={"self": "Bucket", "event_id": "int"}, returns="Optional[Event]", requires=["handle_ok(self)"],
         ensures=lifted("get_event") + ["handle_ok(self)"], modifies=BMOD, writes_fresh=CUR_FRESH + EV_FRESH, raises=[])
contract(D + "Bucket.get_eventcount", params={"self": "Bucket", "starttime": "Optional[datetime]", "endtime": "Optional[datetime]"},
         returns="int", requires=["handle_ok(self)"],
         ensures=lifted("get_eventcount") + ["handle_ok(self)"], modifies=BMOD, writes_fresh=CUR_FRESH, raises=[])
contract(D + "Bucket.metadata", params={"self": "Bucket"}, returns="Dict[str,JV]", requires=["handle_ok(self)"],
         ensures=[e for e in lifted("get_metadata") if "old(bucket_exists" not in e] + ["handle_ok(self)"],
         modifies=["alloc"], writes_fresh=_C[S_ + ".get_metadata"]["writes_fresh"], raises=["ValueError"],
         exc_ensures=lifted_exc("get_metadata"))
contract(D + "Bucket.insert:one", params={"self": "Bucket", "events": "Event"}, returns="Optional[Event]", requires=["handle_ok(self)"],
         ensures=[_re.sub(r"\bevent\b", "events", e) for e in lifted("insert_one")] + ["handle_ok(self)"],
         exc_ensures={x: [_re.sub(r"\bevent\b", "events", e) for e in es] for x, es in lifted_exc("insert_one").items()},
         modifies=BMOD + ["events.id"], writes_fresh=CUR_FRESH, raises=["IntegrityError"])
_IM = _C[S_ + ".insert_many"]
contract(D + "Bucket.insert:many", params={"self": "Bucket", "events": "List[Event]"}, returns="Optional[Event]", requires=["handle_ok(self)"],
         ensures=["result is None", BUCKETS_SAME.replace("self", BST), "handle_ok(self)",
                  # rows of other buckets are untouched, ids only grow (the precise statement is insert_many's own contract)
                  "ev_max(self.ds.storage_strategy) >= old(ev_max(self.ds.storage_strategy))",
                  "all(in_bucket(self.ds.storage_strategy, i, self.bucket_id) or old(in_bucket(self.ds.storage_strategy, i, self.bucket_id))"
                  "    or ev_row(self.ds.storage_strategy, i) == old(ev_row(self.ds.storage_strategy, i)) for i in event_ids(self.ds.storage_strategy))"],
         exc_ensures=lifted_exc("insert_many"),
         loops={0: dict(index="k", invariant=[])},      # the loop only logs a warning (A-LOG): it writes nothing
         modifies=BMOD, writes_fresh=CUR_FRESH + ["List.len", "List.items"], raises=["IntegrityError"])
