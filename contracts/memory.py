"""C01-C05 - contracts for aw_datastore/storages/memory.py (the in-memory back end): per-bucket Python lists."""
import copy
from pyvc.specrt import *  # noqa: F401,F403
from pyvc.api import contract, spec, classdef

M_ = "aw_datastore.storages.memory.MemoryStorage"
classdef(M_, fields={"db": "Dict[str,List[Event]]", "_metadata": "Dict[str,Dict[str,JV]]"})

contract(
    M_ + ".get_eventcount",
    params={"self": "MemoryStorage", "bucket": "str", "starttime": "Optional[datetime]", "endtime": "Optional[datetime]"},
    returns="int", requires=["bucket in self.db"],
    ensures=["result >= 0 and result <= len(self.db[bucket])"],
    modifies=["alloc"], writes_fresh=["List.len", "List.items"], raises=[],
)
contract(
    M_ + ".insert_one",
    params={"self": "MemoryStorage", "bucket": "str", "event": "Event"},
    returns="Event", requires=["bucket in self.db", "event.id is None"],
    ensures=["fresh(result)"],
    modifies=["self.db[]", "alloc"], writes_fresh=["*"], raises=[],
)
contract(
    M_ + ".delete",
    params={"self": "MemoryStorage", "bucket_id": "str", "event_id": "int"},
    returns="bool", requires=["bucket_id in self.db"],
    ensures=[],
    modifies=["self.db[]", "alloc"], writes_fresh=["*"], raises=[],
)
contract(
    M_ + ".get_events",
    params={"self": "MemoryStorage", "bucket": "str", "limit": "int", "starttime": "Optional[datetime]", "endtime": "Optional[datetime]"},
    returns="List[Event]", requires=["bucket in self.db"],
    ensures=["fresh(result)"],
    modifies=["alloc"], writes_fresh=["*"], raises=[],
)
