"""C01-C05 - contracts for aw_datastore/storages/memory.py (the in-memory back end): one Python list per bucket.

The view is the dict `self.db` itself (bucket id -> list of stored Event objects) and `self._metadata`.  Ownership (C01) is
stated per operation: what goes into a list is an object the method allocated itself (fresh, with a fresh data dict), what is
handed out is fresh as well, so no caller ever holds a reference into the store (relative to A-COPY: copy.deepcopy returns a
structure-preserving deep-fresh copy)."""
import copy
import json
from datetime import timedelta
from pyvc.specrt import *  # noqa: F401,F403
from pyvc.api import contract, spec, classdef

M_ = "aw_datastore.storages.memory.MemoryStorage"
classdef(M_, fields={"db": "Dict[str,List[Event]]", "_metadata": "Dict[str,Dict[str,JV]]"})


@spec
def mem_inv(self):
    """Closed heap, spelled out for the containers: the lists in self.db and the events in them are allocated objects,
    and so are the events' data dicts (a property of the language; object *fields* get it from the encoder)."""
    return (self.db is not self._metadata        # (two dict objects; the encoder keeps all references in one sort)
            and all(allocated(self.db[b]) and all(allocated(self.db[b][j]) and allocated(self.db[b][j].data) for j in range(len(self.db[b])))
                    for b in self.db)
            and all(allocated(self._metadata[b]) for b in self._metadata))


@spec
def same_event(a, b):
    """a is a copy of b by value"""
    return a.id == b.id and a.timestamp == b.timestamp and a.duration == b.duration and a.data == b.data


@spec
def others_untouched(self, bucket):
    """every other bucket's list is the same list with the same events"""
    return all(b == bucket or (b in old(self.db) and self.db[b] is old(self.db[b]) and len(self.db[b]) == old(len(self.db[b]))
                               and all(self.db[b][j] is old(self.db[b][j]) for j in range(len(self.db[b])))) for b in self.db)


STORED_VALUES_SAME = ("all(self.db[{B}][j].timestamp == old(self.db[{B}][j].timestamp) and self.db[{B}][j].duration == old(self.db[{B}][j].duration)"
                      "    and self.db[{B}][j].data == old(self.db[{B}][j].data) and self.db[{B}][j].id == old(self.db[{B}][j].id)"
                      "    for j in range(len(self.db[{B}])))")

# -- delete ----------------------------------------------------------------------------------------------------------------------
contract(
    M_ + ".delete",
    params={"self": "MemoryStorage", "bucket_id": "str", "event_id": "int"},
    returns="bool", requires=["bucket_id in self.db"],
    ghost_vars={"at": ("int", "-1")},
    ghost_code=[dict(after="self.db[bucket_id].pop(idx)", code="at = idx")],
    ensures=[
        "result == any(old(self.db[bucket_id][j].id) == event_id for j in range(old(len(self.db[bucket_id]))))",
        "self.db[bucket_id] is old(self.db[bucket_id])",
        # nothing found: the list is as it was
        "result or (len(self.db[bucket_id]) == old(len(self.db[bucket_id]))"
        "           and all(self.db[bucket_id][j] is old(self.db[bucket_id][j]) for j in range(len(self.db[bucket_id]))))",
        # found: exactly the last event carrying that id is removed, the others keep their order
        "not result or (0 <= at and at < old(len(self.db[bucket_id])) and old(self.db[bucket_id][at].id) == event_id"
        "               and len(self.db[bucket_id]) == old(len(self.db[bucket_id])) - 1"
        "               and all(old(self.db[bucket_id][j].id) != event_id for j in range(at + 1, old(len(self.db[bucket_id]))))"
        "               and all(self.db[bucket_id][j] is old(self.db[bucket_id][j]) for j in range(at))"
        "               and all(self.db[bucket_id][j] is old(self.db[bucket_id][j + 1]) for j in range(at, len(self.db[bucket_id]))))",
    ],
    modifies=["self.db[bucket_id][]", "alloc"], writes_fresh=["List.len", "List.items"], raises=[],
    loops={0: dict(index="k", invariant=[
        "len(self.db[bucket_id]) == old(len(self.db[bucket_id])) and self.db[bucket_id] is old(self.db[bucket_id])",
        "all(self.db[bucket_id][j] is old(self.db[bucket_id][j]) for j in range(len(self.db[bucket_id])))",
        "all(old(self.db[bucket_id][j].id) != event_id for j in range(old(len(self.db[bucket_id])) - k, old(len(self.db[bucket_id]))))",
    ])},
)

# -- lookup by id ------------------------------------------------------------------------------------------------------------------
contract(
    M_ + "._get_event",
    params={"self": "MemoryStorage", "bucket_id": "str", "event_id": "int"},
    returns="Optional[Event]", requires=["bucket_id in self.db", "mem_inv(self)"],
    locals={"events": "List[Event]"},
    ghost_returns={"at": "int"},
    ghost_vars={"at": ("int", "-1")},
    # (witness: the list position of the first hit of the reversed scan)
    ghost_code=[dict(after="events = [", code="at = len(self.db[bucket_id]) - 1 - filter_sel(events)[0]")],
    ensures=[
        "(result is None) == all(self.db[bucket_id][j].id != event_id for j in range(len(self.db[bucket_id])))",
        # the stored event itself (internal helper): the last one carrying that id
        "result is None or (0 <= at and at < len(self.db[bucket_id]) and result is self.db[bucket_id][at] and result.id == event_id"
        "                   and all(self.db[bucket_id][j2].id != event_id for j2 in range(at + 1, len(self.db[bucket_id]))))",
    ],
    modifies=["alloc"], writes_fresh=["List.len", "List.items"], raises=[],
)
contract(
    M_ + ".get_event",
    params={"self": "MemoryStorage", "bucket_id": "str", "event_id": "int"},
    returns="Optional[Event]", requires=["bucket_id in self.db", "mem_inv(self)"],
    ensures=[
        "(result is None) == all(self.db[bucket_id][j].id != event_id for j in range(len(self.db[bucket_id])))",
        # a fresh copy (fresh data dict) of the last stored event carrying that id: nothing of the store is handed out
        "result is None or (fresh(result) and fresh(result.data) and 0 <= g_at and g_at < len(self.db[bucket_id])"
        "                   and same_event(result, self.db[bucket_id][g_at]) and result.id == event_id"
        "                   and all(self.db[bucket_id][j2].id != event_id for j2 in range(g_at + 1, len(self.db[bucket_id]))))",
    ],
    modifies=["alloc"], writes_fresh=["*"], raises=[],
)

# -- replace: every stored event carrying the id is replaced by a fresh deep copy of the caller's event ---------------------------------
# (E0 = the caller's event; the function rebinds its own `event` to the copy it stores)
REPLACED = ("all((old(self.db[bucket_id][j].id) == event_id and fresh(self.db[bucket_id][j]) and fresh(self.db[bucket_id][j].data)"
            "     and self.db[bucket_id][j] is not E0 and self.db[bucket_id][j].data is not E0.data"
            "     and self.db[bucket_id][j].id == event_id and self.db[bucket_id][j].timestamp == E0.timestamp"
            "     and self.db[bucket_id][j].duration == E0.duration and self.db[bucket_id][j].data == E0.data)"
            "    or (old(self.db[bucket_id][j].id) != event_id and self.db[bucket_id][j] is old(self.db[bucket_id][j]))"
            "    for j in range({LO}, len(self.db[bucket_id])))")
E0_SAME = ("E0 is old(event) and E0.timestamp == old(event.timestamp) and E0.duration == old(event.duration) and E0.data == old(event.data)"
           " and E0.id == old(event.id) and E0.data is old(event.data)")

contract(
    M_ + ".replace",
    params={"self": "MemoryStorage", "bucket_id": "str", "event_id": "int", "event": "Event"},
    requires=["bucket_id in self.db", "mem_inv(self)", "allocated(event) and allocated(event.data)"],
    ghost_vars={"E0": ("Event", "event")}, ghost_returns={"E0": "Event"},
    ensures=[
        "self.db[bucket_id] is old(self.db[bucket_id]) and len(self.db[bucket_id]) == old(len(self.db[bucket_id]))",
        REPLACED.format(LO="0"), E0_SAME, "mem_inv(self)",
    ],
    modifies=["self.db[bucket_id][]", "alloc"], writes_fresh=["*"], raises=[],
    loops={0: dict(index="k", invariant=[
        "self.db[bucket_id] is old(self.db[bucket_id]) and len(self.db[bucket_id]) == old(len(self.db[bucket_id]))",
        E0_SAME, "mem_inv(self)", "allocated(event) and allocated(event.data)",
        # the function's own `event` is the caller's event or a copy of it
        "event is E0 or (fresh(event) and fresh(event.data) and event.timestamp == E0.timestamp and event.duration == E0.duration"
        "                and event.data == E0.data)",
        # positions not visited yet are untouched, positions visited are settled
        "all(self.db[bucket_id][j] is old(self.db[bucket_id][j]) for j in range(old(len(self.db[bucket_id])) - k))",
        REPLACED.format(LO="old(len(self.db[bucket_id])) - k"),
    ])},
)

# -- insert_one -----------------------------------------------------------------------------------------------------------------------
contract(
    M_ + ".insert_one:new",
    params={"self": "MemoryStorage", "bucket": "str", "event": "Event"},
    returns="Event",
    requires=["bucket in self.db", "mem_inv(self)", "allocated(event) and allocated(event.data)", "event.id is None",
              "all(self.db[bucket][j].id is not None and self.db[bucket][j].id >= 0 for j in range(len(self.db[bucket])))"],
    ghost_vars={"E0": ("Event", "event")}, ghost_returns={"E0": "Event"},
    ensures=[
        "self.db[bucket] is old(self.db[bucket]) and len(self.db[bucket]) == old(len(self.db[bucket])) + 1",
        "all(self.db[bucket][j] is old(self.db[bucket][j]) for j in range(old(len(self.db[bucket]))))",
        # the stored event: an object of the store's own (fresh, fresh data dict), equal in value to the caller's, under a new id
        "fresh(self.db[bucket][len(self.db[bucket]) - 1]) and fresh(self.db[bucket][len(self.db[bucket]) - 1].data)",
        "self.db[bucket][len(self.db[bucket]) - 1].timestamp == E0.timestamp and self.db[bucket][len(self.db[bucket]) - 1].duration == E0.duration"
        " and self.db[bucket][len(self.db[bucket]) - 1].data == E0.data",
        "self.db[bucket][len(self.db[bucket]) - 1].id is not None and self.db[bucket][len(self.db[bucket]) - 1].id >= 0"
        " and all(old(self.db[bucket][j].id) != self.db[bucket][len(self.db[bucket]) - 1].id for j in range(old(len(self.db[bucket]))))",
        # what is handed back is a third object: neither the caller's event nor the stored one, equal in value to the stored one
        "fresh(result) and fresh(result.data) and result is not self.db[bucket][len(self.db[bucket]) - 1]"
        " and result.data is not self.db[bucket][len(self.db[bucket]) - 1].data and same_event(result, self.db[bucket][len(self.db[bucket]) - 1])",
        # the caller's event is not touched (not even its id)
        "E0 is old(event) and E0.id is None and E0.timestamp == old(event.timestamp) and E0.duration == old(event.duration) and E0.data == old(event.data)",
        "mem_inv(self)",
    ],
    modifies=["self.db[bucket][]", "alloc"], writes_fresh=["*"], raises=[],
)

# insert_one of an event that carries an id is an upsert: every stored event with that id becomes a fresh copy of the caller's event
# (the contract of replace, which it calls), and the caller gets its own event back
contract(
    M_ + ".insert_one:existing",
    params={"self": "MemoryStorage", "bucket": "str", "event": "Event"},
    returns="Event",
    requires=["bucket in self.db", "mem_inv(self)", "allocated(event) and allocated(event.data)", "event.id is not None"],
    ghost_vars={"E0": ("Event", "event")}, ghost_returns={"E0": "Event"},
    ensures=[
        "result is E0",
        "self.db[bucket] is old(self.db[bucket]) and len(self.db[bucket]) == old(len(self.db[bucket]))",
        REPLACED.replace("bucket_id", "bucket").replace("event_id", "E0.id").format(LO="0"), E0_SAME, "mem_inv(self)",
    ],
    modifies=["self.db[bucket][]", "alloc"], writes_fresh=["*"], raises=[],
)

# -- reads ---------------------------------------------------------------------------------------------------------------------------
@spec
def in_win(e, starttime, endtime):
    return (starttime is None or starttime <= e.timestamp + e.duration) and (endtime is None or e.timestamp <= endtime)


# C03 honours the window edges "to the store's millisecond resolution": an event within a millisecond of an edge may go either
# way.  A windowed read is therefore specified by two predicates - what MUST be returned (reaches into the window by at least a
# millisecond) and what MAY be returned (comes within a millisecond of it) - and not by the closed-interval test the code happens
# to use, so that a change which opens or closes an edge is not reported as a violation of a property that allows it.
EDGE = timedelta(milliseconds=1)


@spec
def must_win(e, starttime, endtime):
    return (starttime is None or starttime + EDGE <= e.timestamp + e.duration) and (endtime is None or e.timestamp + EDGE <= endtime)


@spec
def may_win(e, starttime, endtime):
    return (starttime is None or starttime - EDGE <= e.timestamp + e.duration) and (endtime is None or e.timestamp - EDGE <= endtime)


contract(
    M_ + ".get_eventcount",
    params={"self": "MemoryStorage", "bucket": "str", "starttime": "Optional[datetime]", "endtime": "Optional[datetime]"},
    returns="int", requires=["bucket in self.db", "mem_inv(self)"],
    ensures=[
        # the number of stored events that intersect the window (edges to the millisecond, see must_win / may_win): as many as the (ghost) filter selected
        "result == len(last_filter())",
        "all(0 <= filter_sel(last_filter())[j] and filter_sel(last_filter())[j] < len(self.db[bucket])"
        "    and may_win(self.db[bucket][filter_sel(last_filter())[j]], starttime, endtime) for j in range(result))",
        "all(filter_sel(last_filter())[j] < filter_sel(last_filter())[j2] for j in range(result) for j2 in range(j + 1, result))",
        "all(not must_win(self.db[bucket][i], starttime, endtime) or (0 <= filter_pos(last_filter())[i] and filter_pos(last_filter())[i] < result"
        "    and filter_sel(last_filter())[filter_pos(last_filter())[i]] == i) for i in range(len(self.db[bucket])))",
    ],
    modifies=["alloc"], writes_fresh=["List.len", "List.items"], raises=[],
)

def _complete(guard, W):
    """Nothing that intersects the window is missing: stored event i (if in the window) is returned at position W(i) - the position
    the sort, the reversal and the filters that ran give it - unless a positive limit was reached and W(i) lies beyond it (the result
    being the first `limit` entries of a list ordered newest first, every omitted event is then no newer than any returned one)."""
    return (f"limit == 0 or {guard} or all(not must_win(self.db[bucket][i], starttime, endtime) or "
            f"((0 <= {W} and {W} < len(result) and same_event(result[{W}], self.db[bucket][i]))"
            f" or (limit > 0 and len(result) == limit and {W} >= limit))"
            f" for i in range(len(self.db[bucket])))")


def _sound(guard, V):
    """Each returned event is the copy of a stored event that intersects the window: result[j] is the copy of stored event V(j) - the
    inverse of W, through the selection maps of the filters that ran and the permutation of the sort."""
    return (f"{guard} or all(0 <= {V} and {V} < len(self.db[bucket]) and same_event(result[j], self.db[bucket][{V}])"
            f" and may_win(self.db[bucket][{V}], starttime, endtime) for j in range(len(result)))")


GET_EVENTS_SOUND = [
    _sound("starttime is not None or endtime is not None", "SP[n0 - 1 - j]"),
    _sound("starttime is None or endtime is not None", "SP[n0 - 1 - FS1[j]]"),
    _sound("starttime is not None or endtime is None", "SP[n0 - 1 - FS2[j]]"),
    _sound("starttime is None or endtime is None", "SP[n0 - 1 - FS1[FS2[j]]]"),
]
_R = "n0 - 1 - Q[i]"
GET_EVENTS_COMPLETE = [
    _complete("starttime is not None or endtime is not None", _R),               # no bound given: no filter ran
    _complete("starttime is None or endtime is not None", f"FP1[{_R}]"),          # start bound only
    _complete("starttime is not None or endtime is None", f"FP2[{_R}]"),          # end bound only
    _complete("starttime is None or endtime is None", f"FP2[FP1[{_R}]]"),         # both
]

contract(
    M_ + ".get_events",
    params={"self": "MemoryStorage", "bucket": "str", "limit": "int", "starttime": "Optional[datetime]", "endtime": "Optional[datetime]"},
    returns="List[Event]", requires=["bucket in self.db", "mem_inv(self)"],
    # ghost witnesses for completeness: Q[i] = position of stored event i after the sort, FP1 / FP2 = position maps of the two filters
    # (and their inverses SP, FS1, FS2 for soundness)
    ghost_vars={"Q": ("IntMap", "mnew()"), "FP1": ("IntMap", "mnew()"), "FP2": ("IntMap", "mnew()"), "n0": ("int", "0"),
                "SP": ("IntMap", "mnew()"), "FS1": ("IntMap", "mnew()"), "FS2": ("IntMap", "mnew()")},
    ghost_code=[
        dict(after="events = sorted(events", code="Q = sort_inv(self.db[bucket])\nSP = sort_perm(self.db[bucket])\nn0 = len(self.db[bucket])"),
        dict(after="events = [e for e in events if starttime", code="FP1 = filter_pos(events)\nFS1 = filter_sel(events)"),
        dict(after="events = [e for e in events if e.timestamp", code="FP2 = filter_pos(events)\nFS2 = filter_sel(events)"),
    ],
    ensures=[
        "limit != 0 or len(result) == 0",
        "limit <= 0 or len(result) <= limit",
        # what is handed out is the caller's: fresh objects with fresh data dicts
        "fresh(result) and all(fresh(result[j]) and fresh(result[j].data) for j in range(len(result)))",
        # newest first
        "all(result[j].timestamp >= result[j + 1].timestamp for j in range(len(result) - 1))",
        # the store itself is not touched by a read
        "len(self.db[bucket]) == old(len(self.db[bucket])) and all(self.db[bucket][i] is old(self.db[bucket][i]) for i in range(len(self.db[bucket])))",
    ] + GET_EVENTS_SOUND + GET_EVENTS_COMPLETE,
    modifies=["alloc"], writes_fresh=["*"], raises=[],
)

contract(
    M_ + ".replace_last",
    params={"self": "MemoryStorage", "bucket_id": "str", "event": "Event"},
    requires=["bucket_id in self.db", "mem_inv(self)", "allocated(event) and allocated(event.data)", "len(self.db[bucket_id]) > 0",
              "all(self.db[bucket_id][j].id is not None for j in range(len(self.db[bucket_id])))"],
    ghost_vars={"E0": ("Event", "event"), "lastid": ("int", "-1"), "li": ("int", "-1")}, ghost_returns={"E0": "Event", "lastid": "int", "li": "int"},
    # (witness li: the list position of the entry the sort puts last)
    ghost_code=[dict(after="last = sorted(", code="lastid = last.id\nli = sort_perm(self.db[bucket_id])[len(self.db[bucket_id]) - 1]")],
    ensures=[
        "self.db[bucket_id] is old(self.db[bucket_id]) and len(self.db[bucket_id]) == old(len(self.db[bucket_id]))",
        # the id rewritten is that of an event with the greatest timestamp
        "0 <= li and li < len(self.db[bucket_id]) and old(self.db[bucket_id][li].id) == lastid"
        " and all(old(self.db[bucket_id][j].timestamp) <= old(self.db[bucket_id][li].timestamp) for j in range(len(self.db[bucket_id])))",
        # every stored event carrying that id becomes a fresh copy of the caller's event (keeping the id), nothing else changes
        REPLACED.replace("event_id", "lastid").format(LO="0"), E0_SAME, "mem_inv(self)",
    ],
    modifies=["self.db[bucket_id][]", "alloc"], writes_fresh=["*"], raises=[],
)

# -- buckets ---------------------------------------------------------------------------------------------------------------------------
@spec
def keys_agree(self):
    """every bucket that has an event list has a metadata entry (what `buckets()` relies on when it describes each of them)"""
    return all(b in self._metadata for b in self.db)


contract(
    M_ + ".buckets",
    params={"self": "MemoryStorage"}, returns="Dict[str,Dict[str,JV]]",
    locals={"buckets": "Dict[str,Dict[str,JV]]"},
    requires=["mem_inv(self)", "keys_agree(self)"],
    ensures=[
        # the listing: exactly the buckets that exist, each described by a copy of its metadata (the caller cannot reach the stored entry)
        "fresh(result) and all(b in result for b in self.db) and all(b in self.db for b in result)",
        "all(fresh(result[b]) and result[b] is not self._metadata[b] and result[b] == self._metadata[b] for b in self.db)",
        "all(self._metadata[b] is old(self._metadata[b]) and self._metadata[b] == old(self._metadata[b]) for b in old(self._metadata))",
    ],
    modifies=["alloc"], writes_fresh=["*"], raises=[],
    loops={0: dict(index="kidx", invariant=[
        "fresh(buckets)",
        "all(key_index(self.db, b) >= kidx or b in buckets for b in self.db) and all(b in self.db and key_index(self.db, b) < kidx for b in buckets)",
        "all(key_index(self.db, b) >= kidx or (fresh(buckets[b]) and allocated(buckets[b]) and buckets[b] is not self._metadata[b]"
        "    and buckets[b] == self._metadata[b]) for b in self.db)",
        "all(self._metadata[b] is old(self._metadata[b]) and self._metadata[b] == old(self._metadata[b]) for b in old(self._metadata))",
    ])},
)

contract(
    M_ + ".create_bucket",
    params={"self": "MemoryStorage", "bucket_id": "str", "type_id": "str", "client": "str", "hostname": "str", "created": "str",
            "name": "Optional[str]", "data": "Optional[Dict[str,JV]]"},
    requires=["mem_inv(self)"],
    ensures=[
        "bucket_id in self.db and len(self.db[bucket_id]) == 0 and fresh(self.db[bucket_id])",
        "bucket_id in self._metadata and fresh(self._metadata[bucket_id])",
        "self._metadata[bucket_id]['id'] == bucket_id and self._metadata[bucket_id]['type'] == type_id and self._metadata[bucket_id]['client'] == client"
        " and self._metadata[bucket_id]['hostname'] == hostname and self._metadata[bucket_id]['created'] == created",
        "self._metadata[bucket_id]['name'] == (name if name is not None and len(name) > 0 else bucket_id)",
        # every other bucket keeps its list and its metadata
        "all(b == bucket_id or (b in self.db and self.db[b] is old(self.db[b])) for b in old(self.db))",
        "all(b == bucket_id or b in old(self.db) for b in self.db)",
        "all(b == bucket_id or (b in self._metadata and self._metadata[b] is old(self._metadata[b])) for b in old(self._metadata))",
        "mem_inv(self)", "not old(keys_agree(self)) or keys_agree(self)",
    ],
    modifies=["self.db[]", "self._metadata[]", "alloc"], writes_fresh=["List.len", "List.items", "Dict.map:JV"], raises=[],
)
contract(
    M_ + ".delete_bucket",
    params={"self": "MemoryStorage", "bucket_id": "str"},
    requires=["mem_inv(self)"],
    ensures=[
        "old(bucket_id in self._metadata) and bucket_id not in self.db and bucket_id not in self._metadata",
        "all(b == bucket_id or (b in self.db and self.db[b] is old(self.db[b])) for b in old(self.db))",
        "all(b in old(self.db) for b in self.db)",
        "all(b == bucket_id or (b in self._metadata and self._metadata[b] is old(self._metadata[b])) for b in old(self._metadata))",
        "not old(keys_agree(self)) or keys_agree(self)",
    ],
    exc_ensures={"ValueError": ["not old(bucket_id in self._metadata)", "all(b in self._metadata and self._metadata[b] is old(self._metadata[b]) for b in old(self._metadata))",
                                "all(b == bucket_id or (b in self.db and self.db[b] is old(self.db[b])) for b in old(self.db))"]},
    modifies=["self.db[]", "self._metadata[]"], raises=["ValueError"],
)
contract(
    M_ + ".get_metadata",
    params={"self": "MemoryStorage", "bucket_id": "str"}, returns="Dict[str,JV]",
    requires=["mem_inv(self)"],
    ensures=["old(bucket_id in self._metadata)", "fresh(result) and result is not self._metadata[bucket_id] and result == self._metadata[bucket_id]"],
    exc_ensures={"ValueError": ["not old(bucket_id in self._metadata)"]},
    modifies=["alloc"], writes_fresh=["*"], raises=["ValueError"],
)

# -- update_bucket: a keyed-map update - every field supplied replaces the stored one, nothing else changes --------------------------
contract(
    M_ + ".update_bucket",
    params={"self": "MemoryStorage", "bucket_id": "str", "type_id": "Optional[str]", "client": "Optional[str]", "hostname": "Optional[str]",
            "name": "Optional[str]", "data": "Optional[Dict[str,JV]]"},
    requires=["mem_inv(self)",
              # the property's domain for the string fields: non-empty strings
              "(type_id is None or len(type_id) > 0) and (client is None or len(client) > 0) and (hostname is None or len(hostname) > 0)"
              " and (name is None or len(name) > 0)"],
    ensures=[
        "old(bucket_id in self._metadata) and self._metadata[bucket_id] is old(self._metadata[bucket_id])",
        "type_id is None or self._metadata[bucket_id]['type'] == type_id",
        "client is None or self._metadata[bucket_id]['client'] == client",
        "hostname is None or self._metadata[bucket_id]['hostname'] == hostname",
        "name is None or self._metadata[bucket_id]['name'] == name",
        # a data table supplied replaces the stored one - also an empty one
        "data is None or jv_dict(self._metadata[bucket_id]['data']) is data",
        # every field not supplied, and every other key of the entry, is as before
        "all((k == 'type' and type_id is not None) or (k == 'client' and client is not None) or (k == 'hostname' and hostname is not None)"
        "    or (k == 'name' and name is not None) or (k == 'data' and data is not None)"
        "    or (k in self._metadata[bucket_id] and same_value(self._metadata[bucket_id][k], old(self._metadata[bucket_id][k])))"
        "    for k in old(self._metadata[bucket_id]))",
    ],
    exc_ensures={"ValueError": ["not old(bucket_id in self._metadata)"]},
    modifies=["self._metadata[bucket_id][]"], raises=["ValueError"],
)


# -- insert_many: the loop AbstractStorage.insert_many runs over insert_one (MemoryStorage inherits it), for events without ids ---------
A_ = "aw_datastore.storages.abstract.AbstractStorage"
IDS_OK = "all(self.db[bucket_id][j].id is not None and self.db[bucket_id][j].id >= 0 for j in range(len(self.db[bucket_id])))"
# (indexed by the position j in the bucket's list, so that the quantifier has the clean trigger `self.db[bucket_id][j]`)
APPENDED = ("all(fresh(self.db[bucket_id][j]) and fresh(self.db[bucket_id][j].data)"
            "    and self.db[bucket_id][j].timestamp == events[j - old(len(self.db[bucket_id]))].timestamp"
            "    and self.db[bucket_id][j].duration == events[j - old(len(self.db[bucket_id]))].duration"
            "    and self.db[bucket_id][j].data == events[j - old(len(self.db[bucket_id]))].data"
            "    and self.db[bucket_id][j] is not events[j - old(len(self.db[bucket_id]))]"
            "    and self.db[bucket_id][j].data is not events[j - old(len(self.db[bucket_id]))].data"
            "    for j in range(old(len(self.db[bucket_id])), old(len(self.db[bucket_id])) + {K}))")
# (ids are never reused: every appended event's id differs from the id of every event stored before it, old or appended by this call)
NEW_IDS = ("all(all(self.db[bucket_id][j2].id != self.db[bucket_id][j].id for j2 in range(j))"
           "    for j in range(old(len(self.db[bucket_id])), len(self.db[bucket_id])))")
CALLER_SAME = ("events is old(events) and len(events) == old(len(events))"
               " and all(events[i] is old(events[i]) and events[i].id is None and events[i].timestamp == old(events[i].timestamp)"
               "         and events[i].duration == old(events[i].duration) and events[i].data is old(events[i].data)"
               "         and events[i].data == old(events[i].data) for i in range(len(events)))")
EVENTS_OK = "all(allocated(events[i]) and allocated(events[i].data) and events[i].id is None for i in range(len(events)))"
contract(
    A_ + ".insert_many:memory",
    params={"self": "MemoryStorage", "bucket_id": "str", "events": "List[Event]"},
    # (len(...) >= 0 is a fact of the language the encoder does not supply for a list reached through a dict: stated, trivially true)
    requires=["bucket_id in self.db", "mem_inv(self)", "allocated(events)", EVENTS_OK, IDS_OK, "len(self.db[bucket_id]) >= 0",
              "all(events is not self.db[b] for b in self.db)"],
    # (L0 names the bucket's list object: a loop-invariant reference, so that the loop's frame is "only L0's cells and fresh objects")
    ghost_vars={"L0": ("List[Event]", "self.db[bucket_id]")},
    ensures=[
        "self.db[bucket_id] is old(self.db[bucket_id]) and len(self.db[bucket_id]) == old(len(self.db[bucket_id])) + len(events)",
        "all(self.db[bucket_id][j] is old(self.db[bucket_id][j]) for j in range(old(len(self.db[bucket_id]))))",
        APPENDED.format(K="len(events)"), IDS_OK, NEW_IDS, CALLER_SAME, "mem_inv(self)",
    ],
    modifies=["self.db[bucket_id][]", "alloc"], writes_fresh=["*"], raises=[],
    loops={0: dict(index="k", invariant=[
        "bucket_id in self.db and self.db[bucket_id] is old(self.db[bucket_id]) and L0 is self.db[bucket_id]"
        " and len(self.db[bucket_id]) == old(len(self.db[bucket_id])) + k and old(len(self.db[bucket_id])) >= 0 and k >= 0",
        "all(self.db[bucket_id][j] is old(self.db[bucket_id][j]) for j in range(old(len(self.db[bucket_id]))))",
        "mem_inv(self)", "allocated(events)", EVENTS_OK, "all(events is not self.db[b] for b in self.db)",
        IDS_OK, APPENDED.format(K="k"), NEW_IDS, CALLER_SAME,
    ])},
)


# bulk upsert: every event carries an id.  Each call of insert_one is met with its `:existing` contract (an upsert through replace):
# the list keeps its length and its ids position by position, a position whose id none of the events carries holds the very object
# it held, and every other position holds an object of the store's own (fresh, with a fresh data dict) - never the caller's event.
UPS_EVENTS_OK = "all(allocated(events[i]) and allocated(events[i].data) and events[i].id is not None for i in range(len(events)))"
UPS_CALLER_SAME = ("events is old(events) and len(events) == old(len(events))"
                   " and all(events[i] is old(events[i]) and events[i].id == old(events[i].id) and events[i].timestamp == old(events[i].timestamp)"
                   "         and events[i].duration == old(events[i].duration) and events[i].data is old(events[i].data)"
                   "         and events[i].data == old(events[i].data) for i in range(len(events)))")
UPS_IDS_KEPT = "all(self.db[bucket_id][j].id == old(self.db[bucket_id][j].id) for j in range(len(self.db[bucket_id])))"
UPS_UNTOUCHED = ("all(self.db[bucket_id][j] is old(self.db[bucket_id][j]) or any(events[i].id == old(self.db[bucket_id][j].id) for i in range({K}))"
                 "    for j in range(len(self.db[bucket_id])))")
UPS_OWNED = ("all(self.db[bucket_id][j] is old(self.db[bucket_id][j]) or (fresh(self.db[bucket_id][j]) and fresh(self.db[bucket_id][j].data))"
             "    for j in range(len(self.db[bucket_id])))")
contract(
    A_ + ".insert_many:memory-upsert",
    params={"self": "MemoryStorage", "bucket_id": "str", "events": "List[Event]"},
    requires=["bucket_id in self.db", "mem_inv(self)", "allocated(events)", UPS_EVENTS_OK, "len(self.db[bucket_id]) >= 0",
              "all(events is not self.db[b] for b in self.db)"],
    ghost_vars={"L0": ("List[Event]", "self.db[bucket_id]")},
    callee_variants={M_ + ".insert_one": "existing"},
    ensures=[
        "self.db[bucket_id] is old(self.db[bucket_id]) and len(self.db[bucket_id]) == old(len(self.db[bucket_id]))",
        UPS_IDS_KEPT, UPS_UNTOUCHED.format(K="len(events)"), UPS_OWNED, UPS_CALLER_SAME, "mem_inv(self)",
    ],
    modifies=["self.db[bucket_id][]", "alloc"], writes_fresh=["*"], raises=[],
    loops={0: dict(index="k", invariant=[
        "bucket_id in self.db and self.db[bucket_id] is old(self.db[bucket_id]) and L0 is self.db[bucket_id]"
        " and len(self.db[bucket_id]) == old(len(self.db[bucket_id])) and old(len(self.db[bucket_id])) >= 0 and k >= 0",
        "mem_inv(self)", "allocated(events)", UPS_EVENTS_OK, "all(events is not self.db[b] for b in self.db)",
        UPS_IDS_KEPT, UPS_UNTOUCHED.format(K="k"), UPS_OWNED, UPS_CALLER_SAME,
    ])},
)
