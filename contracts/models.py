"""Class definitions (field layout) of the objects the verifier reasons about.

`Event` is a dict subclass whose four keys are accessed through properties; `record=True` makes
`self["k"]` with a constant key a field access with a per-field presence flag, so the real
`__init__`, getters and setters of aw_core/models.py are executed symbolically (not replaced).
"""
from pyvc.api import classdef, contract

classdef("aw_core.models.Event",
         fields={"id": "Optional[int]", "timestamp": "datetime", "duration": "timedelta",
                 "data": "Dict[str,JV]"},
         invariant=["self.timestamp.microsecond % 1000 == 0", "self.timestamp >= EPOCH"])
from pyvc.api import CLASSDEFS
CLASSDEFS["aw_core.models.Event"]["record"] = True

classdef("timeslot.timeslot.Timeslot", fields={"start": "datetime", "end": "datetime"})
