"""Class definitions (field layout) of the objects the verifier reasons about.

`Event` is a dict subclass whose four keys are accessed through properties; `record=True` makes
`self["k"]` with a constant key a field access with a per-field presence flag, so the real
`__init__`, getters and setters of aw_core/models.py are executed symbolically (not replaced).
"""
from pyvc.specrt import *  # noqa: F401,F403
from pyvc.api import classdef, contract

classdef("aw_core.models.Event",
         fields={"id": "Optional[int]", "timestamp": "datetime", "duration": "timedelta",
                 "data": "Dict[str,JV]"},
         invariant=["ms_aligned(self.timestamp)", "self.timestamp >= EPOCH"])
from pyvc.api import CLASSDEFS
CLASSDEFS["aw_core.models.Event"]["record"] = True

classdef("timeslot.timeslot.Timeslot", fields={"start": "datetime", "end": "datetime"})

from pyvc.api import spec
from datetime import timedelta


@spec
def floor_ms(t):
    """The instant t floored to the millisecond."""
    return floor_to_ms(t)


# The timestamp setter stores the given instant floored to the millisecond (UTC).  Proved from the source
# of aw_core/models.py by C13; used modularly by every other property.
contract(
    "aw_core.models.Event.timestamp.setter",
    params={"self": "Event", "timestamp": "datetime"},
    requires=[],
    ensures=["self.timestamp == floor_ms(timestamp)"],
    modifies=["self.timestamp"],
    raises=[],
)
