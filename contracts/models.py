"""Class definitions (field layout) of the objects the verifier reasons about.

`Event` is a dict subclass whose four keys are accessed through properties; `record=True` makes
`self["k"]` with a constant key a field access with a per-field presence flag, so the real
`__init__`, getters and setters of aw_core/models.py are executed symbolically (not replaced).
"""
from pyvc.specrt import *  # noqa: F401,F403
from pyvc.api import classdef, contract

classdef("aw_core.models.Event",
         fields={"id": "Optional[int]", "timestamp": "datetime", "duration": "timedelta",
                 "data": "Dict[str,JV]"},
         invariant=["ms_aligned(self.timestamp)", "self.timestamp >= EPOCH"])
from pyvc.api import CLASSDEFS
CLASSDEFS["aw_core.models.Event"]["record"] = True

classdef("timeslot.timeslot.Timeslot", fields={"start": "datetime", "end": "datetime"})

from pyvc.api import spec
from datetime import timedelta


@spec
def floor_ms(t):
    """The instant t floored to the millisecond."""
    return floor_to_ms(t)


# The timestamp setter stores the given instant floored to the millisecond (UTC).  Proved from the source
# of aw_core/models.py by C13; used modularly by every other property.
contract(
    "aw_core.models.Event.timestamp.setter",
    params={"self": "Event", "timestamp": "datetime"},
    requires=[],
    ensures=["'timestamp' in self", "self.timestamp == floor_ms(timestamp)"],
    modifies=["self.timestamp"],
    raises=[],
)


# ======================================================================================================
# C13 - aw_core/models.py
# ======================================================================================================
M = "aw_core.models."

ANYDT = {"ts_in": {"any": True}, "timestamp": {"any": True}}


@spec
def whole_ms_offset(t):
    """The UTC offset of t (if it has one) is a whole number of milliseconds (ISO-8601 offsets are whole minutes)."""
    return t.utcoffset() is None or ms_aligned(t.utcoffset())


# -- _timestamp_parse: datetime in any zone (or naive) / ISO-8601 string ---------------------------------
contract(
    M + "_timestamp_parse",
    params={"ts_in": "datetime"}, param_attrs=ANYDT, returns="datetime",
    requires=["whole_ms_offset(ts_in)"],
    ensures=["result == floor_to_ms(ts_in)", "ms_aligned(result)", "result.tzinfo is not None", "whole_ms_offset(result)"],
    modifies=[], raises=[],
)
contract(
    M + "_timestamp_parse:str",
    params={"ts_in": "str"}, returns="datetime", requires=[],
    ensures=["result == floor_to_ms(parse_date(ts_in))", "ms_aligned(result)", "result.tzinfo is not None", "whole_ms_offset(result)"],
    modifies=[], raises=["ParseError"],
)

# -- timestamp setter for any zone / string (the UTC, aligned variant is above) ----------------------------
contract(
    M + "Event.timestamp.setter:any",
    params={"self": "Event", "timestamp": "datetime"}, param_attrs=ANYDT,
    requires=["whole_ms_offset(timestamp)"],
    ensures=["'timestamp' in self", "self.timestamp == floor_to_ms(timestamp)", "ms_aligned(self.timestamp)"],
    modifies=["self.timestamp"], raises=[],
)
contract(
    M + "Event.timestamp.setter:str",
    params={"self": "Event", "timestamp": "str"}, requires=[],
    ensures=["'timestamp' in self", "self.timestamp == floor_to_ms(parse_date(timestamp))", "ms_aligned(self.timestamp)"],
    modifies=["self.timestamp"], raises=["ParseError"],
)

# -- duration setter ------------------------------------------------------------------------------------------
contract(M + "Event.duration.setter", params={"self": "Event", "duration": "timedelta"}, requires=[],
         ensures=["'duration' in self", "self.duration == duration"], modifies=["self.duration"], raises=[])
contract(M + "Event.duration.setter:float", params={"self": "Event", "duration": "float"}, requires=[],
         ensures=["'duration' in self", "self.duration == timedelta(seconds=duration)"], modifies=["self.duration"], raises=[])
contract(M + "Event.duration.setter:int", params={"self": "Event", "duration": "int"}, requires=[],
         ensures=["'duration' in self", "self.duration == timedelta(seconds=duration)"], modifies=["self.duration"], raises=[])
contract(M + "Event.duration.setter:other", params={"self": "Event", "duration": "str"}, requires=[],
         ensures=["False"], exc_ensures={"TypeError": ["self.duration == old(self.duration)"]},
         modifies=[], raises=["TypeError"])

# -- __init__: the class invariant every other property relies on ------------------------------------------------
INIT_COMMON = [
    "'id' in self and 'timestamp' in self and 'duration' in self and 'data' in self",
    "self.id == id",
    "ms_aligned(self.timestamp)",
    "(data is not None and len(data) > 0 and self.data is data) or ((data is None or len(data) == 0) and self.data == {} and fresh(self.data))",
    "allocated(self.data)",
]
contract(
    M + "Event.__init__",
    params={"self": "Event", "id": "Optional[int]", "timestamp": "datetime", "duration": "timedelta", "data": "Optional[Dict[str,JV]]"},
    param_attrs=ANYDT, requires=["whole_ms_offset(timestamp)"],
    ensures=INIT_COMMON + ["self.timestamp == floor_to_ms(timestamp)", "self.duration == duration"],
    modifies=["self.id", "self.timestamp", "self.duration", "self.data", "alloc"], writes_fresh=["Dict.map:JV"], raises=[],
)
contract(
    M + "Event.__init__:str-float",
    params={"self": "Event", "id": "Optional[int]", "timestamp": "str", "duration": "float", "data": "Optional[Dict[str,JV]]"},
    requires=[],
    ensures=INIT_COMMON + ["self.timestamp == floor_to_ms(parse_date(timestamp))", "self.duration == timedelta(seconds=duration)"],
    modifies=["self.id", "self.timestamp", "self.duration", "self.data", "alloc"], writes_fresh=["Dict.map:JV"], raises=["ParseError"],
)

# -- equality ------------------------------------------------------------------------------------------------------
contract(
    M + "Event.__eq__",
    params={"self": "Event", "other": "Event"}, returns="bool", requires=[],
    ensures=["result == (self.timestamp == other.timestamp and self.duration == other.duration and self.data == other.data)"],
    modifies=[], raises=[],
)


# -- JSON form ----------------------------------------------------------------------------------------------------
UNCHANGED_SELF = ("self.timestamp == old(self.timestamp) and self.duration == old(self.duration) and self.data == old(self.data)"
                  " and self.id == old(self.id)")
contract(
    M + "Event.to_json_dict",
    params={"self": "Event"}, returns="SDict", requires=[],
    ensures=[
        # (the schema clauses are appended by props/C13.py from aw_core/schemas/event.json)
        "parse_date(result['timestamp']) == self.timestamp",            # A-RT1
        "timedelta(seconds=result['duration']) == self.duration",       # A-RT2
        "result['data'] is self.data and result['id'] == self.id",
        UNCHANGED_SELF,
    ],
    modifies=["alloc"], raises=[],
)


# -- round trips (ghost drivers: verified like any other function, against the contracts above) ----------------------
def roundtrip_json(e):
    from aw_core.models import Event
    return Event(**e.to_json_dict())


def roundtrip_self(e):
    from aw_core.models import Event
    return Event(**e)


RT = ["result == e", "result.id == e.id", "result.timestamp == e.timestamp and result.duration == e.duration and result.data == e.data",
      "fresh(result)"]
contract("contracts.models.roundtrip_json", params={"e": "Event"}, returns="Event", requires=[], ensures=RT,
         modifies=["alloc"], writes_fresh=["*"], raises=["ParseError"])
contract("contracts.models.roundtrip_self", params={"e": "Event"}, returns="Event", requires=[], ensures=RT,
         modifies=["alloc"], writes_fresh=["*"], raises=[])
