"""C12 - contracts for the data-gathering query functions of aw_query/functions.py (bodies as defined; the registering
decorators q2_function / q2_typecheck, which re-order and type-check arguments via inspect.signature, are not modelled:
T-DECORATOR).  A query reaches the store only through these two functions; they are verified against the contracts of
Datastore.__getitem__ / Datastore.buckets / Bucket.get / Bucket.get_eventcount (contracts/datastore.py)."""
import json
from datetime import timedelta, datetime, timezone
from pyvc.specrt import *  # noqa: F401,F403
from pyvc.api import contract, spec, classdef
from contracts.sqlite import *  # noqa: F401,F403
from contracts.sqlite import CUR_FRESH, EV_FRESH, BUCKETS_SAME, EVENTS_SAME, MAXES_SAME
from contracts.datastore import tables_same

QF = "aw_query.functions."
DST = "datastore.storage_strategy"
RO = tables_same(DST) + ["cache_inv(datastore)"]
QMOD = ["datastore.bucket_instances[]", "datastore.storage_strategy.last_commit", "datastore.storage_strategy.num_uncommitted_statements",
        "datastore.storage_strategy.conn.*", "alloc"]
QFRESH = CUR_FRESH + EV_FRESH + ["Dict.map:Dict[str,JV]", "aw_datastore.datastore.Bucket.ds", "aw_datastore.datastore.Bucket.bucket_id"]

contract(
    QF + "_verify_bucket_exists",
    params={"datastore": "Datastore", "bucketname": "str"}, requires=["cache_inv(datastore)"],
    ensures=["bucket_exists(datastore.storage_strategy, bucketname)"] + RO,
    exc_ensures={"QueryFunctionException": ["not bucket_exists(datastore.storage_strategy, bucketname)"] + RO},
    modifies=["alloc"], writes_fresh=CUR_FRESH + ["Dict.map:JV", "Dict.map:Dict[str,JV]"], raises=["QueryFunctionException"],
)

WINDOW_OK = ["isinstance(namespace['STARTTIME'], str) and isinstance(namespace['ENDTIME'], str)"]

contract(
    QF + "q2_query_bucket",
    params={"datastore": "Datastore", "namespace": "Dict[str,JV]", "bucketname": "str"}, returns="List[Event]",
    requires=["cache_inv(datastore)", "'STARTTIME' in namespace and 'ENDTIME' in namespace"] + WINDOW_OK,
    ghost_vars={"s0": ("Optional[datetime]", "None"), "e0": ("Optional[datetime]", "None")},
    ghost_code=[dict(after="endtime = iso8601.parse_date(", code="s0 = starttime\ne0 = endtime")],
    ensures=[
        # read-only: every row of every bucket as before, nothing pending changed hands
        ] + RO + [
        # scoped: only events of the named bucket that intersect the query's window (widened to whole milliseconds), all of them,
        # newest first, as fresh objects
        "s0 == parse_date(namespace['STARTTIME']) and e0 == parse_date(namespace['ENDTIME'])",
        "all(result[j].id is not None and may_window(datastore.storage_strategy, result[j].id, bucketname, floor_to_ms(s0),"
        "                                             floor_to_ms(e0) + timedelta(milliseconds=1)) for j in range(len(result)))",
        "all(not must_window(datastore.storage_strategy, i, bucketname, floor_to_ms(s0), floor_to_ms(e0) + timedelta(milliseconds=1))"
        "    or any(result[j].id == i for j in range(len(result))) for i in event_ids(datastore.storage_strategy))",
        "fresh(result) and all(fresh(result[j]) and fresh(result[j].data) for j in range(len(result)))",
    ],
    exc_ensures={"QueryFunctionException": RO},
    modifies=QMOD, writes_fresh=QFRESH + ["Dict.map:JV"], raises=["QueryFunctionException"],
)

contract(
    QF + "q2_query_bucket_eventcount",
    params={"datastore": "Datastore", "namespace": "Dict[str,JV]", "bucketname": "str"}, returns="int",
    requires=["cache_inv(datastore)", "'STARTTIME' in namespace and 'ENDTIME' in namespace"] + WINDOW_OK,
    ensures=RO + [
        # the number of events of the named bucket that intersect the query window exactly as given (no widening here)
        # (edges to the millisecond: must_window, see contracts/sqlite.py)
        "result > 0 or all(not must_window(datastore.storage_strategy, i, bucketname, parse_date(namespace['STARTTIME']), parse_date(namespace['ENDTIME']))"
        "                  for i in event_ids(datastore.storage_strategy))",
        "result >= 0",
    ],
    exc_ensures={"QueryFunctionException": RO},
    modifies=QMOD, writes_fresh=QFRESH + ["Dict.map:JV"], raises=["QueryFunctionException", "ParseError"],
)
