"""C15 - contracts for aw_transform/union_no_overlap.py."""
from datetime import timedelta
from pyvc.specrt import *  # noqa: F401,F403
from pyvc.api import contract, spec

M = "aw_transform.union_no_overlap."


@spec
def end_of(e):
    return e.timestamp + e.duration


@spec
def sorted_nonoverlapping(evs):
    """Time-sorted and internally non-overlapping: each event ends before the next one starts."""
    return (all(evs[i].duration >= timedelta(0) and ms_aligned(evs[i].duration) for i in range(len(evs)))
            and all(end_of(evs[a]) <= evs[b].timestamp for a in range(len(evs)) for b in range(a + 1, len(evs))))


contract(
    M + "_split_event",
    params={"e": "Event", "dt": "datetime"},
    returns="Tuple[Event, Optional[Event]]",
    requires=["ms_aligned(dt)"],
    ensures=[
        # strictly inside: two new events partitioning [start, end] at dt, both carrying e's data and id
        "not (e.timestamp < dt and dt < end_of(e)) or (result[1] is not None and fresh(result[0]) and fresh(result[1])"
        "    and result[0] is not result[1]"
        "    and result[0].timestamp == e.timestamp and end_of(result[0]) == dt"
        "    and result[1].timestamp == dt and end_of(result[1]) == end_of(e)"
        "    and result[0].data == e.data and result[1].data == e.data"
        "    and result[0].id == e.id and result[1].id == e.id)",
        # otherwise: the event itself and nothing else
        "(e.timestamp < dt and dt < end_of(e)) or (result[0] is e and result[1] is None)",
        "e.timestamp == old(e.timestamp) and e.duration == old(e.duration) and e.data == old(e.data) and e.id == old(e.id)",
    ],
    modifies=["alloc"],
    writes_fresh=["Event.id", "Event.timestamp", "Event.duration", "Event.data",
                  "Event.id!has", "Event.timestamp!has", "Event.duration!has", "Event.data!has", "Dict.map:JV"],
    raises=[],
)


# ---- run-time (executable) statement of the property, used by the bounded search / replay --------------
def _same(a, b):
    return a.timestamp == b.timestamp and a.duration == b.duration and a.data == b.data and a.id == b.id


def list1_positions(result, events1):
    """Positions of the events of list one inside result (in order), or None if one is missing/changed."""
    pos = []
    k = 0
    for e in events1:
        while k < len(result) and not _same(result[k], e):
            k += 1
        if k == len(result):
            return None
        pos.append(k)
        k += 1
    return pos


def pieces(result, events1):
    pos = set(list1_positions(result, events1) or [])
    return [r for k, r in enumerate(result) if k not in pos]


def sample_points(evs):
    """Interior points: mid-points between all distinct end points (and beyond the hull)."""
    pts = sorted({e.timestamp for e in evs} | {e.timestamp + e.duration for e in evs})
    out = []
    for a, b in zip(pts[:-1], pts[1:]):
        out.append(a + (b - a) / 2)
    return out


def covered(evs, t, data=None):
    return any(e.timestamp < t < e.timestamp + e.duration and (data is None or e.data == data) for e in evs)


def label_at(evs, t):
    for e in evs:
        if e.timestamp < t < e.timestamp + e.duration:
            return e.data
    return None


NATIVE = [
    # every event of the first list occurs unchanged, in order
    "list1_positions(result, old(list(events1))) is not None",
    # second-list pieces cover exactly the time covered by list two and not by list one, with the source's data
    "all((label_at(pieces(result, old(list(events1))), t) is not None) == "
    "    (covered(old(list(events2)), t) and not covered(old(list(events1)), t))"
    "    for t in sample_points(old(list(events1)) + old(list(events2)) + result))",
    "all(label_at(pieces(result, old(list(events1))), t) is None "
    "    or label_at(pieces(result, old(list(events1))), t) == label_at(old(list(events2)), t)"
    "    for t in sample_points(old(list(events1)) + old(list(events2)) + result))",
    # no two returned events overlap (for a positive time)
    "all(not (max(result[a].timestamp, result[b].timestamp) < min(end_of(result[a]), end_of(result[b])))"
    "    for a in range(len(result)) for b in range(a + 1, len(result)))",
    # inputs are not modified
    "len(events1) == old(len(events1)) and len(events2) == old(len(events2))",
    "all(events1[i] is old(events1[i]) and events1[i].timestamp == old(events1[i].timestamp) "
    "    and events1[i].duration == old(events1[i].duration) and events1[i].data == old(events1[i].data) for i in range(len(events1)))",
    "all(events2[i] is old(events2[i]) and events2[i].timestamp == old(events2[i].timestamp) "
    "    and events2[i].duration == old(events2[i].duration) and events2[i].data == old(events2[i].data) for i in range(len(events2)))",
]


# ---- union_no_overlap ------------------------------------------------------------------------------
# Ghost vocabulary:  A = deep copy of list one (never written), B0 = the deep-copied events of list two
# (never written: splitting creates new events), j0 = index in B0 of the event the current working element
# events2[e2_i] is a remainder of, pos1[i] = position of A[i] in the output, src[r] = -1 for a list-one
# event, else the index in B0 of the event the piece out[r] was cut from.
@spec
def inside_ev(p, b):
    return b.timestamp <= p.timestamp and end_of(p) <= end_of(b) and p.data == b.data


@spec
def clear_of(p, a):
    """p and a share no positive amount of time."""
    return end_of(p) <= a.timestamp or end_of(a) <= p.timestamp


@spec
def bfree(b, lo, hi):
    """event b covers no positive amount of time inside the open interval (lo, hi)"""
    return not (max(b.timestamp, lo) < min(end_of(b), hi))


@spec
def bfree_from(b, lo):
    """event b covers no positive amount of time after lo"""
    return not (max(b.timestamp, lo) < end_of(b))


@spec
def bfree_until(b, hi):
    """event b covers no positive amount of time before hi"""
    return not (b.timestamp < min(end_of(b), hi))


# completeness as absence of list-two time in the gaps of the output (list-one events are all in the output, which is ordered in
# time, so a gap between two consecutive output events contains no list-one time: whatever list-two time lay there would be lost)
GAPS_OK = "all(bfree(B0[j], end_of({OUT}[r]), {OUT}[r + 1].timestamp) for r in range(len({OUT}) - 1) for j in range(len(B0)))"

@spec
def settled(b, out, A, e1_i, ev2, e2_i):
    """No time of the list-two event b lies in the part of the time line the sweep has passed without output - i.e. between the
    end of the output so far and the current list-two head - unless the current list-one event covers it."""
    return (bfree(b,
                  end_of(out[len(out) - 1]) if len(out) > 0 else b.timestamp,
                  min(ev2[e2_i].timestamp if e2_i < len(ev2) else end_of(b), A[e1_i].timestamp if e1_i < len(A) else end_of(b)))
            and (e1_i >= len(A)
                 or bfree(b, max(end_of(out[len(out) - 1]) if len(out) > 0 else b.timestamp, end_of(A[e1_i])),
                          ev2[e2_i].timestamp if e2_i < len(ev2) else end_of(b))))


COMPLETE_INV = [
    GAPS_OK.format(OUT="events_union"),
    "len(events_union) == 0 or all(bfree_until(B0[j], events_union[0].timestamp) for j in range(len(B0)))",
    "all(settled(B0[j], events_union, A, e1_i, events2, e2_i) for j in range(len(B0)))",
]

OUT_OK = [
    "len(src) == len({OUT})",
    "all(src[r] != -1 or (0 <= inv1[r] and inv1[r] < {K1} and {OUT}[r] is A[inv1[r]]) for r in range(len({OUT})))",
    "all(allocated({OUT}[r]) for r in range(len({OUT})))",
    # list-one events, unchanged objects of A, in order
    "all(0 <= pos1[i] and pos1[i] < len({OUT}) and {OUT}[pos1[i]] is A[i] and src[pos1[i]] == -1 for i in range({K1}))",
    "all(pos1[i] < pos1[i2] for i in range({K1}) for i2 in range(i + 1, {K1}))",
    # every other element is a piece of a list-two event: inside its source, same data, clear of all of list one
    "all(src[r] == -1 or (0 <= src[r] and src[r] < len(B0) and inside_ev({OUT}[r], B0[src[r]])"
    "                     and all(clear_of({OUT}[r], A[i]) for i in range(len(A))))"
    "    for r in range(len({OUT})))",
    # no two returned events overlap: the output is ordered in time
    "all(end_of({OUT}[r]) <= {OUT}[r2].timestamp for r in range(len({OUT})) for r2 in range(r + 1, len({OUT})))",
]

contract(
    M + "union_no_overlap",
    params={"events1": "List[Event]", "events2": "List[Event]"},
    returns="List[Event]",
    locals={"events_union": "List[Event]"},
    requires=["sorted_nonoverlapping(events1)", "sorted_nonoverlapping(events2)"],
    ghost_vars={"A": ("List[Event]", "[]"), "B0": ("List[Event]", "[]"), "j0": ("int", "0"),
                "pos1": ("List[int]", "[]"), "src": ("List[int]", "[]"),
                "inv1": ("IntMap", "mnew()"),
                "K1": ("int", "0"), "K2": ("int", "0"), "T1": ("int", "0"), "T2": ("int", "0"), "W2": ("List[Event]", "[]")},
    ghost_code=[
        dict(after="events1 = ", code="A = events1"),
        dict(after="events2 = ", code="B0 = list(events2)"),
        dict(after="events_union.append(e1)", code="pos1.append(len(events_union) - 1)\nsrc.append(-1)\n"
                                                   "inv1 = mset(inv1, len(events_union) - 1, e1_i)"),
        dict(after="events_union.append(e2_next)", code="src.append(j0)"),
        dict(after="events_union.append(e2)", code="src.append(j0)"),
        dict(after="e2_i += 1", code="j0 = j0 + 1"),
        dict(after="events2.insert(e2_i, e2_next2)", code="j0 = j0 - 1"),
        dict(after="events_union += events1[e1_i:]", code="K1 = e1_i\nT1 = len(events_union) - (len(events1) - e1_i)"),
        dict(after="events_union += events2[e2_i:]", code="K2 = e2_i\nW2 = events2\nT2 = len(events_union) - (len(events2) - e2_i)"),
    ],
    ensures=[
        # A is a value copy of list one, B0 of list two
        "len(A) == old(len(events1)) and len(B0) == old(len(events2))",
        "all(A[i].timestamp == old(events1[i].timestamp) and A[i].duration == old(events1[i].duration) "
        "    and A[i].data == old(events1[i].data) and A[i].id == old(events1[i].id) for i in range(len(A)))",
        "all(B0[j].timestamp == old(events2[j].timestamp) and B0[j].duration == old(events2[j].duration) "
        "    and B0[j].data == old(events2[j].data) for j in range(len(B0)))",
        # result = [loop output (T1 elements)] + [rest of list one] + [rest of the working list two]
        "0 <= K1 and K1 <= len(A) and 0 <= T1 and T2 == T1 + (len(A) - K1) and len(result) == T2 + (len(W2) - K2)"
        " and (K1 == len(A) or K2 == len(W2)) and len(src) == T1 and len(pos1) == K1 and len(W2) - K2 == len(B0) - j0",
        # (1) every event of list one is returned unchanged (the objects of the copy A), in order
        "all(0 <= pos1[i] and pos1[i] < T1 and result[pos1[i]] is A[i] for i in range(K1))"
        " and all(pos1[i] < pos1[i2] for i in range(K1) for i2 in range(i + 1, K1))",
        "all(result[r] is A[r - T1 + K1] for r in range(T1, T2))",
        # (2, soundness) every other returned event is a piece of a list-two event: inside its source, carrying
        # its data, and sharing no positive time with any event of list one
        "all(src[r] == -1 or (0 <= src[r] and src[r] < len(B0) and inside_ev(result[r], B0[src[r]])"
        "                     and all(clear_of(result[r], A[i]) for i in range(len(A)))) for r in range(T1))",
        "all(0 <= inv1[r] and inv1[r] < K1 and result[r] is A[inv1[r]] for r in range(T1) if src[r] == -1)",
        "all(inside_ev(result[r], B0[r - T2 + j0]) and all(clear_of(result[r], A[i]) for i in range(len(A)))"
        "    for r in range(T2, len(result)))",
        # (3) no two returned events overlap: the result is ordered in time (region by region, then as a whole)
        "all(end_of(result[r]) <= result[r2].timestamp for r in range(T1) for r2 in range(r + 1, T1))",
        # (auxiliary facts about the two appended tails; indices written so that list reads are the triggers)
        "all(result[r] is W2[r - T2 + K2] for r in range(T2, len(result)))",
        "all(result[r] is A[r - T1 + K1] for r in range(T1, T2))",
        "all(A[a].timestamp <= A[b].timestamp and end_of(A[a]) <= A[b].timestamp for a in range(len(A)) for b in range(a + 1, len(A)))",
        "all(W2[m] is B0[m - K2 + j0] for m in range(K2 + 1, len(W2)))",
        "K2 == len(W2) or (W2[K2].timestamp <= end_of(W2[K2]) and end_of(W2[K2]) == end_of(B0[j0]))",
        "K2 == len(W2) or all(end_of(W2[K2]) <= W2[m].timestamp for m in range(K2 + 1, len(W2)))",
        "all(end_of(W2[m]) <= W2[m2].timestamp for m in range(K2 + 1, len(W2)) for m2 in range(m + 1, len(W2)))",
        "all(W2[m].timestamp <= end_of(W2[m]) for m in range(K2, len(W2)))",
        "all(end_of(W2[m]) <= W2[m2].timestamp and W2[m].timestamp <= W2[m2].timestamp"
        "    for m in range(K2, len(W2)) for m2 in range(m + 1, len(W2)))",
        "K1 == len(A) or all(end_of(result[r]) <= A[K1].timestamp for r in range(T1))",
        "K2 == len(W2) or all(end_of(result[r]) <= W2[K2].timestamp for r in range(T1))",
        "all(end_of(result[r]) <= result[r2].timestamp for r in range(T1) for r2 in range(T1, T2))",
        "all(end_of(result[r]) <= result[r2].timestamp for r in range(T1) for r2 in range(T2, len(result)))",
        "all(end_of(result[r]) <= result[r2].timestamp for r in range(T1, T2) for r2 in range(r + 1, T2))",
        "all(end_of(result[r]) <= result[r2].timestamp for r in range(T2, len(result)) for r2 in range(r + 1, len(result)))",
        "T1 == T2 or T2 == len(result)",
        "all(end_of(result[r]) <= result[r2].timestamp for r in range(len(result)) for r2 in range(r + 1, len(result)))",
        # (2, completeness) no list-two time is lost: the output is ordered in time and contains every list-one event, so a gap
        # between consecutive output events holds no list-one time - and, as stated here, no list-two time either; nor does any
        # list-two time lie before the first or after the last output event
        # (region by region first: the loop's output, the seam, the appended rest of list one / of the working list two)
        "all(bfree(B0[j], end_of(result[r]), result[r + 1].timestamp) for r in range(T1 - 1) for j in range(len(B0)))",
        "T1 == 0 or T1 >= len(result) or all(bfree(B0[j], end_of(result[T1 - 1]), result[T1].timestamp) for j in range(len(B0)))",
        "all(bfree(B0[j], end_of(result[r]), result[r + 1].timestamp) for r in range(T1, T2 - 1) for j in range(len(B0)))",
        "all(bfree(B0[j], end_of(result[r]), result[r + 1].timestamp) for r in range(T2, len(result) - 1) for j in range(len(B0)))",
        GAPS_OK.format(OUT="result"),
        "len(result) == 0 or all(bfree_until(B0[j], result[0].timestamp) and bfree_from(B0[j], end_of(result[len(result) - 1]))"
        "                        for j in range(len(B0)))",
        "len(result) > 0 or all(B0[j].duration <= timedelta(0) for j in range(len(B0)))",
        # (4) inputs are not modified
        "len(events1) == old(len(events1)) and len(events2) == old(len(events2))",
        "all(events1[i] is old(events1[i]) and events1[i].timestamp == old(events1[i].timestamp) "
        "    and events1[i].duration == old(events1[i].duration) and events1[i].data == old(events1[i].data) for i in range(len(events1)))",
        "all(events2[i] is old(events2[i]) and events2[i].timestamp == old(events2[i].timestamp) "
        "    and events2[i].duration == old(events2[i].duration) and events2[i].data == old(events2[i].data) for i in range(len(events2)))",
    ],
    native_ensures=NATIVE,
    modifies=["alloc"], writes_fresh=["*"],
    raises=[],
    loops={0: dict(
        invariant=[
            "0 <= e1_i and e1_i <= len(events1) and 0 <= e2_i and e2_i <= len(events2) and events1 is A",
            "len(pos1) == e1_i and 0 <= j0 and len(events2) - e2_i == len(B0) - j0",
            "sorted_nonoverlapping(A) and sorted_nonoverlapping(B0)",
            "all(allocated(A[i]) for i in range(len(A))) and all(allocated(B0[j]) for j in range(len(B0)))",
            # (alignment of A's and B0's instants follows from their being value copies of the inputs, below)
            # the working list: current element is a tail piece of B0[j0], everything after it is untouched
            "all(events2[e2_i + d] is B0[j0 + d] for d in range(1, len(events2) - e2_i))",
            "e2_i >= len(events2) or (inside_ev(events2[e2_i], B0[j0]) and end_of(events2[e2_i]) == end_of(B0[j0])"
            "    and events2[e2_i].duration >= timedelta(0) and ms_aligned(events2[e2_i].timestamp) and allocated(events2[e2_i]))",
            # the current list-two element starts after the previous list-one event ended
            "e1_i == 0 or e2_i >= len(events2) or end_of(A[e1_i - 1]) <= events2[e2_i].timestamp",
            # everything returned so far ends before both current heads
            "all((e1_i >= len(A) or end_of(events_union[r]) <= A[e1_i].timestamp)"
            "    and (e2_i >= len(events2) or end_of(events_union[r]) <= events2[e2_i].timestamp)"
            "    for r in range(len(events_union)))",
            # the caller's lists and events are never written
            "all(old(events1[i]).timestamp == old(events1[i].timestamp) and old(events1[i]).duration == old(events1[i].duration)"
            "    and old(events1[i]).data == old(events1[i].data) for i in range(old(len(events1))))",
            "all(old(events2[i]).timestamp == old(events2[i].timestamp) and old(events2[i]).duration == old(events2[i].duration)"
            "    and old(events2[i]).data == old(events2[i].data) for i in range(old(len(events2))))",
            "all(A[i].timestamp == old(events1[i].timestamp) and A[i].duration == old(events1[i].duration) "
            "    and A[i].data == old(events1[i].data) and A[i].id == old(events1[i].id) for i in range(len(A)))",
            "all(B0[j].timestamp == old(events2[j].timestamp) and B0[j].duration == old(events2[j].duration) "
            "    and B0[j].data == old(events2[j].data) for j in range(len(B0)))",
        ] + [c.format(OUT="events_union", K1="e1_i") for c in OUT_OK] + COMPLETE_INV,
        hints=[
            # facts about the element of list two that was current when the step began (its object is never written)
            "end_of(prev(events2[e2_i])) == end_of(B0[prev(j0)]) and prev(events2[e2_i]).duration >= timedelta(0)"
            " and B0[prev(j0)].timestamp <= prev(events2[e2_i]).timestamp and prev(events2[e2_i]).data == B0[prev(j0)].data",
            "prev(e1_i) == 0 or end_of(A[prev(e1_i) - 1]) <= prev(events2[e2_i]).timestamp",
            "A[prev(e1_i)].duration >= timedelta(0) and (prev(e1_i) + 1 >= len(A) or end_of(A[prev(e1_i)]) <= A[prev(e1_i) + 1].timestamp)",
            # moving on to an untouched element of list two
            "j0 == prev(j0) or j0 >= len(B0) or (events2[e2_i] is B0[j0] and end_of(B0[j0 - 1]) <= B0[j0].timestamp"
            "                                     and B0[j0].duration >= timedelta(0))",
        ],
        # lexicographic progress: a list-one or list-two event is finished, or the current list-two element
        # moves from "starts before e1" to "starts inside e1" to "starts at/after e1's end"
        decreases="3 * (len(events1) - e1_i) + 3 * (len(B0) - j0) + (0 if (e2_i >= len(events2) or e1_i >= len(events1)) else "
                  "(2 if events2[e2_i].timestamp < A[e1_i].timestamp else "
                  "(1 if events2[e2_i].timestamp < end_of(A[e1_i]) else 0)))",
    )},
)
