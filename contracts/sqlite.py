"""C02/C04/C05/C06/C18 - contracts for aw_datastore/storages/sqlite.py over the table state of the connection.

The storage object's abstract view is the pair of tables (pyvc/sqlsem.py).  Every contract carries the frame over the
*whole* view: `all(i == target or ev_row(self, i) == old(ev_row(self, i)) for i in event_ids(self))` says that every
event row of every bucket other than the addressed one is exactly as before, which is what C04 needs; C02's reference
list operation is the statement about the addressed row; C06/C18 are the clauses over pending(self)/ncommits(self).
"""
import json
from datetime import timedelta
from pyvc.specrt import *  # noqa: F401,F403
from pyvc.api import contract, spec, classdef

S_ = "aw_datastore.storages.sqlite.SqliteStorage"
classdef("sqlite3.Connection", fields={})
classdef("sqlite3.Cursor", fields={"rowcount": "int", "lastrowid": "int", "conn": "sqlite3.Connection"})
classdef(S_, fields={"conn": "sqlite3.Connection", "last_commit": "datetime", "num_uncommitted_statements": "int",
                     "enable_lazy_commit": "bool", "testing": "bool"})


@spec
def enc_start(event):
    """The float the code stores as starttime."""
    return event.timestamp.timestamp() * 1000000


@spec
def enc_end(event):
    """The float the code stores as endtime: the end instant, encoded like the start."""
    return (event.timestamp + event.duration).timestamp() * 1000000


@spec
def lazy_inv(self):
    """Commit discipline of the lazily committing store: the statement counter bounds the pending writes."""
    return (db_inv(self) and pending(self) >= 0
            and (not self.enable_lazy_commit or (pending(self) <= self.num_uncommitted_statements
                                                 and 0 <= self.num_uncommitted_statements and self.num_uncommitted_statements <= 50))
            and (self.enable_lazy_commit or pending(self) == 0))


# frame of a write: the storage's own counters, the tables of its connection, and objects it allocates (cursors, row lists)
DBMOD = ["self.last_commit", "self.num_uncommitted_statements", "self.conn.*", "alloc"]
CUR_FRESH = ["sqlite3.Cursor.rowcount", "sqlite3.Cursor.lastrowid", "sqlite3.Cursor.conn", "List.len", "List.items"]
EV_FRESH = ["Event.id", "Event.timestamp", "Event.duration", "Event.data", "Event.id!has", "Event.timestamp!has",
            "Event.duration!has", "Event.data!has", "Dict.map:JV"]

MAXES_SAME = "ev_max(self) == old(ev_max(self)) and bk_max(self) == old(bk_max(self))"      # ids are never handed out again
# C18: a write issued more than ten seconds after the previous flush is flushed before it returns
C18_FLUSH = "not (self.enable_lazy_commit and old(clock_now() - self.last_commit) > timedelta(seconds=10)) or pending(self) == 0"
BUCKETS_SAME = "all(bk_row(self, r) == old(bk_row(self, r)) for r in bucket_rowids(self))"
EVENTS_SAME = "all(ev_row(self, i) == old(ev_row(self, i)) for i in event_ids(self))"

# -- commit / conditional_commit (C06, C18) ---------------------------------------------------------------------
contract(
    S_ + ".commit",
    params={"self": "SqliteStorage"}, requires=["db_inv(self)"],
    ensures=["pending(self) == 0 and self.num_uncommitted_statements == 0 and ncommits(self) == old(ncommits(self)) + 1",
             "issued(self) == old(issued(self)) and db_inv(self)", BUCKETS_SAME, EVENTS_SAME, MAXES_SAME,
             "self.enable_lazy_commit == old(self.enable_lazy_commit)"],
    modifies=["self.last_commit", "self.num_uncommitted_statements", "self.conn.committed", "self.conn.ncommits"], raises=[],
)
contract(
    S_ + ".conditional_commit",
    params={"self": "SqliteStorage", "num_statements": "int"},
    requires=["db_inv(self)", "num_statements >= 0",
              # on entry the statements just issued are not yet counted
              "not self.enable_lazy_commit or (0 <= self.num_uncommitted_statements and self.num_uncommitted_statements <= 50"
              "    and pending(self) <= self.num_uncommitted_statements + num_statements)"],
    ensures=["lazy_inv(self)", "issued(self) == old(issued(self))", BUCKETS_SAME, EVENTS_SAME, MAXES_SAME,
             "self.enable_lazy_commit == old(self.enable_lazy_commit)",
             # C18: a write issued more than ten seconds after the previous flush is flushed before it returns
             "not (self.enable_lazy_commit and old(clock_now() - self.last_commit) > timedelta(seconds=10)) or pending(self) == 0",
             "ncommits(self) <= old(ncommits(self)) + 2"],
    modifies=["self.last_commit", "self.num_uncommitted_statements", "self.conn.committed", "self.conn.ncommits"], raises=[],
)


# -- vocabulary ----------------------------------------------------------------------------------------------------
@spec
def in_bucket(self, i, bucket_id):
    """event row i is a live event of the bucket called bucket_id"""
    return ev_live(self, i) and bk_live(self, ev_bucketrow(self, i)) and ev_bucket(self, i) == bucket_id


@spec
def before(self, i, k):
    """row i precedes row k in the order of reads (starttime desc, endtime desc, id desc)"""
    return (ev_start(self, i) > ev_start(self, k)
            or (ev_start(self, i) == ev_start(self, k)
                and (ev_end(self, i) > ev_end(self, k) or (ev_end(self, i) == ev_end(self, k) and i > k))))


@spec
def newest(self, i, bucket_id):
    """row i is the event a limit-1 read of the bucket returns"""
    return in_bucket(self, i, bucket_id) and all(not in_bucket(self, k, bucket_id) or k == i or before(self, i, k)
                                                 for k in event_ids(self))


@spec
def holds(self, i, event):
    """row i holds the encoding of `event`"""
    return ev_start(self, i) == enc_start(event) and ev_end(self, i) == enc_end(event) and ev_data(self, i) == json.dumps(event.data)


EV_UNCHANGED = ("event.timestamp == old(event.timestamp) and event.duration == old(event.duration) and event.data == old(event.data)")

# -- delete ------------------------------------------------------------------------------------------------------------
contract(
    S_ + ".delete",
    params={"self": "SqliteStorage", "bucket_id": "str", "event_id": "int"}, returns="bool",
    requires=["lazy_inv(self)"],
    ensures=[
        "result == old(in_bucket(self, event_id, bucket_id))",
        # exactly the addressed event is removed; every other row of every bucket is as before
        "all((i == event_id and old(in_bucket(self, i, bucket_id)) and not ev_live(self, i)) "
        "    or (not (i == event_id and old(in_bucket(self, i, bucket_id))) and ev_row(self, i) == old(ev_row(self, i)))"
        "    for i in event_ids(self))",
        BUCKETS_SAME, "lazy_inv(self)", MAXES_SAME, C18_FLUSH,
    ],
    modifies=DBMOD, writes_fresh=CUR_FRESH, raises=[],
)

# -- replace ------------------------------------------------------------------------------------------------------------
contract(
    S_ + ".replace",
    params={"self": "SqliteStorage", "bucket_id": "str", "event_id": "int", "event": "Event"}, returns="bool",
    requires=["lazy_inv(self)"],
    ensures=[
        "all((i == event_id and old(in_bucket(self, i, bucket_id)) and in_bucket(self, i, bucket_id) and holds(self, i, event)"
        "     and ev_bucketrow(self, i) == old(ev_bucketrow(self, i)))"
        "    or (not (i == event_id and old(in_bucket(self, i, bucket_id))) and ev_row(self, i) == old(ev_row(self, i)))"
        "    for i in event_ids(self))",
        BUCKETS_SAME, "lazy_inv(self)", EV_UNCHANGED, MAXES_SAME, C18_FLUSH,
    ],
    modifies=DBMOD, writes_fresh=CUR_FRESH, raises=[],
)

# -- replace_last ----------------------------------------------------------------------------------------------------------
contract(
    S_ + ".replace_last",
    params={"self": "SqliteStorage", "bucket_id": "str", "event": "Event"}, returns="bool",
    requires=["lazy_inv(self)"],
    ensures=[
        # exactly the event a limit-1 read returns is rewritten (keeping its id and bucket), nothing else is touched
        "all((old(newest(self, i, bucket_id)) and in_bucket(self, i, bucket_id) and holds(self, i, event)"
        "     and ev_bucketrow(self, i) == old(ev_bucketrow(self, i)))"
        "    or (not old(newest(self, i, bucket_id)) and ev_row(self, i) == old(ev_row(self, i)))"
        "    for i in event_ids(self))",
        BUCKETS_SAME, "lazy_inv(self)", EV_UNCHANGED, MAXES_SAME, C18_FLUSH,
    ],
    modifies=DBMOD, writes_fresh=CUR_FRESH, raises=[],
)

# -- insert_one ---------------------------------------------------------------------------------------------------------------
contract(
    S_ + ".insert_one",
    params={"self": "SqliteStorage", "bucket_id": "str", "event": "Event"}, returns="Event",
    requires=["lazy_inv(self)"],
    ensures=[
        "result is event and event.id is not None",
        # a new row with an id never used before, in the addressed bucket, holding the event; nothing else is touched
        "event.id == old(ev_max(self)) + 1 and not old(ev_live(self, ev_max(self) + 1)) and ev_max(self) == event.id",
        "in_bucket(self, event.id, bucket_id) and holds(self, event.id, event)",
        "all(i == event.id or ev_row(self, i) == old(ev_row(self, i)) for i in event_ids(self))",
        BUCKETS_SAME, "lazy_inv(self)", EV_UNCHANGED, "bk_max(self) == old(bk_max(self))", C18_FLUSH,
    ],
    exc_ensures={"IntegrityError": ["not old(bucket_exists(self, bucket_id))", EVENTS_SAME, BUCKETS_SAME, "pending(self) == old(pending(self))"]},
    modifies=DBMOD + ["event.id"], writes_fresh=CUR_FRESH, raises=["IntegrityError"],
)


# -- buckets -----------------------------------------------------------------------------------------------------------------
@spec
def bucket_row_is(self, r, bucket_id, type_id, client, hostname, created, name, datastr):
    return (bk_live(self, r) and bk_id(self, r) == bucket_id and bk_col(self, r, "type") == type_id and bk_col(self, r, "client") == client
            and bk_col(self, r, "hostname") == hostname and bk_col(self, r, "created") == created and bk_col(self, r, "name") == name
            and bk_col(self, r, "datastr") == datastr)


contract(
    S_ + ".get_metadata",
    params={"self": "SqliteStorage", "bucket_id": "str"}, returns="Dict[str,JV]",
    requires=["db_inv(self)"],
    ensures=[
        "old(bucket_exists(self, bucket_id))",
        # describes the one live bucket row with that id
        "all(not (bk_live(self, r) and bk_id(self, r) == bucket_id) or "
        "    (result['id'] == bk_id(self, r) and result['type'] == bk_col(self, r, 'type') and result['client'] == bk_col(self, r, 'client')"
        "     and result['hostname'] == bk_col(self, r, 'hostname') and result['created'] == bk_col(self, r, 'created')"
        "     and jv_dict(result['data']) == json.loads(bk_col(self, r, 'datastr') if len(bk_col(self, r, 'datastr')) > 0 else '{}'))"
        "    for r in bucket_rowids(self))",
        "fresh(result)",
        BUCKETS_SAME, EVENTS_SAME, "pending(self) == old(pending(self)) and issued(self) == old(issued(self))",
    ],
    exc_ensures={"ValueError": ["not old(bucket_exists(self, bucket_id))", BUCKETS_SAME, EVENTS_SAME, "pending(self) == old(pending(self))"]},
    modifies=["alloc"], writes_fresh=["Dict.map:JV", "sqlite3.Cursor.rowcount", "sqlite3.Cursor.lastrowid", "sqlite3.Cursor.conn", "List.len", "List.items"],
    raises=["ValueError"],
)

contract(
    S_ + ".create_bucket",
    params={"self": "SqliteStorage", "bucket_id": "str", "type_id": "str", "client": "str", "hostname": "str", "created": "str",
            "name": "Optional[str]", "data": "Optional[Dict[str,JV]]"},
    returns="Dict[str,JV]",
    requires=["lazy_inv(self)"],
    ensures=[
        "not old(bucket_exists(self, bucket_id)) and bucket_exists(self, bucket_id)",
        # a new bucket row (row id never used before) with exactly the metadata given ...
        "bucket_row_is(self, old(bk_max(self)) + 1, bucket_id, type_id, client, hostname, created, name, json.dumps(data or {}))",
        "all(r == old(bk_max(self)) + 1 or bk_row(self, r) == old(bk_row(self, r)) for r in bucket_rowids(self))",
        # ... which starts empty, all events of all other buckets untouched
        EVENTS_SAME, "all(not in_bucket(self, i, bucket_id) for i in event_ids(self))",
        # durable as soon as it returns
        "pending(self) == 0 and lazy_inv(self)", "ev_max(self) == old(ev_max(self)) and bk_max(self) == old(bk_max(self)) + 1",
    ],
    exc_ensures={"IntegrityError": ["old(bucket_exists(self, bucket_id))", BUCKETS_SAME, EVENTS_SAME, "pending(self) == old(pending(self))"]},
    modifies=DBMOD, writes_fresh=CUR_FRESH + ["Dict.map:JV"], raises=["IntegrityError"],
)

contract(
    S_ + ".delete_bucket",
    params={"self": "SqliteStorage", "bucket_id": "str"},
    requires=["lazy_inv(self)"],
    ensures=[
        "old(bucket_exists(self, bucket_id)) and not bucket_exists(self, bucket_id)",
        # the bucket row and all of its events are gone, every other row is as before
        "all((old(bk_live(self, r) and bk_id(self, r) == bucket_id) and not bk_live(self, r))"
        "    or (not old(bk_live(self, r) and bk_id(self, r) == bucket_id) and bk_row(self, r) == old(bk_row(self, r)))"
        "    for r in bucket_rowids(self))",
        "all((old(in_bucket(self, i, bucket_id)) and not ev_live(self, i))"
        "    or (not old(in_bucket(self, i, bucket_id)) and ev_row(self, i) == old(ev_row(self, i))) for i in event_ids(self))",
        # durable on return, and not split: the only commit of the operation comes after its last statement
        "pending(self) == 0 and ncommits(self) == old(ncommits(self)) + 1 and lazy_inv(self)", MAXES_SAME,
    ],
    exc_ensures={"ValueError": ["not old(bucket_exists(self, bucket_id))", BUCKETS_SAME, EVENTS_SAME, "pending(self) == 0"]},
    modifies=DBMOD, writes_fresh=CUR_FRESH, raises=["ValueError"],
)


# -- reads --------------------------------------------------------------------------------------------------------------------
from datetime import datetime, timezone


@spec
def dec(x):
    """The instant the stored float x decodes to."""
    return datetime.fromtimestamp(x / 1000000, timezone.utc)


@spec
def decodes(e, row):
    """Event e is the decoding of the row (id, starttime, endtime, datastr)."""
    return (e.id == row[0] and e.timestamp == floor_to_ms(dec(row[1])) and e.duration == dec(row[2]) - dec(row[1])
            and e.data == json.loads(row[3]))


contract(
    "aw_datastore.storages.sqlite._rows_to_events",
    params={"rows": "List[Tuple[int, float, float, str]]"}, returns="List[Event]",
    locals={"events": "List[Event]"},
    requires=[],
    ensures=["len(result) == len(rows) and fresh(result)",
             "all(fresh(result[j]) and fresh(result[j].data) and decodes(result[j], rows[j]) for j in range(len(result)))"],
    modifies=["alloc"], raises=[],
    writes_fresh=["Event.id", "Event.timestamp", "Event.duration", "Event.data", "Event.id!has", "Event.timestamp!has",
                  "Event.duration!has", "Event.data!has", "Dict.map:JV", "List.len", "List.items"],
    loops={0: dict(index="k", invariant=[
        "len(events) == k",
        "all(fresh(events[j]) and allocated(events[j]) and allocated(events[j].data) and fresh(events[j].data) and decodes(events[j], rows[j]) for j in range(k))",
    ])},
)

PURE_READ = [BUCKETS_SAME, EVENTS_SAME, MAXES_SAME, "issued(self) == old(issued(self)) and pending(self) == 0 and lazy_inv(self)"]

contract(
    S_ + ".get_event",
    params={"self": "SqliteStorage", "bucket_id": "str", "event_id": "int"}, returns="Optional[Event]",
    requires=["lazy_inv(self)"],
    ensures=["(result is not None) == in_bucket(self, event_id, bucket_id)",
             "result is None or (fresh(result) and fresh(result.data) and decodes(result, (event_id, ev_start(self, event_id), ev_end(self, event_id), ev_data(self, event_id))))",
             ] + PURE_READ,
    modifies=DBMOD, writes_fresh=CUR_FRESH + EV_FRESH, raises=[],
)

contract(
    S_ + ".get_eventcount",
    params={"self": "SqliteStorage", "bucket_id": "str", "starttime": "Optional[datetime]", "endtime": "Optional[datetime]"}, returns="int",
    requires=["lazy_inv(self)"],
    ensures=["result >= 0",
             # no matching event -> 0; an event matching -> at least 1 (the count is the length of an enumeration of the matching rows)
             "result > 0 or all(not must_window(self, i, bucket_id, starttime, endtime) for i in event_ids(self))",
             "result == 0 or any(may_window(self, i, bucket_id, starttime, endtime) for i in event_ids(self))",
             ] + PURE_READ,
    modifies=DBMOD, writes_fresh=CUR_FRESH, raises=[],
)


@spec
def lo_bound(starttime):
    return starttime.timestamp() * 1000000 if starttime else 0


@spec
def hi_bound(endtime):
    return endtime.timestamp() * 1000000 if endtime else 2 ** 63 - 1


@spec
def in_window(self, i, bucket_id, starttime, endtime):
    return in_bucket(self, i, bucket_id) and ev_end(self, i) >= lo_bound(starttime) and ev_start(self, i) <= hi_bound(endtime)


# C03 honours the window edges "to the store's millisecond resolution": an event within about a millisecond of an edge may go
# either way.  A windowed read is therefore specified by two predicates over the stored floats - what MUST be returned (reaches
# into the window by at least half a millisecond) and what MAY be returned (comes within half a millisecond of it) - and not by the
# closed-interval comparison the SQL text happens to use: a change that opens or closes an edge is then not reported as a
# violation of a property that allows it.  (Half a millisecond at the level of the floats is a millisecond at the level of
# instants, the encoding being within half a microsecond of the instant: lemma F5; `real_plus` is exact real addition.)
# An open-ended start has no edge: there the comparison (with 0, the epoch, which is an instant of the property's domain) is the exact
# one.  An open-ended end is the sentinel 2**63-1 microseconds, some 290 000 years beyond every instant of the domain: no event is near it.
@spec
def must_window(self, i, bucket_id, starttime, endtime):
    return (in_bucket(self, i, bucket_id)
            and ev_end(self, i) >= real_plus(lo_bound(starttime), 500 if starttime is not None else 0)
            and ev_start(self, i) <= real_plus(hi_bound(endtime), -500))


@spec
def may_window(self, i, bucket_id, starttime, endtime):
    return (in_bucket(self, i, bucket_id)
            and ev_end(self, i) >= real_plus(lo_bound(starttime), -500 if starttime is not None else 0)
            and ev_start(self, i) <= real_plus(hi_bound(endtime), 500))


contract(
    S_ + ".get_events",
    params={"self": "SqliteStorage", "bucket_id": "str", "limit": "int", "starttime": "Optional[datetime]", "endtime": "Optional[datetime]"},
    returns="List[Event]",
    requires=["lazy_inv(self)"],
    ensures=[
        "limit != 0 or len(result) == 0",
        "limit <= 0 or len(result) <= limit",
        # what is handed out is the caller's: fresh objects with fresh data dicts (the store keeps no reference)
        "fresh(result) and all(fresh(result[j]) and fresh(result[j].data) for j in range(len(result)))",
        # every returned event is a stored event of the bucket inside the window, decoded; newest first (timestamp descending)
        "all(result[j].id is not None and may_window(self, result[j].id, bucket_id, starttime, endtime)"
        "    and decodes(result[j], (result[j].id, ev_start(self, result[j].id), ev_end(self, result[j].id), ev_data(self, result[j].id)))"
        "    for j in range(len(result)))",
        "all(before(self, result[j].id, result[j2].id) for j in range(len(result)) for j2 in range(j + 1, len(result)))",
        # nothing inside the window is missing, except events older than every returned one when a positive limit is reached
        "limit == 0 or all(not must_window(self, i, bucket_id, starttime, endtime)"
        "    or any(result[j].id == i for j in range(len(result)))"
        "    or (limit > 0 and len(result) == limit and all(before(self, result[j].id, i) for j in range(len(result))))"
        "    for i in event_ids(self))",
    ] + [c for c in PURE_READ[:3]] + ["issued(self) == old(issued(self)) and lazy_inv(self)", "limit == 0 or pending(self) == 0"],
    modifies=DBMOD, writes_fresh=CUR_FRESH + EV_FRESH, raises=[],
)


# -- insert_many (bulk insert + upsert) -----------------------------------------------------------------------------------------
# U = the events carrying an id (upserted, in order), N = the events without one (inserted, in order);
# last[i] = index in U of the last upsert addressed to row i (-1: none): the one whose value the row holds afterwards.
SUBSEQ = ("all(0 <= filter_sel({L})[j] and filter_sel({L})[j] < len(events) and {L}[j] is events[filter_sel({L})[j]] for j in range(len({L})))",
          "all(filter_sel({L})[j] < filter_sel({L})[j2] for j in range(len({L})) for j2 in range(j + 1, len({L})))")
LAST_DEF = ("all((last[i] == -1 and all(U[j].id != i for j in range({K})))"
            "    or (0 <= last[i] and last[i] < {K} and U[last[i]].id == i and all(U[j2].id != i for j2 in range(last[i] + 1, {K})))"
            "    for i in integers())")
UPSERTED = ("all(((last[i] == -1 or not old(in_bucket(self, i, bucket_id))) and ev_row(self, i) == old(ev_row(self, i)))"
            "    or (last[i] >= 0 and old(in_bucket(self, i, bucket_id)) and in_bucket(self, i, bucket_id)"
            "        and ev_bucketrow(self, i) == old(ev_bucketrow(self, i)) and holds(self, i, U[last[i]]))"
            "    for i in event_ids(self){COND})")

contract(
    S_ + ".insert_many",
    params={"self": "SqliteStorage", "bucket_id": "str", "events": "List[Event]"},
    locals={"events_upsert": "List[Event]", "events_insert": "List[Event]", "event_rows": "List[Tuple[str, float, float, str]]"},
    requires=["lazy_inv(self)"],
    ghost_vars={"U": ("List[Event]", "[]"), "N": ("List[Event]", "[]"), "last": ("IntMap", "mnew()")},
    ghost_returns={"U": "List[Event]", "N": "List[Event]", "last": "IntMap"},      # (witnesses of the postcondition, for callers)
    ghost_code=[dict(after="events_upsert = [", code="U = events_upsert"),
                dict(after="events_insert = [", code="N = events_insert")],
    ensures=[
        BUCKETS_SAME, "lazy_inv(self)",
        # U / N: the order-preserving sub-sequences of the events with / without an id
        SUBSEQ[0].format(L="U"), SUBSEQ[1].format(L="U"), "all(U[j].id is not None for j in range(len(U)))",
        "all(events[i].id is None or (0 <= filter_pos(U)[i] and filter_pos(U)[i] < len(U) and filter_sel(U)[filter_pos(U)[i]] == i)"
        "    for i in range(len(events)))",
        SUBSEQ[0].format(L="N"), SUBSEQ[1].format(L="N"), "all(N[j].id is None for j in range(len(N)))",
        "all(events[i].id is not None or (0 <= filter_pos(N)[i] and filter_pos(N)[i] < len(N) and filter_sel(N)[filter_pos(N)[i]] == i)"
        "    for i in range(len(events)))",
        LAST_DEF.format(K="len(U)"),
        # every event without an id gets a new row (ids never used before, consecutive, in order) in the addressed bucket
        "ev_max(self) == old(ev_max(self)) + len(N)",
        "all(in_bucket(self, old(ev_max(self)) + 1 + j, bucket_id) and holds(self, old(ev_max(self)) + 1 + j, N[j]) for j in range(len(N)))",
        "all(i <= old(ev_max(self)) or i > ev_max(self) or in_bucket(self, i, bucket_id) for i in event_ids(self))",      # (the same, by row id)
        # (the same, by position in the argument list: the event at position i, if it carries no id, has the row of its own)
        "all(events[i].id is not None or (0 <= filter_pos(N)[i] and filter_pos(N)[i] < len(N)"
        "    and in_bucket(self, old(ev_max(self)) + 1 + filter_pos(N)[i], bucket_id)"
        "    and holds(self, old(ev_max(self)) + 1 + filter_pos(N)[i], events[i])) for i in range(len(events)))",
        # every other row: rewritten by the last upsert addressed to it if it is a live event of the addressed bucket, else untouched
        UPSERTED.format(COND=" if i <= old(ev_max(self)) or i > ev_max(self)"),
        # C18: a pure bulk insert issued more than ten seconds after the previous flush is flushed before it returns
        "not (self.enable_lazy_commit and old(clock_now() - self.last_commit) > timedelta(seconds=10) and len(U) == 0) or pending(self) == 0",
    ],
    exc_ensures={"IntegrityError": ["not old(bucket_exists(self, bucket_id))", BUCKETS_SAME, EVENTS_SAME]},
    modifies=DBMOD, writes_fresh=CUR_FRESH, raises=["IntegrityError"],
    loops={
        0: dict(index="k", ghost_update=["last = mset(last, U[k].id, k)"], invariant=[
            "events_upsert is U and lazy_inv(self)", BUCKETS_SAME,
            "len(U) > 0 or self.last_commit == old(self.last_commit)", "self.enable_lazy_commit == old(self.enable_lazy_commit)",
            "all(U[j].id is not None for j in range(len(U)))",
            "ev_max(self) == old(ev_max(self))",
            LAST_DEF.format(K="k"),
            UPSERTED.format(COND=""),
        ]),
        1: dict(index="m", invariant=[
            "events_insert is N and len(event_rows) == m",
            "all(event_rows[j][0] == bucket_id and event_rows[j][1] == enc_start(N[j]) and event_rows[j][2] == enc_end(N[j])"
            "    and event_rows[j][3] == json.dumps(N[j].data) for j in range(m))",
        ]),
    },
)


# -- buckets(): the listing ---------------------------------------------------------------------------------------------------------
@spec
def describes(d, self, r):
    """dict d is the listing entry of bucket row r"""
    return (d['id'] == bk_id(self, r) and d['name'] == bk_col(self, r, 'name') and d['type'] == bk_col(self, r, 'type')
            and d['client'] == bk_col(self, r, 'client') and d['hostname'] == bk_col(self, r, 'hostname')
            and d['created'] == bk_col(self, r, 'created')
            and jv_dict(d['data']) == json.loads(bk_col(self, r, 'datastr') if len(bk_col(self, r, 'datastr')) > 0 else '{}'))


contract(
    S_ + ".buckets",
    params={"self": "SqliteStorage"}, returns="Dict[str,Dict[str,JV]]",
    locals={"buckets": "Dict[str,Dict[str,JV]]"},
    requires=["db_inv(self)"],
    ensures=[
        # exactly the live bucket rows are listed, each under its id with its own metadata
        "all(not bk_live(self, r) or (bk_id(self, r) in result and describes(result[bk_id(self, r)], self, r)) for r in bucket_rowids(self))",
        "all(bucket_exists(self, b) for b in result)",
        "fresh(result)", BUCKETS_SAME, EVENTS_SAME, MAXES_SAME, "pending(self) == old(pending(self)) and issued(self) == old(issued(self))",
    ],
    modifies=["alloc"], writes_fresh=CUR_FRESH + ["Dict.map:JV", "Dict.map:Dict[str,JV]"], raises=[],
    loops={0: dict(index="k", invariant=[
        "all(bucket_exists(self, b) for b in buckets)",
        "all(allocated(buckets[b]) and 'data' in buckets[b] and allocated(jv_dict(buckets[b]['data'])) for b in buckets)",
        "all(not bk_live(self, r) or not any(__seq[j][0] == bk_id(self, r) for j in range(k))"
        "    or (bk_id(self, r) in buckets and describes(buckets[bk_id(self, r)], self, r)) for r in bucket_rowids(self))",
    ])},
)


# -- C07: one step of the standard heartbeat loop, as the property states it, against the sqlite store -------------------------
# (the loop itself lives in aw-server; the property spells it out: read the newest event, try to merge the heartbeat into it,
#  then either replace the newest event with the merged one or insert the heartbeat.)  The step is a lemma over the contracts
# of get_events(limit=1), heartbeat_merge, replace_last and insert_one: callers see those contracts, not the bodies.
def heartbeat_step(storage, bucket_id, heartbeat, pulsetime):
    from aw_transform.heartbeats import heartbeat_merge
    last = storage.get_events(bucket_id, 1)
    if len(last) > 0:
        merged = heartbeat_merge(last[0], heartbeat, pulsetime)
        if merged is not None:
            storage.replace_last(bucket_id, merged)
            return merged
    storage.insert_one(bucket_id, heartbeat)
    return heartbeat


@spec
def in_range_1970(self, bucket_id):
    """every event of the bucket lies inside the window an unbounded read uses (end >= 1970, start before the sentinel 2**63-1 us by
    more than the edge tolerance - i.e. before the year 294247)"""
    return all(not in_bucket(self, i, bucket_id) or (ev_end(self, i) >= 0 and ev_start(self, i) <= 2 ** 63 - 501) for i in event_ids(self))


contract(
    "contracts.sqlite.heartbeat_step",
    params={"storage": "SqliteStorage", "bucket_id": "str", "heartbeat": "Event", "pulsetime": "float"}, returns="Event",
    requires=["lazy_inv(storage)", "in_range_1970(storage, bucket_id)", "heartbeat.id is None"],
    ghost_vars={"n": ("int", "0")},
    ghost_code=[dict(after="merged = heartbeat_merge(", code="n = last[0].id")],
    ensures=[
        # no earlier event is ever altered or lost: every row other than the newest event of the addressed bucket is as before
        "all(i == n or i > old(ev_max(storage)) or ev_row(storage, i) == old(ev_row(storage, i)) for i in event_ids(storage))",
        "all(bk_row(storage, r) == old(bk_row(storage, r)) for r in bucket_rowids(storage))", "lazy_inv(storage)",
        # n is the newest event of the bucket (the one a limit-1 read returns), or 0 when the bucket is empty / nothing merged
        "n == 0 or old(newest(storage, n, bucket_id))",
        # merged: the newest row is rewritten with the merge result, no row is added
        "result is heartbeat or (n != 0 and ev_max(storage) == old(ev_max(storage)) and in_bucket(storage, n, bucket_id) and holds(storage, n, result))",
        # not merged: the heartbeat becomes a new row (id never used before) of the bucket, and the newest row is untouched
        "result is not heartbeat or (ev_max(storage) == old(ev_max(storage)) + 1 and in_bucket(storage, ev_max(storage), bucket_id)"
        "    and holds(storage, ev_max(storage), heartbeat) and (n == 0 or ev_row(storage, n) == old(ev_row(storage, n))))",
        # the bucket was empty -> inserted
        "any(old(in_bucket(storage, i, bucket_id)) for i in event_ids(storage)) or result is heartbeat",
    ],
    modifies=["storage.last_commit", "storage.num_uncommitted_statements", "storage.conn.*", "alloc", "heartbeat.id"],
    writes_fresh=CUR_FRESH + EV_FRESH, raises=["IntegrityError"],
    exc_ensures={"IntegrityError": ["not old(bucket_exists(storage, bucket_id))"]},
)


# -- C01: what is inserted comes back (one insert followed by a lookup, as a lemma over the two contracts and lemma F3) --------------
def store_roundtrip(storage, bucket_id, event):
    stored = storage.insert_one(bucket_id, event)
    return storage.get_event(bucket_id, stored.id)


contract(
    "contracts.sqlite.store_roundtrip",
    params={"storage": "SqliteStorage", "bucket_id": "str", "event": "Event"}, returns="Optional[Event]",
    requires=["lazy_inv(storage)", "bucket_exists(storage, bucket_id)",
              # the property's domain: instants from 1970 to 2100, durations from 0 to about 30 days
              "EPOCH <= event.timestamp and event.timestamp <= EPOCH + timedelta(days=47482)",
              "timedelta(0) <= event.duration and event.duration <= timedelta(days=31)"],
    ensures=[
        "result is not None and result is not event and fresh(result) and fresh(result.data)",
        "result.id == event.id and event.id == old(ev_max(storage)) + 1",
        # the same instant (lemma F3: the float encoding of instants is lossless) and equal data (A-JSON)
        "result.timestamp == old(event.timestamp)",
        "result.data == old(event.data)",
        # the same duration, to the microsecond: both ends are encoded from their exact instants (lemma F3 twice)
        "result.duration == old(event.duration)",
    ],
    modifies=["storage.last_commit", "storage.num_uncommitted_statements", "storage.conn.*", "alloc", "event.id"],
    writes_fresh=CUR_FRESH + EV_FRESH, raises=["IntegrityError"],
    exc_ensures={"IntegrityError": ["False"]},
)


# -- the constructor: establishes the commit discipline (base case of lazy_inv) ------------------------------------------------------
contract(
    S_ + ".__init__",
    params={"self": "SqliteStorage", "testing": "bool", "filepath": "Optional[str]", "enable_lazy_commit": "bool"},
    requires=[],
    ensures=["lazy_inv(self)", "pending(self) == 0 and self.num_uncommitted_statements == 0",
             "self.enable_lazy_commit == enable_lazy_commit and self.testing == testing", "fresh(self.conn)"],
    modifies=["self.conn", "self.last_commit", "self.num_uncommitted_statements", "self.enable_lazy_commit", "self.testing", "alloc", "Event.id"],
    writes_fresh=["*"], raises=["IntegrityError"],
)


# -- C03: a stored event is returned by a windowed read when it intersects the window, edges to the millisecond (as instants; lemma F5) --
def stored_event_in_window(storage, bucket_id, event, starttime, endtime):
    storage.insert_one(bucket_id, event)
    return storage.get_events(bucket_id, -1, starttime, endtime)


contract(
    "contracts.sqlite.stored_event_in_window",
    params={"storage": "SqliteStorage", "bucket_id": "str", "event": "Event", "starttime": "Optional[datetime]", "endtime": "Optional[datetime]"},
    returns="List[Event]",
    requires=["lazy_inv(storage)", "bucket_exists(storage, bucket_id)",
              "EPOCH <= event.timestamp and event.timestamp <= EPOCH + timedelta(days=47482)",
              "timedelta(0) <= event.duration and event.duration <= timedelta(days=31)",
              "starttime is None or (EPOCH <= starttime and starttime <= EPOCH + timedelta(days=47513))",
              "endtime is None or (EPOCH <= endtime and endtime <= EPOCH + timedelta(days=47513))"],
    ensures=[
        # returned whenever the event's time span [start, end] reaches into the window [starttime, endtime] by at least a millisecond,
        # and only if it comes within a millisecond of it (as instants; between the two the property leaves the answer open)
        "not ((starttime is None or starttime + timedelta(milliseconds=1) <= old(event.timestamp + event.duration))"
        "     and (endtime is None or old(event.timestamp) + timedelta(milliseconds=1) <= endtime))"
        " or any(result[j].id == event.id for j in range(len(result)))",
        "not any(result[j].id == event.id for j in range(len(result)))"
        " or ((starttime is None or starttime - timedelta(milliseconds=1) <= old(event.timestamp + event.duration))"
        "     and (endtime is None or old(event.timestamp) - timedelta(milliseconds=1) <= endtime))",
        # and then with its own instant and duration
        "all(result[j].id != event.id or (result[j].timestamp == old(event.timestamp) and result[j].duration == old(event.duration))"
        "    for j in range(len(result)))",
    ],
    modifies=["storage.last_commit", "storage.num_uncommitted_statements", "storage.conn.*", "alloc", "event.id"],
    writes_fresh=CUR_FRESH + EV_FRESH, raises=["IntegrityError"],
    exc_ensures={"IntegrityError": ["False"]},
)


# -- update_bucket: the SQL text is assembled from the fields supplied; verified per combination of supplied fields ------------------
@spec
def kept_or(new, supplied, old_value):
    return new == (supplied if supplied is not None else old_value)


contract(
    S_ + ".update_bucket",
    params={"self": "SqliteStorage", "bucket_id": "str", "type_id": "Optional[str]", "client": "Optional[str]", "hostname": "Optional[str]",
            "name": "Optional[str]", "data": "Optional[Dict[str,JV]]"},
    returns="Dict[str,JV]",
    requires=["lazy_inv(self)"],
    case_split=["type_id", "client", "hostname", "name", "data"],       # each Optional parameter: None / not None (32 cases)
    ensures=[
        "old(bucket_exists(self, bucket_id))",
        # only the fields supplied change, and only in the addressed bucket row; no bucket appears or disappears; events untouched
        "all(bk_live(self, r) == old(bk_live(self, r)) and bk_id(self, r) == old(bk_id(self, r))"
        "    and bk_col(self, r, 'created') == old(bk_col(self, r, 'created'))"
        "    and (not (bk_live(self, r) and bk_id(self, r) == bucket_id) or ("
        "        bk_col(self, r, 'type') == (type_id if type_id is not None else old(bk_col(self, r, 'type')))"
        "        and bk_col(self, r, 'client') == (client if client is not None else old(bk_col(self, r, 'client')))"
        "        and bk_col(self, r, 'hostname') == (hostname if hostname is not None else old(bk_col(self, r, 'hostname')))"
        "        and (name is None or bk_col(self, r, 'name') == name) and (name is not None or bk_col(self, r, 'name') == old(bk_col(self, r, 'name')))"
        "        and bk_col(self, r, 'datastr') == (json.dumps(data) if data is not None else old(bk_col(self, r, 'datastr')))))"
        "    and ((bk_live(self, r) and bk_id(self, r) == bucket_id) or bk_row(self, r) == old(bk_row(self, r)))"
        "    for r in bucket_rowids(self))",
        EVENTS_SAME, MAXES_SAME, "pending(self) == 0 and lazy_inv(self)",
    ],
    exc_ensures={"ValueError": [BUCKETS_SAME, EVENTS_SAME]},
    modifies=DBMOD, writes_fresh=CUR_FRESH + ["Dict.map:JV"], raises=["ValueError"],
)
