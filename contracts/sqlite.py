"""C02/C04/C05/C06/C18 - contracts for aw_datastore/storages/sqlite.py over the table state of the connection.

The storage object's abstract view is the pair of tables (pyvc/sqlsem.py).  Every contract carries the frame over the
*whole* view: `all(i == target or ev_row(self, i) == old(ev_row(self, i)) for i in event_ids(self))` says that every
event row of every bucket other than the addressed one is exactly as before, which is what C04 needs; C02's reference
list operation is the statement about the addressed row; C06/C18 are the clauses over pending(self)/ncommits(self).
"""
import json
from datetime import timedelta
from pyvc.specrt import *  # noqa: F401,F403
from pyvc.api import contract, spec, classdef

S_ = "aw_datastore.storages.sqlite.SqliteStorage"
classdef("sqlite3.Connection", fields={})
classdef("sqlite3.Cursor", fields={"rowcount": "int", "lastrowid": "int", "conn": "sqlite3.Connection"})
classdef(S_, fields={"conn": "sqlite3.Connection", "last_commit": "datetime", "num_uncommitted_statements": "int",
                     "enable_lazy_commit": "bool", "testing": "bool"})


@spec
def enc_start(event):
    """The float the code stores as starttime."""
    return event.timestamp.timestamp() * 1000000


@spec
def enc_end(event):
    return event.timestamp.timestamp() * 1000000 + (event.duration.total_seconds() * 1000000)


@spec
def lazy_inv(self):
    """Commit discipline of the lazily committing store: the statement counter bounds the pending writes."""
    return (db_inv(self) and pending(self) >= 0
            and (not self.enable_lazy_commit or (pending(self) <= self.num_uncommitted_statements
                                                 and 0 <= self.num_uncommitted_statements and self.num_uncommitted_statements <= 50))
            and (self.enable_lazy_commit or pending(self) == 0))


BUCKETS_SAME = "all(bk_row(self, r) == old(bk_row(self, r)) for r in bucket_rowids(self))"
EVENTS_SAME = "all(ev_row(self, i) == old(ev_row(self, i)) for i in event_ids(self))"

# -- commit / conditional_commit (C06, C18) ---------------------------------------------------------------------
contract(
    S_ + ".commit",
    params={"self": "SqliteStorage"}, requires=["db_inv(self)"],
    ensures=["pending(self) == 0 and self.num_uncommitted_statements == 0 and ncommits(self) == old(ncommits(self)) + 1",
             "issued(self) == old(issued(self)) and db_inv(self)", BUCKETS_SAME, EVENTS_SAME,
             "self.enable_lazy_commit == old(self.enable_lazy_commit)"],
    modifies=["self.last_commit", "self.num_uncommitted_statements", "self.conn.committed", "self.conn.ncommits"], raises=[],
)
contract(
    S_ + ".conditional_commit",
    params={"self": "SqliteStorage", "num_statements": "int"},
    requires=["db_inv(self)", "num_statements >= 0",
              # on entry the statements just issued are not yet counted
              "not self.enable_lazy_commit or (0 <= self.num_uncommitted_statements and self.num_uncommitted_statements <= 50"
              "    and pending(self) <= self.num_uncommitted_statements + num_statements)"],
    ensures=["lazy_inv(self)", "issued(self) == old(issued(self))", BUCKETS_SAME, EVENTS_SAME,
             "self.enable_lazy_commit == old(self.enable_lazy_commit)",
             # C18: a write issued more than ten seconds after the previous flush is flushed before it returns
             "not (self.enable_lazy_commit and old(clock_now() - self.last_commit) > timedelta(seconds=10)) or pending(self) == 0",
             "ncommits(self) <= old(ncommits(self)) + 2"],
    modifies=["self.last_commit", "self.num_uncommitted_statements", "self.conn.committed", "self.conn.ncommits"], raises=[],
)


# -- vocabulary ----------------------------------------------------------------------------------------------------
@spec
def in_bucket(self, i, bucket_id):
    """event row i is a live event of the bucket called bucket_id"""
    return ev_live(self, i) and bk_live(self, ev_bucketrow(self, i)) and ev_bucket(self, i) == bucket_id


@spec
def before(self, i, k):
    """row i precedes row k in the order of reads (starttime desc, endtime desc, id desc)"""
    return (ev_start(self, i) > ev_start(self, k)
            or (ev_start(self, i) == ev_start(self, k)
                and (ev_end(self, i) > ev_end(self, k) or (ev_end(self, i) == ev_end(self, k) and i > k))))


@spec
def newest(self, i, bucket_id):
    """row i is the event a limit-1 read of the bucket returns"""
    return in_bucket(self, i, bucket_id) and all(not in_bucket(self, k, bucket_id) or k == i or before(self, i, k)
                                                 for k in event_ids(self))


@spec
def holds(self, i, event):
    """row i holds the encoding of `event`"""
    return ev_start(self, i) == enc_start(event) and ev_end(self, i) == enc_end(event) and ev_data(self, i) == json.dumps(event.data)


EV_UNCHANGED = ("event.timestamp == old(event.timestamp) and event.duration == old(event.duration) and event.data == old(event.data)")

# -- delete ------------------------------------------------------------------------------------------------------------
contract(
    S_ + ".delete",
    params={"self": "SqliteStorage", "bucket_id": "str", "event_id": "int"}, returns="bool",
    requires=["lazy_inv(self)"],
    ensures=[
        "result == old(in_bucket(self, event_id, bucket_id))",
        # exactly the addressed event is removed; every other row of every bucket is as before
        "all((i == event_id and old(in_bucket(self, i, bucket_id)) and not ev_live(self, i)) "
        "    or (not (i == event_id and old(in_bucket(self, i, bucket_id))) and ev_row(self, i) == old(ev_row(self, i)))"
        "    for i in event_ids(self))",
        BUCKETS_SAME, "lazy_inv(self)",
    ],
    modifies=["heap"], raises=[],
)

# -- replace ------------------------------------------------------------------------------------------------------------
contract(
    S_ + ".replace",
    params={"self": "SqliteStorage", "bucket_id": "str", "event_id": "int", "event": "Event"}, returns="bool",
    requires=["lazy_inv(self)"],
    ensures=[
        "all((i == event_id and old(in_bucket(self, i, bucket_id)) and in_bucket(self, i, bucket_id) and holds(self, i, event)"
        "     and ev_bucketrow(self, i) == old(ev_bucketrow(self, i)))"
        "    or (not (i == event_id and old(in_bucket(self, i, bucket_id))) and ev_row(self, i) == old(ev_row(self, i)))"
        "    for i in event_ids(self))",
        BUCKETS_SAME, "lazy_inv(self)", EV_UNCHANGED,
    ],
    modifies=["heap"], raises=[],
)

# -- replace_last ----------------------------------------------------------------------------------------------------------
contract(
    S_ + ".replace_last",
    params={"self": "SqliteStorage", "bucket_id": "str", "event": "Event"}, returns="bool",
    requires=["lazy_inv(self)"],
    ensures=[
        # exactly the event a limit-1 read returns is rewritten (keeping its id and bucket), nothing else is touched
        "all((old(newest(self, i, bucket_id)) and in_bucket(self, i, bucket_id) and holds(self, i, event)"
        "     and ev_bucketrow(self, i) == old(ev_bucketrow(self, i)))"
        "    or (not old(newest(self, i, bucket_id)) and ev_row(self, i) == old(ev_row(self, i)))"
        "    for i in event_ids(self))",
        BUCKETS_SAME, "lazy_inv(self)", EV_UNCHANGED,
    ],
    modifies=["heap"], raises=[],
)

# -- insert_one ---------------------------------------------------------------------------------------------------------------
contract(
    S_ + ".insert_one",
    params={"self": "SqliteStorage", "bucket_id": "str", "event": "Event"}, returns="Event",
    requires=["lazy_inv(self)"],
    ensures=[
        "result is event and event.id is not None",
        # a new row with an id never used before, in the addressed bucket, holding the event; nothing else is touched
        "event.id == old(ev_max(self)) + 1 and not old(ev_live(self, ev_max(self) + 1)) and ev_max(self) == event.id",
        "in_bucket(self, event.id, bucket_id) and holds(self, event.id, event)",
        "all(i == event.id or ev_row(self, i) == old(ev_row(self, i)) for i in event_ids(self))",
        BUCKETS_SAME, "lazy_inv(self)", EV_UNCHANGED,
    ],
    exc_ensures={"IntegrityError": ["not old(bucket_exists(self, bucket_id))", EVENTS_SAME, BUCKETS_SAME, "pending(self) == old(pending(self))"]},
    modifies=["heap", "event.id"], raises=["IntegrityError"],
)
