"""Contracts for selfcases/cases.py: key -> (expected verdict).  `:ok` variants must be discharged, `:bad*` variants must
leave at least one obligation undischarged."""
from pyvc.specrt import *  # noqa: F401,F403
from pyvc.api import contract, classdef

C = "selfcases.cases."
classdef(C + "Box", fields={"v": "int", "w": "int"})

DISTINCT = "all(boxes[a] is not boxes[b] for a in range(len(boxes)) for b in range(a + 1, len(boxes)))"
ALLOC = "all(allocated(boxes[a]) for a in range(len(boxes)))"
# -- loop frame: every element is written ---------------------------------------------------------------------------------------
contract(C + "bump_all:ok", params={"boxes": "List[Box]"}, returns="List[Box]", requires=[DISTINCT, ALLOC],
         ensures=["all(boxes[j].v == old(boxes[j].v) + 1 for j in range(len(boxes)))"],
         modifies=["Box.v"], raises=[],
         loops={0: dict(index="k", invariant=["all(boxes[j].v == old(boxes[j].v) + 1 for j in range(k))",
                                              "all(boxes[j].v == old(boxes[j].v) for j in range(k, len(boxes)))"])})
# wrong: "only the first element changes" (accepted if the loop havoc touched one symbolic cell only)
contract(C + "bump_all:bad-frame", params={"boxes": "List[Box]"}, returns="List[Box]", requires=[DISTINCT, ALLOC, "len(boxes) >= 2"],
         ensures=["boxes[0].v == old(boxes[0].v) or boxes[1].v == old(boxes[1].v)"],      # "at most one cell changed"
         modifies=["Box.v"], raises=[],
         loops={0: dict(index="k", invariant=["k >= 0"])})
# -- modifies too narrow ------------------------------------------------------------------------------------------------------------
contract(C + "sneaky:ok", params={"b": "Box", "c": "Box"}, returns="int", requires=[], ensures=["c.v == 3"],
         modifies=["c.v"], raises=[])
contract(C + "sneaky:bad-modifies", params={"b": "Box", "c": "Box"}, returns="int", requires=[], ensures=["result == old(b.v) or b is c"],
         modifies=[], raises=[])
# -- a heap field first used after the call that writes it ---------------------------------------------------------------------------
contract(C + "set_w", params={"b": "Box"}, requires=[], ensures=["b.w == 5"], modifies=["b.*"], raises=[])
contract(C + "caller_of_set_w:ok", params={"b": "Box"}, returns="int", requires=[], ensures=["result == 5"], modifies=["b.*"], raises=[])
contract(C + "caller_of_set_w:bad-vacuous", params={"b": "Box"}, returns="int", requires=[], ensures=["result == 6"], modifies=["b.*"], raises=[])
# -- allocation: fresh objects need writes_fresh ----------------------------------------------------------------------------------------
contract(C + "make_box:ok", params={}, returns="Box", requires=[], ensures=["fresh(result) and result.v == 1"],
         modifies=["alloc"], writes_fresh=[C + "Box.v", C + "Box.w"], raises=[])
contract(C + "make_box:bad-nofresh", params={}, returns="Box", requires=[], ensures=["result.v == 1"],
         modifies=["alloc"], raises=[])
# -- index out of range is an obligation -------------------------------------------------------------------------------------------------
contract(C + "touch_one:ok", params={"boxes": "List[Box]", "i": "int"}, requires=["0 <= i and i < len(boxes)"], ensures=["boxes[i].v == 7"],
         modifies=["Box.v"], raises=[])
contract(C + "touch_one:bad-index", params={"boxes": "List[Box]", "i": "int"}, requires=[], ensures=[],
         modifies=["Box.v"], raises=[])
# -- termination -----------------------------------------------------------------------------------------------------------------------------
contract(C + "count_down:ok", params={"n": "int"}, returns="int", requires=[], ensures=["result <= 0 and (old(n) <= 0 or result == 0)"],
         modifies=[], raises=[], loops={0: dict(invariant=["n >= 0 or n == old(n)"], decreases="n")})
contract(C + "count_down:bad-variant", params={"n": "int"}, returns="int", requires=[], ensures=[],
         modifies=[], raises=[], loops={0: dict(invariant=[], decreases="-n")})
