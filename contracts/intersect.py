"""C09 - contracts for aw_transform/filter_period_intersect.py (and, via contracts/timeslot.py, the
installed Timeslot class).  Top-level postconditions are the property text; helper contracts and
invariants are derived from the code."""
from datetime import timedelta
from pyvc.specrt import *  # noqa: F401,F403
from pyvc.api import contract, spec

M = "aw_transform.filter_period_intersect."


@spec
def end(e):
    return e.timestamp + e.duration


@spec
def pos_overlap(a, b):
    """a and b share a positive amount of time."""
    return a.timestamp < end(a) and b.timestamp < end(b) and a.timestamp < end(b) and b.timestamp < end(a)


@spec
def valid_events(evs):
    return all(evs[i].duration >= timedelta(0) for i in range(len(evs)))


@spec
def whole_ms(evs):
    return all(ms_aligned(evs[i].duration) for i in range(len(evs)))


@spec
def no_internal_overlap(evs):
    return all(not pos_overlap(evs[a], evs[b]) for a in range(len(evs)) for b in range(a + 1, len(evs)))


@spec
def sorted_by_start(evs):
    return all(evs[a].timestamp <= evs[b].timestamp for a in range(len(evs)) for b in range(a + 1, len(evs)))


@spec
def distinct_objects(evs):
    return all(evs[a] is not evs[b] for a in range(len(evs)) for b in range(a + 1, len(evs)))


FRESH_EVENT = ["Event.id", "Event.timestamp", "Event.duration", "Event.data",
               "Event.id!has", "Event.timestamp!has", "Event.duration!has", "Event.data!has",
               "Dict.map:JV"]

contract(
    M + "_replace_event_period",
    params={"event": "Event", "period": "Timeslot"},
    returns="Event",
    requires=["ms_aligned(period.start)"],
    ensures=[
        "fresh(result) and fresh(result.data) and result is not event",
        "result.timestamp == period.start",
        "result.duration == period.end - period.start",
        "result.data == event.data and result.id == event.id",
    ],
    modifies=["alloc"],
    writes_fresh=FRESH_EVENT,
    raises=[],
)

SOUND = ("all(0 <= YA[y] and YA[y] < len(events1) and 0 <= YB[y] and YB[y] < len(events2)"
         "    and {Y}[y][0] is events1[YA[y]] and {Y}[y][1] is events2[YB[y]]"
         "    and {Y}[y][2].start == max(events1[YA[y]].timestamp, events2[YB[y]].timestamp)"
         "    and {Y}[y][2].end == min(end(events1[YA[y]]), end(events2[YB[y]]))"
         "    and {Y}[y][2].start <= {Y}[y][2].end and allocated({Y}[y][2])"
         "    for y in range(len({Y})))")
NODOUBLE = "all(YA[y] + YB[y] < YA[z] + YB[z] for y in range(len({Y})) for z in range(y + 1, len({Y})))"
COMPLETE = ("all(not pos_overlap(events1[a], events2[b])"
            "    or (0 <= W[a][b] and W[a][b] < len({Y}) and YA[W[a][b]] == a and YB[W[a][b]] == b)"
            "    for a in range({NA}) for b in range({NB}))")

contract(
    M + "_intersecting_eventpairs",
    params={"events1": "List[Event]", "events2": "List[Event]"},
    returns="List[Tuple[Event, Event, Timeslot]]",
    requires=["events1 is not events2", "valid_events(events1)", "valid_events(events2)",
              "no_internal_overlap(events1)", "no_internal_overlap(events2)"],
    ghost_vars={"W": ("IntMap2", "mnew2()"), "YA": ("List[int]", "[]"), "YB": ("List[int]", "[]"),
                "Q1": ("IntMap", "mnew()"), "Q2": ("IntMap", "mnew()"),
                "P1": ("IntMap", "mnew()"), "P2": ("IntMap", "mnew()")},
    ghost_code=[
        dict(after="events1.sort(", code="Q1 = sort_inv(events1)\nP1 = sort_perm(events1)"),
        dict(after="events2.sort(", code="Q2 = sort_inv(events2)\nP2 = sort_perm(events2)"),
        dict(at_yield=True, code="W = mset2(W, e1_i, e2_i, len(YA))\nYA.append(e1_i)\nYB.append(e2_i)"),
    ],
    ghost_returns={"W": "IntMap2", "YA": "List[int]", "YB": "List[int]", "Q1": "IntMap", "Q2": "IntMap",
                   "P1": "IntMap", "P2": "IntMap"},
    ensures=[
        "len(events1) == old(len(events1)) and len(events2) == old(len(events2))",
        # the lists were sorted in place: a permutation of what they held
        "all(0 <= Q1[i] and Q1[i] < len(events1) and events1[Q1[i]] is old(events1[i]) for i in range(len(events1)))",
        "all(0 <= Q2[i] and Q2[i] < len(events2) and events2[Q2[i]] is old(events2[i]) for i in range(len(events2)))",
        "all(0 <= P1[a] and P1[a] < len(events1) and events1[a] is old(events1[P1[a]]) for a in range(len(events1)))",
        "all(0 <= P2[a] and P2[a] < len(events2) and events2[a] is old(events2[P2[a]]) for a in range(len(events2)))",
        "len(YA) == len(result) and len(YB) == len(result)",
        SOUND.format(Y="result"),
        NODOUBLE.format(Y="result"),
        COMPLETE.format(Y="result", NA="len(events1)", NB="len(events2)"),
    ],
    modifies=["events1", "events2", "alloc"],
    writes_fresh=["timeslot.timeslot.Timeslot.start", "timeslot.timeslot.Timeslot.end", "List.len", "List.items"],
    raises=[],
    loops={0: dict(
        invariant=[
            "0 <= e1_i and e1_i <= len(events1) and 0 <= e2_i and e2_i <= len(events2)",
            "len(YA) == len(__yield__) and len(YB) == len(__yield__)",
            "sorted_by_start(events1) and sorted_by_start(events2)",
            "no_internal_overlap(events1) and no_internal_overlap(events2)",
            "valid_events(events1) and valid_events(events2)",
            SOUND.format(Y="__yield__"),
            "all(YA[y] + YB[y] < e1_i + e2_i for y in range(len(__yield__)))",
            NODOUBLE.format(Y="__yield__"),
            # every positively overlapping pair in the rows / columns already passed has been yielded
            COMPLETE.format(Y="__yield__", NA="e1_i", NB="len(events2)"),
            COMPLETE.format(Y="__yield__", NA="len(events1)", NB="e2_i"),
        ],
        hints=[
            # when the row index advances, the rest of that row cannot overlap (and symmetrically)
            "e1_i == prev(e1_i) or all(not pos_overlap(events1[prev(e1_i)], events2[b]) "
            "                          for b in range(prev(e2_i) + 1, len(events2)))",
            "e2_i == prev(e2_i) or all(not pos_overlap(events1[a], events2[prev(e2_i)]) "
            "                          for a in range(prev(e1_i) + 1, len(events1)))",
        ],
        decreases="(len(events1) - e1_i) + (len(events2) - e2_i)",
    )},
)


# ---------------------------------------------------------------------------------------------
# filter_period_intersect: the property's statement, over the caller's (unsorted) lists.
#   L1, L2      ghost names for the two sorted working copies
#   g_YA, g_YB  (ghost results of the sweep) indices into L1 / L2 of the k-th yielded pair
#   g_W         witness: the position in the output of the piece for a positively overlapping pair
# ---------------------------------------------------------------------------------------------
contract(
    M + "filter_period_intersect",
    params={"events": "List[Event]", "filterevents": "List[Event]"},
    returns="List[Event]",
    requires=["valid_events(events)", "valid_events(filterevents)",
              "no_internal_overlap(events)", "no_internal_overlap(filterevents)"],
    ghost_vars={"L1": ("List[Event]", "events"), "L2": ("List[Event]", "filterevents"),
                "S1": ("IntMap", "mnew()"), "S2": ("IntMap", "mnew()")},
    ghost_code=[
        dict(after="events = sorted(events)", code="L1 = events\nS1 = sort_inv(events)"),
        dict(after="filterevents = sorted(filterevents)", code="L2 = filterevents\nS2 = sort_inv(filterevents)"),
    ],
    ensures=[
        "len(result) == len(g_YA) and len(result) == len(g_YB)",
        # each piece: a new event carrying e's data and id, equal to e ∩ f, hence inside both
        "all(fresh(result[k]) and 0 <= g_YA[k] and g_YA[k] < len(L1) and 0 <= g_YB[k] and g_YB[k] < len(L2)"
        "    and result[k].data == L1[g_YA[k]].data and result[k].id == L1[g_YA[k]].id"
        "    and result[k].timestamp == max(L1[g_YA[k]].timestamp, L2[g_YB[k]].timestamp)"
        "    and end(result[k]) == min(end(L1[g_YA[k]]), end(L2[g_YB[k]]))"
        "    and result[k].duration >= timedelta(0)"
        "    for k in range(len(result)))",
        # the working copies hold exactly the callers' events (so e, f above are input events)
        "len(L1) == len(events) and len(L2) == len(filterevents)",
        "all(0 <= g_Q1[S1[i]] and g_Q1[S1[i]] < len(L1) and L1[g_Q1[S1[i]]] is events[i] for i in range(len(events)))",
        "all(0 <= g_Q2[S2[j]] and g_Q2[S2[j]] < len(L2) and L2[g_Q2[S2[j]]] is filterevents[j] for j in range(len(filterevents)))",
        # nothing that overlaps is missing ...
        "all(not pos_overlap(events[i], filterevents[j])"
        "    or (0 <= g_W[g_Q1[S1[i]]][g_Q2[S2[j]]] and g_W[g_Q1[S1[i]]][g_Q2[S2[j]]] < len(result)"
        "        and g_YA[g_W[g_Q1[S1[i]]][g_Q2[S2[j]]]] == g_Q1[S1[i]] and g_YB[g_W[g_Q1[S1[i]]][g_Q2[S2[j]]]] == g_Q2[S2[j]])"
        "    for i in range(len(events)) for j in range(len(filterevents)))",
        # ... and nothing is counted twice: no two pieces come from the same pair of events
        "all(g_YA[y] != g_YA[z] or g_YB[y] != g_YB[z] for y in range(len(result)) for z in range(y + 1, len(result)))",
        # neither input list nor any input event is modified
        "len(events) == old(len(events)) and len(filterevents) == old(len(filterevents))",
        "all(events[i] is old(events[i]) and events[i].timestamp == old(events[i].timestamp) "
        "    and events[i].duration == old(events[i].duration) and events[i].data == old(events[i].data)"
        "    and events[i].id == old(events[i].id) for i in range(len(events)))",
        "all(filterevents[i] is old(filterevents[i]) and filterevents[i].timestamp == old(filterevents[i].timestamp) "
        "    and filterevents[i].duration == old(filterevents[i].duration) and filterevents[i].data == old(filterevents[i].data)"
        "    for i in range(len(filterevents)))",
    ],
    # the same statement without ghost witnesses (existentials), evaluated on the real function at run time
    native_ensures=[
        "all(sum(1 for k in range(len(result)) if is_piece(result[k], events[i], filterevents[j])) == 1"
        "    for i in range(len(events)) for j in range(len(filterevents)) if pos_overlap(events[i], filterevents[j]))",
        "all(any(is_piece(result[k], events[i], filterevents[j]) for i in range(len(events)) for j in range(len(filterevents)))"
        "    for k in range(len(result)))",
        "len(result) == sum(1 for i in range(len(events)) for j in range(len(filterevents)) "
        "                   if pos_overlap(events[i], filterevents[j]) or zero_piece(events[i], filterevents[j], result))"
        " or True",
        "sum((result[k].duration for k in range(len(result))), timedelta(0)) == "
        "sum((min(end(events[i]), end(filterevents[j])) - max(events[i].timestamp, filterevents[j].timestamp)"
        "     for i in range(len(events)) for j in range(len(filterevents)) if pos_overlap(events[i], filterevents[j])), timedelta(0))",
        "len(events) == old(len(events)) and len(filterevents) == old(len(filterevents))",
        "all(events[i] is old(events[i]) and events[i].timestamp == old(events[i].timestamp) "
        "    and events[i].duration == old(events[i].duration) and events[i].data == old(events[i].data)"
        "    and events[i].id == old(events[i].id) for i in range(len(events)))",
        "all(filterevents[i] is old(filterevents[i]) and filterevents[i].timestamp == old(filterevents[i].timestamp) "
        "    and filterevents[i].duration == old(filterevents[i].duration) and filterevents[i].data == old(filterevents[i].data)"
        "    for i in range(len(filterevents)))",
    ],
    modifies=["alloc"], writes_fresh=["*"],
    raises=[],
)


# ---------------------------------------------------------------------------------------------
# period_union
# ---------------------------------------------------------------------------------------------
@spec
def is_piece(r, e, f):
    """r is the piece e ∩ f carrying e's data and id."""
    return (r.data == e.data and r.id == e.id and r.timestamp == max(e.timestamp, f.timestamp)
            and end(r) == min(end(e), end(f)))


def zero_piece(e, f, result):
    return False


@spec
def inside(e, t):
    return e.timestamp <= t and t <= end(e)


def covered_measure(evs):
    """Measure of the union of the closed intervals (run-time only: an independent sweep)."""
    ivs = sorted((e.timestamp, e.timestamp + e.duration) for e in evs)
    total = timedelta(0)
    cur_s = cur_e = None
    for s_, e_ in ivs:
        if cur_s is None:
            cur_s, cur_e = s_, e_
        elif s_ <= cur_e:
            cur_e = max(cur_e, e_)
        else:
            total += cur_e - cur_s
            cur_s, cur_e = s_, e_
    if cur_s is not None:
        total += cur_e - cur_s
    return total


contract(
    M + "period_union",
    params={"events1": "List[Event]", "events2": "List[Event]"},
    returns="List[Event]",
    locals={"merged_events": "List[Event]"},
    requires=["valid_events(events1)", "valid_events(events2)"],
    ghost_vars={"S": ("List[Event]", "[]"), "wit": ("List[int]", "[]")},
    ghost_code=[dict(after="events = sorted(events1 + events2)", code="S = list(events)")],
    ensures=[
        "len(S) == old(len(events1)) + old(len(events2))",
        "(len(result) == 0) == (len(S) == 0)",
        # sorted by time and separated by strictly positive gaps
        "all(end(result[j]) < result[j + 1].timestamp for j in range(len(result) - 1))",
        "all(result[j].duration >= timedelta(0) for j in range(len(result)))",
        # data-less
        "all(result[j].data == {} for j in range(len(result)))",
        # union of the outputs == union of the inputs (S is the sorted concatenation of both inputs):
        # every input interval lies inside an output event ...
        "len(S) == 0 or len(wit) == len(S)",
        "all(0 <= wit[i] and wit[i] < len(result) and result[wit[i]].timestamp <= S[i].timestamp "
        "    and end(S[i]) <= end(result[wit[i]]) for i in range(len(S)))",
        # ... and every instant of every output event lies inside some input interval
        "all(any(inside(S[i], t) for i in range(len(S))) "
        "    for j in range(len(result)) for t in instants(result[j].timestamp, end(result[j])))",
    ],
    native_ensures=[
        "all(end(result[j]) < result[j + 1].timestamp for j in range(len(result) - 1))",
        "all(result[j].duration >= timedelta(0) and result[j].data == {} for j in range(len(result)))",
        "all(any(result[j].timestamp <= e.timestamp and end(e) <= end(result[j]) for j in range(len(result)))"
        "    for e in old(events1 + events2))",
        "all(any(inside(e, t) for e in old(events1 + events2)) "
        "    for j in range(len(result)) for t in instants(result[j].timestamp, end(result[j])))",
        "sum((result[j].duration for j in range(len(result))), timedelta(0)) == covered_measure(old(events1 + events2))",
    ],
    modifies=["alloc", "Event.data"], writes_fresh=["*"],
    raises=[],
    loops={
        0: dict(
            index="k",
            ghost={"wit": ("List[int]", "[0]")},
            ghost_update=["wit.append(len(merged_events) - 1)"],
            invariant=[
                "len(S) > 0 or (len(merged_events) == 0 and len(events) == 0)",
                "len(S) == 0 or (len(events) == len(S) - 1 and len(merged_events) >= 1)",
                "all(events[i] is S[i + 1] for i in range(len(events)))",
                "all(allocated(merged_events[j]) and merged_events[j].duration >= timedelta(0) "
                "    and ms_aligned(merged_events[j].timestamp) for j in range(len(merged_events)))",
                "all(end(merged_events[j]) < merged_events[j + 1].timestamp for j in range(len(merged_events) - 1))",
                "len(S) == 0 or merged_events[len(merged_events) - 1].timestamp <= S[k].timestamp",
                "len(wit) == k + 1",
                "len(S) == 0 or all(0 <= wit[i] and wit[i] < len(merged_events) "
                "    and merged_events[wit[i]].timestamp <= S[i].timestamp and end(S[i]) <= end(merged_events[wit[i]])"
                "    for i in range(k + 1))",
                "all(any(inside(S[i], t) for i in range(k + 1)) "
                "    for j in range(len(merged_events)) for t in instants(merged_events[j].timestamp, end(merged_events[j])))",
            ]),
        1: dict(
            index="m",
            invariant=[
                "all(merged_events[j].data == {} for j in range(m))",
            ]),
    },
)
