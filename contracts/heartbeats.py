"""C08 - contracts for aw_transform/heartbeats.py.  Top-level postconditions are the property text."""
from datetime import timedelta
from pyvc.specrt import *  # noqa: F401,F403
from pyvc.api import contract, spec


@spec
def end(e):
    return e.timestamp + e.duration


@spec
def mergeable(a, b, pulsetime):
    """The property's rule, verbatim: equal data, b starts no earlier than a and no later than a's end
    plus the pulsetime, and a's duration is not negative."""
    return (a.data == b.data
            and a.timestamp <= b.timestamp
            and b.timestamp <= a.timestamp + a.duration + timedelta(seconds=pulsetime)
            and a.duration >= timedelta(0))


contract(
    "aw_transform.heartbeats.heartbeat_merge",
    params={"last_event": "Event", "heartbeat": "Event", "pulsetime": "float"},
    returns="Optional[Event]",
    requires=[],
    ensures=[
        # merge iff the rule says so
        "(result is not None) == old(mergeable(last_event, heartbeat, pulsetime))",
        # merged event: the first one, same start, same data, ends at the later end
        "result is None or result is last_event",
        "result is None or last_event.timestamp == old(last_event.timestamp)",
        "result is None or last_event.data == old(last_event.data)",
        "result is None or end(last_event) == max(old(end(last_event)), old(end(heartbeat)))",
        # never shortens
        "result is None or last_event.duration >= old(last_event.duration)",
        # no merge -> nothing changed;  the heartbeat is never touched
        "result is not None or (last_event.timestamp == old(last_event.timestamp) "
        "and last_event.duration == old(last_event.duration) and last_event.data == old(last_event.data))",
        "heartbeat.timestamp == old(heartbeat.timestamp) and heartbeat.duration == old(heartbeat.duration) "
        "and heartbeat.data == old(heartbeat.data)",
        "last_event.id == old(last_event.id) and heartbeat.id == old(heartbeat.id)",
    ],
    modifies=["last_event.duration"],
    raises=[],
)


@spec
def covers(r, e_data, e_start, e_end):
    return r.data == e_data and r.timestamp <= e_start and e_end <= r.timestamp + r.duration


@spec
def normal_form(evs, n, pulsetime):
    """No two consecutive events are mergeable."""
    return all(not mergeable(evs[j], evs[j + 1], pulsetime) for j in range(n - 1))


@spec
def distinct_objects(evs):
    return all(evs[a] is not evs[b] for a in range(len(evs)) for b in range(a + 1, len(evs)))


contract(
    "aw_transform.heartbeats.heartbeat_reduce",
    params={"events": "List[Event]", "pulsetime": "float"},
    returns="List[Event]",
    locals={"reduced": "List[Event]"},
    requires=["distinct_objects(events)"],
    ensures=[
        "(len(result) == 0) == (old(len(events)) == 0)",
        # normal form: no two consecutive output events are mergeable
        "normal_form(result, len(result), pulsetime)",
        # every input interval of non-negative length is covered by an output event with its data
        "all(old(events[i].duration) < timedelta(0) or "
        "    any(covers(result[j], old(events[i].data), old(events[i].timestamp), old(end(events[i])))"
        "        for j in range(len(result)))"
        "    for i in range(old(len(events))))",
        # output events are input objects, in input order (a sub-sequence), the first input first
        "old(len(events)) == 0 or result[0] is old(events[0])",
        # starts and data of events are never changed (merging never moves an event)
        "all(old(events[i]).timestamp == old(events[i].timestamp) and old(events[i]).data == old(events[i].data) "
        "    and old(events[i]).duration >= old(events[i].duration) for i in range(old(len(events))))",
    ],
    modifies=["events", "Event.duration", "alloc"], writes_fresh=["*"],
    raises=[],
    loops={0: dict(
        index="k",
        ghost={"wit": ("List[int]", "[0]")},
        ghost_update=["wit.append(len(reduced) - 1)"],
        invariant=[
            "old(len(events)) > 0 or (len(reduced) == 0 and len(events) == 0)",
            "old(len(events)) == 0 or len(reduced) >= 1",
            "old(len(events)) == 0 or len(events) == old(len(events)) - 1",
            "old(len(events)) == 0 or all(events[i] is old(events[i + 1]) for i in range(len(events)))",
            "old(len(events)) == 0 or reduced[0] is old(events[0])",
            # every element of reduced is one of the inputs consumed so far
            "all(any(reduced[j] is old(events[i]) for i in range(k + 1)) for j in range(len(reduced)))",
            "all(reduced[a] is not reduced[b] for a in range(len(reduced)) for b in range(a + 1, len(reduced)))",
            # unprocessed inputs untouched
            "all(events[i].duration == old(events[i + 1].duration) for i in range(k, len(events)))",
            "all(old(events[i]).timestamp == old(events[i].timestamp) and old(events[i]).data == old(events[i].data)"
            "    and old(events[i]).duration >= old(events[i].duration) for i in range(old(len(events))))",
            "normal_form(reduced, len(reduced), pulsetime)",
            # ghost witness: wit[i] = index of the output event that absorbed input i
            "len(wit) == k + 1",
            "old(len(events)) == 0 or all(0 <= wit[i] and wit[i] < len(reduced) and (old(events[i].duration) < timedelta(0) or "
            "    covers(reduced[wit[i]], old(events[i].data), old(events[i].timestamp), old(end(events[i]))))"
            "    for i in range(k + 1))",
        ])},
)


# Idempotence ("reducing again changes nothing"): on an input that is already in normal form the
# function returns the same events, unchanged.  With the normal-form postcondition above this gives
# heartbeat_reduce(heartbeat_reduce(x)) == heartbeat_reduce(x).
contract(
    "aw_transform.heartbeats.heartbeat_reduce:idem",
    params={"events": "List[Event]", "pulsetime": "float"},
    returns="List[Event]",
    locals={"reduced": "List[Event]"},
    requires=["distinct_objects(events)", "normal_form(events, len(events), pulsetime)"],
    ensures=[
        "len(result) == old(len(events))",
        "all(result[i] is old(events[i]) for i in range(len(result)))",
        "all(result[i].timestamp == old(events[i].timestamp) and result[i].duration == old(events[i].duration)"
        "    and result[i].data == old(events[i].data) for i in range(len(result)))",
    ],
    modifies=["events", "Event.duration", "alloc"], writes_fresh=["*"],
    raises=[],
    loops={0: dict(
        index="k",
        invariant=[
            "old(len(events)) > 0 or (len(reduced) == 0 and len(events) == 0)",
            "old(len(events)) == 0 or (len(reduced) == k + 1 and len(events) == old(len(events)) - 1)",
            "all(events[i] is old(events[i + 1]) for i in range(len(events)))",
            "all(reduced[i] is old(events[i]) for i in range(len(reduced)))",
            "all(old(events[i]).timestamp == old(events[i].timestamp) and old(events[i]).duration == old(events[i].duration)"
            "    and old(events[i]).data == old(events[i].data) for i in range(old(len(events))))",
        ])},
)
