"""Contracts for the installed `timeslot` dependency (its source is verified, not assumed: the file
under /venv/.../site-packages/timeslot/timeslot.py is parsed and symbolically executed on every run)."""
from pyvc.specrt import *  # noqa: F401,F403
from pyvc.api import contract, spec

TS = "timeslot.timeslot.Timeslot"


@spec
def valid_slot(s):
    return s.start <= s.end


@spec
def contains_slot(a, b):
    return a.start <= b.start and b.end <= a.end


contract(
    TS + ".intersection",
    params={"self": "Timeslot", "other": "Timeslot"},
    returns="Optional[Timeslot]",
    requires=["valid_slot(self)", "valid_slot(other)"],
    ensures=[
        # an intersection is reported exactly when one slot contains the other or they overlap for a
        # positive time (slots that merely touch at an end point yield None)
        "(result is not None) == (contains_slot(self, other) or contains_slot(other, self) "
        "                         or max(self.start, other.start) < min(self.end, other.end))",
        "result is None or (result.start == max(self.start, other.start) and result.end == min(self.end, other.end))",
        "self.start == old(self.start) and self.end == old(self.end) and other.start == old(other.start) and other.end == old(other.end)",
    ],
    modifies=["alloc"], writes_fresh=["timeslot.timeslot.Timeslot.start", "timeslot.timeslot.Timeslot.end"],
    raises=[],
)

contract(
    TS + ".gap",
    params={"self": "Timeslot", "other": "Timeslot"},
    returns="Optional[Timeslot]",
    requires=["valid_slot(self)", "valid_slot(other)"],
    ensures=[
        "(result is None) == (not (self.end < other.start or other.end < self.start))",
        "result is None or self.end >= other.start or (result.start == self.end and result.end == other.start)",
        "result is None or other.end >= self.start or (result.start == other.end and result.end == self.start)",
        "self.start == old(self.start) and self.end == old(self.end) and other.start == old(other.start) and other.end == old(other.end)",
    ],
    modifies=["alloc"], writes_fresh=["timeslot.timeslot.Timeslot.start", "timeslot.timeslot.Timeslot.end"],
    raises=[],
)

contract(
    TS + ".union",
    params={"self": "Timeslot", "other": "Timeslot"},
    returns="Timeslot",
    requires=["valid_slot(self)", "valid_slot(other)", "not (self.end < other.start or other.end < self.start)"],
    ensures=[
        "result.start == min(self.start, other.start) and result.end == max(self.end, other.end)",
        "self.start == old(self.start) and self.end == old(self.end) and other.start == old(other.start) and other.end == old(other.end)",
    ],
    modifies=["alloc"], writes_fresh=["timeslot.timeslot.Timeslot.start", "timeslot.timeslot.Timeslot.end"],
    raises=[],
)

contract(
    TS + ".overlaps",
    params={"self": "Timeslot", "other": "Timeslot"},
    returns="bool",
    requires=["valid_slot(self)", "valid_slot(other)"],
    ensures=[
        "result == ((self.start <= other.start and other.start < self.end) "
        "           or (self.start < other.end and other.end <= self.end) or contains_slot(other, self))",
        # for slots of positive length: overlaps iff they share a positive amount of time
        "self.start == self.end or other.start == other.end "
        "or result == (max(self.start, other.start) < min(self.end, other.end))",
    ],
    modifies=[],
    raises=[],
)
