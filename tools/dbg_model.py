import sys, time, importlib, os
sys.path.insert(0, "/verif")
from pyvc import front, symexec, solve
import contracts.models, z3
mods = sys.argv[1].split(",")
for m in mods: importlib.import_module(m)
from pyvc.api import CONTRACTS
w = front.World()
ex = symexec.Executor(w, prop="T"); ex.spec_modules=[w.module(m) for m in mods]
fn=sys.argv[2]
ex.verify_function(fn.split(":")[0], contract=CONTRACTS[fn])
obs=[o for o in ex.obligations if o.name.endswith(sys.argv[3])]
ob=obs[int(sys.argv[4])]
s=z3.Solver(); s.set("timeout",60000); s.add(z3.simplify(ob.formula())); print(s.check())
m=s.model(); st=ob.state
ev=st.env["events"]; k=st.env["k"]
print("k", m.eval(k.t), "len", m.eval(ex.list_len(ev, st)), "events ref", m.eval(ev.t))
items=ex.list_items(ev, st)
for i in range(4):
    r=m.eval(z3.Select(items, i)); d=m.eval(z3.Select(st.field("aw_core.models.Event.data", z3.IntSort()), r))
    print(i, "ev", r, "data", d)
print("alloc", m.eval(st.alloc))
for nm in ["event","url"]:
    if nm in st.env and z3.is_expr(st.env[nm].t): print(nm, m.eval(st.env[nm].t))
dm = st.field("Dict.map.JV", None)
for i in range(3):
    r=m.eval(z3.Select(items, i)); d=m.eval(z3.Select(st.field("aw_core.models.Event.data", z3.IntSort()), r))
    print("map now ", i, m.eval(z3.Select(dm, d)))
    print("map old ", i, m.eval(z3.Select(ex.init_heap["Dict.map.JV"], d)))
print("---- evaluating hypotheses in the model")
for i,h in enumerate(ob.hyps):
    v = m.eval(h, model_completion=True)
    if not z3.is_true(v):
        print(i, str(v)[:200].replace("\n"," "), "|", h.sexpr()[:200].replace("\n"," "))
