import sys, time, importlib
sys.path.insert(0, "/verif")
from pyvc import front, symexec, solve
import contracts.models, z3
mods = sys.argv[1].split(",")
for m in mods: importlib.import_module(m)
from pyvc.api import CONTRACTS
w = front.World()
ex = symexec.Executor(w, prop="T"); ex.spec_modules=[w.module(m) for m in mods]
fn=sys.argv[2]
ex.verify_function(fn.split(":")[0], contract=CONTRACTS[fn])
obs=[o for o in ex.obligations if o.name.endswith(sys.argv[3])]
ob=obs[int(sys.argv[4])]
st=ob.state
print("env:", {k:str(v.ty) for k,v in st.env.items()})
for goal in sys.argv[5:]:
    env=dict(st.env)
    if st.ret is not None: env["result"]=st.ret
    env.update({k:v for k,v in ex.entry_env.items() if k not in env})
    g=ex.spec_truth(goal, env, st)
    s=z3.Solver(); s.set("timeout",10000); s.add(z3.simplify(z3.And(*ob.hyps, *ex.axioms, z3.Not(g))))
    t=time.time(); r=s.check(); print(r, round(time.time()-t,2), goal[:150])
    if str(r) == "unknown":
        t=time.time(); print("   cvc5:", solve.run_cvc5(s.to_smt2(), 20), round(time.time()-t,2))
