import sys, time, importlib
sys.path.insert(0, "/verif")
from pyvc import front, symexec, solve
import contracts.models, z3
mods = sys.argv[1].split(",")
for m in mods: importlib.import_module(m)
from pyvc.api import CONTRACTS
w = front.World()
ex = symexec.Executor(w, prop="T"); ex.spec_modules=[w.module(m) for m in mods]
fn=sys.argv[2]
ex.verify_function(fn.split(":")[0], contract=CONTRACTS[fn])
obs=[o for o in ex.obligations if o.name.endswith(sys.argv[3])]
ob=obs[int(sys.argv[4])]
print("clause:", ob.clause)
hy=[z3.simplify(h) for h in ob.hyps]
for i,h in enumerate(hy):
    print(i, h.sexpr()[:int(sys.argv[5]) if len(sys.argv)>5 else 400].replace("\n"," "))
print("GOAL", z3.simplify(ob.goal).sexpr()[:1500])
