import sys, time, importlib
sys.path.insert(0, "/verif")
from pyvc import front, symexec, solve
import contracts.models
mods = sys.argv[1].split(",")
for m in mods: importlib.import_module(m)
w = front.World()
for fn in sys.argv[2].split(","):
    ex = symexec.Executor(w, prop="T")
    ex.spec_modules = [w.module(m) for m in mods]
    import os
    ex.force_inline = [x for x in os.environ.get("FI","").split(",") if x]
    t=time.time()
    ckey = fn
    f = fn.split(":")[0]
    from pyvc.api import CONTRACTS
    exits = ex.verify_function(f, contract=CONTRACTS[ckey])
    print(fn, "paths", len(exits), "obligations", len(ex.obligations), round(time.time()-t,2))
    solve.solve_all(ex.obligations, timeout_s=int(sys.argv[3]) if len(sys.argv)>3 else 10)
    for name, obs in solve.group(ex.obligations).items():
        stt = solve.status_of(obs)
        if stt != "discharged" or "-v" in sys.argv:
            print("  ", stt, name.split("/",2)[2], [ (o.result, round(o.time,2)) for o in obs], obs[0].clause[:100] if obs[0].clause else "")
            for o in obs:
                if o.model and "-m" in sys.argv: print("     model", o.model)
    slow=sorted(ex.obligations, key=lambda o:-o.time)[:4]
    print("   slowest", [(o.name.split("/",2)[2], round(o.time,2), o.backend) for o in slow])
