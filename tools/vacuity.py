import sys, importlib
sys.path.insert(0,"/verif")
from pyvc import front, symexec, solve
import contracts.models
mods=sys.argv[1].split(",")
for m in mods: importlib.import_module(m)
from pyvc.api import CONTRACTS
w = front.World()
ex = symexec.Executor(w, prop="T"); ex.spec_modules=[w.module(m) for m in mods]
fn=sys.argv[2]
c=dict(CONTRACTS[fn]); c["ensures"]=["False"]+list(c["ensures"])
ex.verify_function(fn.split(":")[0], contract=c)
obs=[o for o in ex.obligations if o.name.endswith("ensures#0")]
solve.solve_all(obs, timeout_s=5)
print("planted False on", len(obs), "normal exits:", [o.result for o in obs], "contradictions:", ex.contradictions[:2])
