"""Generic mutation sweep (development tool, not a registered check).

For every first-order mutant of the anchored source files (comparison / arithmetic / boolean operator swaps, small integer
constants, dropped statements, a few SQL text operators) that still compiles and passes the repository's own test suite,
run the quick checks of the properties anchored in that file against a scratch copy of the repository (PYVC_REPO) and
record which check, if any, reports it.  Survivors and alarms on equivalent mutants are triaged by hand.

usage: python3-vt tools/mutsweep.py gen                      -> /tmp/mutsweep/mutants.json
       python3-vt tools/mutsweep.py run [-j N] [--only file-substring] [--limit N]
       python3-vt tools/mutsweep.py report
"""
import ast
import json
import os
import re
import subprocess
import sys
import time
from concurrent.futures import ThreadPoolExecutor

VERIF = os.path.dirname(os.path.dirname(os.path.abspath(__file__)))
REPO = "/repo"
WORK = "/tmp/mutsweep"

FILES = {
    "aw_core/models.py": ["C13"],
    "aw_transform/heartbeats.py": ["C08", "C07"],
    "aw_transform/filter_period_intersect.py": ["C09"],
    "aw_transform/flood.py": ["C10"],
    "aw_transform/union_no_overlap.py": ["C15"],
    "aw_transform/merge_events_by_keys.py": ["C16"],
    "aw_transform/chunk_events_by_key.py": ["C16"],
    "aw_transform/sort_by.py": ["C16"],
    "aw_transform/filter_keyvals.py": ["C16"],
    "aw_transform/classify.py": ["C19"],
    "aw_transform/split_url_events.py": ["C19"],
    "aw_transform/simplify.py": ["C19"],
    "aw_core/config.py": ["C20"],
    "aw_query/query2.py": ["C17", "C11"],
    "aw_query/functions.py": ["C12", "C17", "C11"],
    "aw_datastore/datastore.py": ["C05", "C03", "C01", "C04"],
    "aw_datastore/migration.py": ["C14", "C06"],
    "aw_datastore/storages/memory.py": ["C02", "C01", "C03", "C05", "C04", "C07", "C12"],
    "aw_datastore/storages/sqlite.py": ["C02", "C01", "C03", "C05", "C06", "C18", "C04", "C07", "C12", "C14"],
    "aw_datastore/storages/peewee.py": ["C02", "C01", "C03", "C05", "C06", "C04", "C07", "C12", "C14"],
}
SKIP_FUNCS = {"__repr__", "__str__", "test_split_event", "__lt__"}
CMP = {ast.Lt: ("<", "<="), ast.LtE: ("<=", "<"), ast.Gt: (">", ">="), ast.GtE: (">=", ">"), ast.Eq: ("==", "!="),
       ast.NotEq: ("!=", "=="), ast.Is: ("is", "is not"), ast.IsNot: ("is not", "is"), ast.In: ("in", "not in"),
       ast.NotIn: ("not in", "in")}
BIN = {ast.Add: ("+", "-"), ast.Sub: ("-", "+")}
SQL = [(" DESC", " ASC"), (" >= ?", " > ?"), (" <= ?", " < ?"), (" AND ", " OR "), ("LIMIT 1", "LIMIT 2"), (" = ?", " >= ?")]


def offsets(src):
    lines = src.splitlines(keepends=True)
    start = [0]
    for ln in lines:
        start.append(start[-1] + len(ln.encode()))
    return start


def gen_file(rel):
    path = os.path.join(REPO, rel)
    src = open(path).read()
    bsrc = src.encode()
    tree = ast.parse(src)
    st = offsets(src)
    out = []

    def pos(n, end=False):
        return st[(n.end_lineno if end else n.lineno) - 1] + (n.end_col_offset if end else n.col_offset)

    def add(a, b, new, kind, line):
        out.append(dict(file=rel, a=a, b=b, new=new, kind=kind, line=line, old=bsrc[a:b].decode()))

    def between(lo, hi, tok, new, kind, line):
        seg = bsrc[lo:hi].decode()
        m = re.search(r"(?<![<>=!])" + re.escape(tok) + r"(?![=])", seg) if tok in ("<", ">", "<=", ">=", "==", "!=") else re.search(r"\b" + re.escape(tok) + r"\b", seg) if tok[0].isalpha() else re.search(re.escape(tok), seg)
        if m:
            add(lo + len(seg[:m.start()].encode()), lo + len(seg[:m.end()].encode()), new, kind, line)

    def visit(node, fn):
        for ch in ast.iter_child_nodes(node):
            f = fn
            if isinstance(ch, (ast.FunctionDef, ast.AsyncFunctionDef)):
                if ch.name in SKIP_FUNCS:
                    continue
                f = ch.name
            if f is None and not isinstance(ch, (ast.ClassDef, ast.FunctionDef)):
                continue
            if isinstance(ch, ast.Expr) and isinstance(ch.value, ast.Constant) and isinstance(ch.value.value, str):
                continue          # docstring
            if isinstance(ch, ast.Expr) and isinstance(ch.value, ast.Call):
                txt = bsrc[pos(ch):pos(ch, True)].decode()
                if txt.startswith("logger.") or txt.startswith("logging."):
                    continue
                add(pos(ch), pos(ch, True), "pass", "drop-call", ch.lineno)
            if isinstance(ch, (ast.AugAssign, ast.Delete)):
                add(pos(ch), pos(ch, True), "pass", "drop-stmt", ch.lineno)
            if isinstance(ch, ast.Raise) and f:
                pass
            if isinstance(ch, ast.Compare):
                left = ch.left
                for op, right in zip(ch.ops, ch.comparators):
                    if type(op) in CMP:
                        tok, new = CMP[type(op)]
                        between(pos(left, True), pos(right), tok, new, "cmp", ch.lineno)
                    left = right
            if isinstance(ch, ast.BinOp) and type(ch.op) in BIN:
                tok, new = BIN[type(ch.op)]
                if not (isinstance(ch.left, ast.Constant) and isinstance(ch.left.value, str)) and not isinstance(ch.left, ast.JoinedStr):
                    between(pos(ch.left, True), pos(ch.right), tok, new, "arith", ch.lineno)
            if isinstance(ch, ast.BoolOp):
                tok, new = ("and", "or") if isinstance(ch.op, ast.And) else ("or", "and")
                for x, y in zip(ch.values, ch.values[1:]):
                    between(pos(x, True), pos(y), tok, new, "bool", ch.lineno)
            if isinstance(ch, ast.UnaryOp) and isinstance(ch.op, ast.Not):
                add(pos(ch), pos(ch.operand), "", "drop-not", ch.lineno)
            if isinstance(ch, ast.Constant) and type(ch.value) is int and 0 <= ch.value <= 100:
                add(pos(ch), pos(ch, True), str(ch.value + 1), "const", ch.lineno)
            if isinstance(ch, ast.Constant) and type(ch.value) is bool:
                add(pos(ch), pos(ch, True), str(not ch.value), "const", ch.lineno)
            if isinstance(ch, ast.Constant) and isinstance(ch.value, str) and any(k in ch.value for k in ("SELECT", "UPDATE", "DELETE", "INSERT", "WHERE", "ORDER BY", "LIMIT")):
                a, b = pos(ch), pos(ch, True)
                seg = bsrc[a:b].decode()
                for old, new in SQL:
                    for m in re.finditer(re.escape(old), seg):
                        add(a + len(seg[:m.start()].encode()), a + len(seg[:m.end()].encode()), new, "sql", ch.lineno)
            if isinstance(ch, ast.If) and f:
                # condition forced: covers guards that are not comparisons (`if data:`, `if self.testing:`)
                if not isinstance(ch.test, (ast.Compare, ast.BoolOp, ast.UnaryOp)):
                    add(pos(ch.test), pos(ch.test, True), "True", "if-true", ch.lineno)
                    add(pos(ch.test), pos(ch.test, True), "False", "if-false", ch.lineno)
            visit(ch, f)

    visit(tree, None)
    # dedupe
    seen, res = set(), []
    for m in out:
        k = (m["a"], m["b"], m["new"])
        if k not in seen:
            seen.add(k)
            res.append(m)
    return res


def gen():
    os.makedirs(WORK, exist_ok=True)
    allm = []
    for rel in FILES:
        ms = gen_file(rel)
        for m in ms:
            m["id"] = len(allm)
            allm.append(m)
        print(rel, len(ms))
    json.dump(allm, open(os.path.join(WORK, "mutants.json"), "w"), indent=0)
    print("total", len(allm))


def make_slot(k):
    d = os.path.join(WORK, f"slot{k}")
    subprocess.run(["rm", "-rf", d])
    os.makedirs(d)
    subprocess.run(f"git -C {REPO} archive HEAD | tar -x -C {d}", shell=True, check=True)
    return d


def run_one(m, slot, results_path, lock):
    rel = m["file"]
    path = os.path.join(slot, rel)
    orig = open(path, "rb").read()       # the slot's copy (HEAD): /repo's working tree may carry a seed patch at this moment
    mut = orig[:m["a"]] + m["new"].encode() + orig[m["b"]:]
    res = dict(id=m["id"], file=rel, line=m["line"], kind=m["kind"], old=m["old"], new=m["new"])
    try:
        try:
            compile(mut, rel, "exec")
        except SyntaxError:
            res["outcome"] = "syntax"
            return res
        open(path, "wb").write(mut)
        env = dict(os.environ, PYTHONPATH=slot, PYTHONDONTWRITEBYTECODE="1", HOME=slot + "/.home", XDG_DATA_HOME=slot + "/.home/d",
                   XDG_CONFIG_HOME=slot + "/.home/c", XDG_CACHE_HOME=slot + "/.home/k")
        t = time.time()
        try:
            r = subprocess.run(["/venv/bin/python", "-m", "pytest", "-q", "-x", "-p", "no:cacheprovider", "--timeout=120"], cwd=slot, env=env,
                               capture_output=True, text=True, timeout=600)
            tests_ok = r.returncode == 0
        except subprocess.TimeoutExpired:
            tests_ok = False
        res["tests_s"] = round(time.time() - t, 1)
        if not tests_ok:
            res["outcome"] = "killed-by-tests"
            return res
        res["checks"] = {}
        out_dir = os.path.join(slot, ".out")
        for pid in FILES[rel]:
            env2 = dict(os.environ, PYVC_REPO=slot, PYVC_OUT_DIR=out_dir, PYTHONPATH=VERIF, PYTHONDONTWRITEBYTECODE="1")
            t = time.time()
            try:
                r = subprocess.run(["python3-vt", "-m", "pyvc.check", pid], cwd=VERIF, env=env2, capture_output=True, text=True, timeout=1500)
                rc = r.returncode
                tail = [ln for ln in r.stdout.splitlines() if ln.startswith("VIOLATION") or " held" in ln or "undecided" in ln.lower() or "violation" in ln][:4]
            except subprocess.TimeoutExpired:
                rc, tail = -1, ["timeout"]
            res["checks"][pid] = dict(rc=rc, s=round(time.time() - t, 1), out=tail)
            if rc == 1:
                res["outcome"] = "detected"
                res["by"] = pid
                return res
        rcs = [c["rc"] for c in res["checks"].values()]
        res["outcome"] = "survived" if all(x == 0 for x in rcs) else "undecided"
        return res
    finally:
        open(path, "wb").write(orig)
        with lock:
            with open(results_path, "a") as f:
                f.write(json.dumps(res) + "\n")


def run(argv):
    import threading
    import queue
    jobs = int(argv[argv.index("-j") + 1]) if "-j" in argv else 4
    only = argv[argv.index("--only") + 1] if "--only" in argv else None
    limit = int(argv[argv.index("--limit") + 1]) if "--limit" in argv else None
    ms = json.load(open(os.path.join(WORK, "mutants.json")))
    results_path = os.path.join(WORK, "results.jsonl")
    done = set()
    if os.path.exists(results_path):
        for ln in open(results_path):
            done.add(json.loads(ln)["id"])
    todo = [m for m in ms if m["id"] not in done and (only is None or only in m["file"])]
    if "--rerun" in argv:
        # second pass over the mutants a first pass gave the stated outcome (regression check after the checks changed)
        want = argv[argv.index("--rerun") + 1].split(",")
        first = {}
        for ln in open(results_path):
            r = json.loads(ln)
            first[r["id"]] = r["outcome"]
        results_path = os.path.join(WORK, "results2.jsonl")
        done2 = set()
        if os.path.exists(results_path):
            for ln in open(results_path):
                done2.add(json.loads(ln)["id"])
        todo = [m for m in ms if first.get(m["id"]) in want and m["id"] not in done2 and (only is None or only in m["file"])]
    if limit:
        todo = todo[:limit]
    print(len(todo), "mutants to run on", jobs, "slots", flush=True)
    slots = queue.Queue()
    for k in range(jobs):
        slots.put(make_slot(k))
    lock = threading.Lock()

    def work(m):
        s = slots.get()
        try:
            r = run_one(m, s, results_path, lock)
            print(f"[{m['id']}] {m['file']}:{m['line']} {m['kind']} {m['old']!r}->{m['new']!r}: {r.get('outcome')} {r.get('by', '')}", flush=True)
        except Exception as e:      # keep the sweep going
            print(f"[{m['id']}] error {e!r}", flush=True)
        finally:
            slots.put(s)

    with ThreadPoolExecutor(jobs) as ex:
        list(ex.map(work, todo))
    for k in range(jobs):
        subprocess.run(["rm", "-rf", os.path.join(WORK, f"slot{k}")])


def report():
    rs = {}
    for ln in open(os.path.join(WORK, "results.jsonl")):
        r = json.loads(ln)
        rs[r["id"]] = r
    from collections import Counter
    print(Counter(r["outcome"] for r in rs.values()))
    byfile = {}
    for r in rs.values():
        byfile.setdefault(r["file"], Counter())[r["outcome"]] += 1
    for f, c in byfile.items():
        print(f"{f:45s} {dict(c)}")
    for r in sorted(rs.values(), key=lambda r: (r["file"], r["line"])):
        if r["outcome"] in ("survived", "undecided"):
            print(f"{r['outcome']:9s} [{r['id']}] {r['file']}:{r['line']} {r['kind']} {r['old']!r} -> {r['new']!r}",
                  {p: c["rc"] for p, c in r.get("checks", {}).items() if c["rc"] != 0})


if __name__ == "__main__":
    cmd = sys.argv[1]
    if cmd == "gen":
        gen()
    elif cmd == "run":
        run(sys.argv[2:])
    else:
        report()
