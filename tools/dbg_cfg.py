"""python3-vt tools/dbg_cfg.py <contract modules> <qualname[:variant]> <obligation suffix>: each path of the obligation under each
solver configuration of the portfolio (which configurations decide it, how fast)."""
import sys, time, importlib
sys.path.insert(0, "/verif")
from pyvc import front, symexec, solve
import contracts.models, z3
mods = sys.argv[1].split(",")
for m in mods: importlib.import_module(m)
from pyvc.api import CONTRACTS
w = front.World()
ex = symexec.Executor(w, prop="T"); ex.spec_modules=[w.module(m) for m in mods]
fn=sys.argv[2]
ex.verify_function(fn.split(":")[0], contract=CONTRACTS[fn])
obs=[o for o in ex.obligations if o.name.endswith(sys.argv[3])]
cfgs=[{}, {"smt.mbqi": False}, {"smt.random_seed": 1}, {"smt.random_seed": 2, "smt.mbqi": False}, {"smt.random_seed": 3, "smt.qi.eager_threshold": 50.0},
      {"smt.relevancy": 0}, {"smt.arith.solver": 2}, {"smt.auto_config": False}]
for n, ob in enumerate(obs):
    f = z3.simplify(ob.formula())
    row=[]
    for c in cfgs:
        s=z3.Solver(); s.set("timeout", 5000)
        for k,v in c.items(): s.set(k,v)
        s.add(f); t=time.time(); r=s.check(); row.append(f"{r}:{time.time()-t:.1f}")
    print(n, ob.state.trace[-6:] if ob.state else "", row)
