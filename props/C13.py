"""C13 - events normalise to UTC milliseconds and survive JSON round trips."""
import json
import os
from pyvc import fplemmas
from pyvc.api import CONTRACTS

M = "aw_core.models."


def schema_clauses():
    """Postconditions of to_json_dict generated from the published schema (one per required key / typed property)."""
    import contracts.models  # noqa: F401
    with open("/repo/aw_core/schemas/event.json") as f:
        sch = json.load(f)
    out = []
    for k in sch.get("required", []):
        out.append(f"'{k}' in result")
    for k, spec in sch.get("properties", {}).items():
        if "type" in spec:
            out.append(f"'{k}' in result and json_type(result['{k}']) == '{spec['type']}'")
    return out


def install_schema(run=None):
    import contracts.models  # noqa: F401
    c = CONTRACTS[M + "Event.to_json_dict"]
    if not c.get("_schema"):
        c["ensures"] = schema_clauses() + c["ensures"]
        c["_schema"] = True


def lemma_f1(run):
    ok, ver, dt = fplemmas.f1_enumerate()
    run.extra_cov.setdefault("lemmas", []).append(
        f"F1 int(a/1000)==a//1000 for all 0<=a<10**6: complete enumeration under CPython {ver}: {'ok' if ok else 'FAILED'} ({dt:.1f}s)")
    n, d = 1, 1 if ok else 0
    r, dt2 = fplemmas.f1_z3()
    run.extra_cov["lemmas"].append(f"F1 by z3 Float64 bit-blasting (RNE division, truncation), all 0<=a<10**6: {r} ({dt2:.1f}s)")
    n, d = n + 1, d + (1 if r == "unsat" else 0)
    if run.tier == "thorough":
        ok2, dt3 = fplemmas.parse_all_microseconds()
        run.bounded.append({"what": "real _timestamp_parse on all 10**6 microsecond values (complete finite domain)", "bound": "10**6",
                            "cases": 10 ** 6, "ok": ok2})
        if not ok2:
            ok = False
    run.extra_cov["obligations"] = run.extra_cov.get("obligations", 0) + n
    run.extra_cov["discharged"] = run.extra_cov.get("discharged", 0) + d
    run.extra_cov.setdefault("ledger", {})["C13/lemma:F1"] = 0.5
    if not ok or d < n:
        run.undecided.append({"obligations": ["C13/lemma:F1"], "why": "floating-point lemma F1 not established"})


install_schema()
V = [("_timestamp_parse", None), ("_timestamp_parse", "str"), ("Event.timestamp.setter", None), ("Event.timestamp.setter", "any"),
     ("Event.timestamp.setter", "str"), ("Event.duration.setter", None), ("Event.duration.setter", "float"), ("Event.duration.setter", "int"),
     ("Event.duration.setter", "other"), ("Event.__init__", None), ("Event.__init__", "str-float"), ("Event.__eq__", None),
     ("Event.to_json_dict", None)]
PROP = dict(
    id="C13",
    level="proof",
    contract_modules=["contracts.models"],
    spec_modules=["contracts.models"],
    functions=[dict(fn=M + f, **({"contract_key": f"{M}{f}:{v}"} if v else {}), rt_skip=True) for f, v in V] + [
        dict(fn="contracts.models.roundtrip_json"),
        dict(fn="contracts.models.roundtrip_self"),
    ],
    scope={"grid": 40, "durs": [0, 1, 2, 3, 1000, 86400000], "subms": [0, 0, 1, 499, 999], "tzmins": [0, 0, 60, 330, -480, 840, -720],
           "ids": [None, 0, 7], "data": [{}, {"a": 1}, {"t": "\u00fc\"'", "l": [1, {"x": None}], "f": 1.5}]},
    crosscheck_budget=400,
    extra=[lemma_f1],
    timeout_s=20,
    trusted=["A-ISO: iso8601.parse_date returns the aware datetime the ISO-8601 text denotes (whole-minute offset)",
             "A-RT1: parse_date(dt.isoformat()) denotes the same instant and offset as dt",
             "A-RT2: timedelta(seconds=td.total_seconds()) == td",
             "A-ISOFMT: isoformat() output satisfies the JSON-schema format 'date-time'",
             "A-TDF: timedelta(seconds=x) is a function of x"],
    assumptions=["A-DT", "A-TD"],
    explanation="_timestamp_parse (aware datetime in any zone, naive datetime, ISO string), the timestamp/duration setters, "
                "Event.__init__ (all four keys present: the class invariant used by every other property), __eq__, to_json_dict "
                "(schema clauses generated from aw_core/schemas/event.json) and the two round trips (ghost drivers) are discharged from "
                "the source of aw_core/models.py; the millisecond floor int(us/1000)*1000 rests on lemma F1, established by complete "
                "enumeration of its finite domain under the repository's CPython and by z3 Float64 bit-blasting, both on every run. "
                "What iso8601, isoformat and timedelta(seconds=float) do is assumed (listed).",
)
F = "/repo/aw_core/models.py"
MUTANTS = [
    (F, "ts = ts.replace(microsecond=int(ts.microsecond / 1000) * 1000)", "ts = ts.replace(microsecond=int(ts.microsecond / 100) * 100)", True),
    (F, '        self["timestamp"] = _timestamp_parse(timestamp).astimezone(timezone.utc)', '        self["timestamp"] = _timestamp_parse(timestamp)', True),
    (F, "    if not ts.tzinfo:", "    if ts.tzinfo:", True),
    (F, '            self["duration"] = timedelta(seconds=duration)  # type: ignore', '            self["duration"] = timedelta(milliseconds=duration)  # type: ignore', True),
    (F, "        self.data = data or {}", "        self.data = {}", True),
    (F, '        json_data["duration"] = self.duration.total_seconds()', '        json_data["duration"] = str(self.duration.total_seconds())', True),
    (F, "                and self.duration == other.duration\n", "", True),
    (F, "        self.id = id\n        if timestamp is None:", "        if timestamp is None:", True),
]
