"""C11 - a query means what its text says: literals, variables and calls compose."""
Q = "aw_query.query2."
PROP = dict(
    id="C11",
    level="other",
    contract_modules=["contracts.models", "contracts.query"],
    spec_modules=["contracts.query"],
    functions=[dict(fn=Q + "QInteger.check", rt_skip=True),
               dict(fn=Q + "QVariable.check", rt_skip=True),
               dict(fn=Q + "QString.check", rt_skip=True),
               dict(fn=Q + "QFunction.check", rt_skip=True),
               dict(fn=Q + "QDict.check", rt_skip=True),
               dict(fn=Q + "QList.check", rt_skip=True),
               dict(fn=Q + "_parse_token", rt_skip=True),
               # leaves of the syntax tree: what the node holds is what the text says, and interpreting it yields just that
               dict(fn=Q + "QInteger.parse", contract_key=Q + "QInteger.parse:value", rt_skip=True),
               dict(fn=Q + "QString.parse", contract_key=Q + "QString.parse:value", rt_skip=True),
               dict(fn=Q + "QVariable.parse", contract_key=Q + "QVariable.parse:value", rt_skip=True),
               dict(fn=Q + "QInteger.interpret", rt_skip=True),
               dict(fn=Q + "QString.interpret", rt_skip=True),
               dict(fn=Q + "QVariable.interpret", rt_skip=True),
               dict(fn=Q + "get_return", rt_skip=True)],
    timeout_s=20,
    extra=[lambda run: run.query_mode("c11", n=(400 if run.tier == "quick" else 8000))],
    technique="run-time check of the real code (bounded); with the scanners proved lossless and the leaf nodes (integer, string, variable) proved to hold and yield what their text says, against contracts",
    explanation="deductive (scanning is lossless): each of the six scanners returns (token, remainder) with token + remainder == input, and _parse_token returns a non-empty token of one of the six kinds and a remainder that together are exactly the stripped input - no character between tokens is dropped (the defect repaired in 0bc9d3c was exactly a dropped character after a bracketed token). Leaves of the syntax tree: QInteger.parse holds int(text), QString.parse the text between the quotes with escaped quotes of that kind unescaped, QVariable.parse the name and the value bound to it when the statement is parsed (None when unbound), without touching the namespace; QInteger / QString.interpret yield exactly the value held; QVariable.interpret yields the value held and rebinds it to the name, leaving every other binding alone, and raises QueryInterpretException - changing nothing - exactly when the name is not bound; get_return yields the binding of RETURN or raises QueryParseException exactly when there is none. That the composite parse functions (calls, lists, dicts) build the value the text denotes, their interpretation, and the statement loop of query() are only bounded. " 
                "bounded: programs generated from the grammar (nested calls/lists/dicts as any argument, 0-3 arguments, rebinding, strings containing brackets, commas, quotes and '=') are evaluated by aw_query.query and by an independent recursive-descent reference parser/evaluator over the same built-ins; results must be equal, also after re-spacing around commas, colons, '=' and ';'.",
)

F = "/repo/aw_query/query2.py"
MUTANTS = [
    (F, '        if to_consume != 0:\n            return None, string\n        return string[:i], string[i:]', '        if to_consume != 0:\n            return None, string\n        return string[:i], string[i + 1 :]', True),   # QFunction.check drops the character after the call
    (F, '        return token, string[len(token) :]\n\n\nclass QVariable', '        return token, string[len(token) + 1 :]\n\n\nclass QVariable', True),   # QInteger.check drops a character
    (F, '    string = string.strip()\n    if len(string) == 0:', '    string = string.strip()[0:]\n    if len(string) == 0:', False),   # same text
    (F, '    for t in qtypes:\n        token, string = t.check(string)', '    for t in qtypes:\n        token, string = t.check(string[1:] if t is QVariable else string)', True),   # variable scanner skips a character
    (F, '        return QInteger(int(string))', '        return QInteger(int(string) + 1)', True),   # an integer literal means the next integer
    (F, '        string = string[1:-1]\n        return QString(string)', '        string = string[1:]\n        return QString(string)', True),   # the closing quote stays in the string
    (F, '        if string in namespace:\n            val = namespace[string]\n        return QVariable(string, val)', '        if string in namespace:\n            val = namespace[string]\n        return QVariable(string, None)', True),   # a variable forgets its binding
    (F, '        namespace[self.name] = self.value\n        return self.value', '        namespace[self.name] = self.value\n        namespace["RETURN"] = self.value\n        return self.value', True),   # reading a variable rebinds RETURN
    (F, '        if self.name not in namespace:\n            raise QueryInterpretException(', '        if self.name not in namespace:\n            raise KeyError(', True),   # an unknown variable escapes as KeyError
    (F, '    return namespace["RETURN"]', '    return namespace.get("RETURN", namespace.get("NAME"))', False),   # same value on the path that reaches it
]
