"""C11 - a query means what its text says: literals, variables and calls compose."""
PROP = dict(
    id="C11",
    level="other",
    contract_modules=["contracts.models"],
    spec_modules=["contracts.models"],
    functions=[],
    extra=[lambda run: run.query_mode("c11", n=(400 if run.tier == "quick" else 8000))],
    technique="run-time check of the real code (bounded); contract-based proof is layered on top where built",
    explanation="bounded: programs generated from the grammar (nested calls/lists/dicts as any argument, 0-3 arguments, rebinding, strings containing brackets, commas, quotes and '=') are evaluated by aw_query.query and by an independent recursive-descent reference parser/evaluator over the same built-ins; results must be equal, also after re-spacing around commas, colons, '=' and ';'.",
)
