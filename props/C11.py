"""C11 - a query means what its text says: literals, variables and calls compose."""
Q = "aw_query.query2."
PROP = dict(
    id="C11",
    level="other",
    contract_modules=["contracts.models", "contracts.query"],
    spec_modules=["contracts.query"],
    functions=[dict(fn=Q + "QInteger.check", rt_skip=True),
               dict(fn=Q + "QVariable.check", rt_skip=True),
               dict(fn=Q + "QString.check", rt_skip=True),
               dict(fn=Q + "QFunction.check", rt_skip=True),
               dict(fn=Q + "QDict.check", rt_skip=True),
               dict(fn=Q + "QList.check", rt_skip=True),
               dict(fn=Q + "_parse_token", rt_skip=True)],
    timeout_s=20,
    extra=[lambda run: run.query_mode("c11", n=(400 if run.tier == "quick" else 8000))],
    technique="run-time check of the real code (bounded); with the scanners proved lossless against contracts",
    explanation="deductive (scanning is lossless): each of the six scanners returns (token, remainder) with token + remainder == input, and _parse_token returns a non-empty token of one of the six kinds and a remainder that together are exactly the stripped input - no character between tokens is dropped (the defect repaired in 0bc9d3c was exactly a dropped character after a bracketed token). That the parse functions build the value the text denotes, and the interpreter, are only bounded. " 
                "bounded: programs generated from the grammar (nested calls/lists/dicts as any argument, 0-3 arguments, rebinding, strings containing brackets, commas, quotes and '=') are evaluated by aw_query.query and by an independent recursive-descent reference parser/evaluator over the same built-ins; results must be equal, also after re-spacing around commas, colons, '=' and ';'.",
)

F = "/repo/aw_query/query2.py"
MUTANTS = [
    (F, '        if to_consume != 0:\n            return None, string\n        return string[:i], string[i:]', '        if to_consume != 0:\n            return None, string\n        return string[:i], string[i + 1 :]', True),   # QFunction.check drops the character after the call
    (F, '        return token, string[len(token) :]\n\n\nclass QVariable', '        return token, string[len(token) + 1 :]\n\n\nclass QVariable', True),   # QInteger.check drops a character
    (F, '    string = string.strip()\n    if len(string) == 0:', '    string = string.strip()[0:]\n    if len(string) == 0:', False),   # same text
    (F, '    for t in qtypes:\n        token, string = t.check(string)', '    for t in qtypes:\n        token, string = t.check(string[1:] if t is QVariable else string)', True),   # variable scanner skips a character
]
