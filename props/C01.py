"""C01 - stored events come back exactly as inserted, and the store owns its copy."""
S = "aw_datastore.storages.sqlite.SqliteStorage."
MS = "aw_datastore.storages.memory.MemoryStorage."
PROP = dict(
    id="C01",
    level="other",
    contract_modules=["contracts.models", "contracts.sqlite", "contracts.memory"],
    spec_modules=["contracts.sqlite", "contracts.memory"],
    functions=[dict(fn="contracts.sqlite.store_roundtrip", rt_skip=True),
               dict(fn=S + "insert_one", rt_skip=True),
               dict(fn=S + "insert_many", rt_skip=True),
               dict(fn=S + "get_event", rt_skip=True),
               dict(fn=S + "get_events", rt_skip=True),
               dict(fn="aw_datastore.storages.sqlite._rows_to_events", rt_skip=True),
               dict(fn=MS + "insert_one", contract_key=MS + "insert_one:new", rt_skip=True),
               dict(fn="aw_datastore.storages.abstract.AbstractStorage.insert_many", contract_key="aw_datastore.storages.abstract.AbstractStorage.insert_many" + ":memory", runs_as=MS + "insert_many", rt_skip=True),
               dict(fn="aw_datastore.storages.abstract.AbstractStorage.insert_many", contract_key="aw_datastore.storages.abstract.AbstractStorage.insert_many" + ":memory-upsert", runs_as=MS + "insert_many", rt_skip=True),
               dict(fn=MS + "replace", rt_skip=True),
               dict(fn=MS + "_get_event", rt_skip=True),
               dict(fn=MS + "get_event", rt_skip=True),
               dict(fn=MS + "get_events", rt_skip=True),
               dict(fn=MS + "get_metadata", rt_skip=True)],
    timeout_s=20,
    extra=[lambda run: run.storage_mode("c01", what="value fidelity (1970-2100, any offset, durations to 30 days, nested unicode JSON) and ownership (mutating passed-in / handed-out objects) on the real back ends"),
           lambda run: run.storage_mode("c01span", runs=(1 if run.tier == "quick" else 6), what="1500 events per back end spanning 2**49 / 2**50 / 2**51 us after the epoch (1987, 2005, 2041: the spacing of binary64 microsecond values doubles there), inserted in bulk and read back: instant and duration exact")],
    technique="run-time check of the real back ends (bounded); with the sqlite methods proved against contracts over the table state (SQL text parsed from the source)",
    explanation="deductive (sqlite): insert_one / insert_many give every event without an id a row id never used before (old high-water mark + 1, consecutive for a bulk insert) in the addressed bucket, holding exactly the encoding (float microseconds of start and end, json.dumps of the data) of that event; get_event / get_events / _rows_to_events return fresh Event objects that are the decoding of exactly those rows. An insert followed by a lookup (contracts.sqlite.store_roundtrip, a lemma over the two contracts) returns a fresh event with the id assigned, equal data (A-JSON) the SAME INSTANT and the SAME DURATION for every event that starts between 1970 and 2100 and lasts 0 to 31 days: lemma F3 (the float encoding timestamp()*1000000 followed by /1000000 and fromtimestamp is lossless for every whole-microsecond instant), proved in every run by binade-split exact-rounding reasoning (103 cells, powers of two evaluated directly) with a negative control and a CPython cross-check, applied to the start and to the end instant. (The analysis behind the lemma is what exposed the defect repaired in the commit recorded in known_findings.json: the end used to be encoded as a sum of two rounded floats.) deductive (memory): insert_one stores an object of the store's own (fresh, fresh data dict, equal in value to the caller's event, under an id no stored event has) and hands back a third fresh object; replace / replace_last store fresh deep copies; get_event / get_events / get_metadata hand out fresh copies - so no caller ever holds a reference into the store (relative to A-COPY for copy.deepcopy). " 
                "bounded: random events (instants 1970-2100 at any UTC offset, durations 0..30 days at microsecond granularity, nested unicode JSON data) are inserted singly and in bulk into memory, sqlite and peewee; id unique in the bucket and returned by listing and lookup; instant equal to the millisecond, duration to the microsecond, data equal; then the caller's event, events handed out by reads and metadata dicts are mutated and later reads must not change.",
)

FM = "/repo/aw_datastore/storages/memory.py"
MUTANTS = [
    ("/repo/aw_datastore/storages/sqlite.py", "        endtime = (event.timestamp + event.duration).timestamp() * 1000000\n        datastr = json.dumps(event.data)\n        c.execute(", "        endtime = starttime + (event.duration.total_seconds() * 1000000)\n        datastr = json.dumps(event.data)\n        c.execute(", True),   # the end as a sum of two rounded floats again
    ("/repo/aw_datastore/storages/sqlite.py", "        starttime = datetime.fromtimestamp(row[1] / 1000000, timezone.utc)", "        starttime = datetime.fromtimestamp(row[1] / 1000000.5, timezone.utc)", True),   # decoding with another divisor
    ("/repo/aw_datastore/storages/sqlite.py", "        c = self.conn.cursor()\n        starttime = event.timestamp.timestamp() * 1000000\n", "        c = self.conn.cursor()\n        starttime = event.timestamp.timestamp() * 1000000 + 0.5\n", True),   # half a microsecond added on insert
    (FM, '            # Hand out a copy: the stored event must not be reachable through the returned one\n            event = copy.deepcopy(event)\n', '', True),   # insert_one hands out the stored event (the defect fixed in 9ec40ff)
    (FM, '            event = copy.deepcopy(event)\n            if self.db[bucket]:', '            event = copy.copy(event)\n            if self.db[bucket]:', True),   # shallow copy: the data dict is shared with the caller
    (FM, '        event = self._get_event(bucket_id, event_id)\n        return copy.deepcopy(event)', '        event = self._get_event(bucket_id, event_id)\n        return event', True),   # get_event hands out the stored event
    (FM, '            return copy.deepcopy(self._metadata[bucket_id])', '            return self._metadata[bucket_id]', True),   # stored metadata dict handed out
]
