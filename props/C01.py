"""C01 - stored events come back exactly as inserted, and the store owns its copy."""
S = "aw_datastore.storages.sqlite.SqliteStorage."
PROP = dict(
    id="C01",
    level="other",
    contract_modules=["contracts.models", "contracts.sqlite"],
    spec_modules=["contracts.sqlite"],
    functions=[dict(fn=S + "insert_one", rt_skip=True),
               dict(fn=S + "insert_many", rt_skip=True),
               dict(fn=S + "get_event", rt_skip=True),
               dict(fn=S + "get_events", rt_skip=True),
               dict(fn="aw_datastore.storages.sqlite._rows_to_events", rt_skip=True)],
    timeout_s=20,
    extra=[lambda run: run.storage_mode("c01", what="value fidelity (1970-2100, any offset, durations to 30 days, nested unicode JSON) and ownership (mutating passed-in / handed-out objects) on the real back ends")],
    technique="run-time check of the real back ends (bounded); with the sqlite methods proved against contracts over the table state (SQL text parsed from the source)",
    explanation="deductive (sqlite): insert_one / insert_many give every event without an id a row id never used before (old high-water mark + 1, consecutive for a bulk insert) in the addressed bucket, holding exactly the encoding (float microseconds of start and end, json.dumps of the data) of that event; get_event / get_events / _rows_to_events return fresh Event objects that are the decoding of exactly those rows. That decode(encode(x)) == x for the float encoding (IEEE arithmetic over 1970..2100) is NOT proved - the bounded run-time check below covers it. " 
                "bounded: random events (instants 1970-2100 at any UTC offset, durations 0..30 days at microsecond granularity, nested unicode JSON data) are inserted singly and in bulk into memory, sqlite and peewee; id unique in the bucket and returned by listing and lookup; instant equal to the millisecond, duration to the microsecond, data equal; then the caller's event, events handed out by reads and metadata dicts are mutated and later reads must not change.",
)
