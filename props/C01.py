"""C01 - stored events come back exactly as inserted, and the store owns its copy."""
PROP = dict(
    id="C01",
    level="other",
    contract_modules=["contracts.models"],
    spec_modules=["contracts.models"],
    functions=[],
    extra=[lambda run: run.storage_mode("c01", what="value fidelity (1970-2100, any offset, durations to 30 days, nested unicode JSON) and ownership (mutating passed-in / handed-out objects) on the real back ends")],
    technique="run-time check of the real back ends (bounded); contract-based proof of the sqlite methods is layered on top where built",
    explanation="bounded: random events (instants 1970-2100 at any UTC offset, durations 0..30 days at microsecond granularity, nested unicode JSON data) are inserted singly and in bulk into memory, sqlite and peewee; id unique in the bucket and returned by listing and lookup; instant equal to the millisecond, duration to the microsecond, data equal; then the caller's event, events handed out by reads and metadata dicts are mutated and later reads must not change.",
)
