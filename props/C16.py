"""C16 - grouping, chunking, sorting and filtering conserve events and time."""
S = "aw_transform.sort_by."
DATA = [{}, {"a": 1}, {"a": 2}, {"b": 1}, {"a": 1, "b": 1}, {"a": 1, "b": 2}, {"a": [1, 2]}, {"a": [1, 2], "b": 1}, {"b": 2, "c": 1}]
# merge keys present with a falsy value are values like any other (they are not "absent")
DATA_MERGE = DATA + [{"a": ""}, {"a": 0}, {"a": []}, {"a": None}, {"a": "", "b": 1}, {"b": 0}, {"a": "x"}]
PROP = dict(
    id="C16",
    level="other",
    contract_modules=["contracts.models", "contracts.grouping"],
    spec_modules=["contracts.grouping"],
    functions=[
        dict(fn=S + "sort_by_timestamp"),
        dict(fn=S + "sort_by_duration"),
        dict(fn=S + "limit_events"),
        dict(fn="aw_transform.filter_keyvals.filter_keyvals", scope={"list": 4, "data": DATA, "strs": ["a", "b"], "jvs": [1, 2, [1, 2]]}),
        dict(fn="aw_transform.merge_events_by_keys.merge_events_by_keys", bounded_only=True, budget=1500,
             scope={"list": 4, "data": DATA_MERGE, "strs": ["a", "b", "c"]}),
        dict(fn="aw_transform.chunk_events_by_key.chunk_events_by_key", bounded_only=True, budget=1500,
             scope={"list": 4, "data": [{"a": 1}, {"a": 2}, {"a": 1, "b": 1}, {"a": [1]}], "strs": ["a"]}),
    ],
    scope={"list": 4, "grid": 6, "durs": [0, 1, 1, 2, 3], "data": DATA},
    timeout_s=20,
    technique="contract-based deductive verification for sorting/limiting/filtering; run-time contract on the real function "
              "(bounded) for merge_events_by_keys and chunk_events_by_key",
    explanation="Proved for all inputs: sort_by_timestamp / sort_by_duration return a fresh, correctly ordered permutation "
                "(relative to the assumed contract A-STD of sorted()); limit_events returns a prefix; filter_keyvals returns exactly "
                "the order-preserving sub-sequence of events whose predicate value differs from `exclude` (so the two polarities are "
                "complementary); none of them modifies its input.  merge_events_by_keys (dict keyed by tuples) and "
                "chunk_events_by_key (lists nested in event data) are outside the verified subset: their clauses are evaluated at "
                "run time on the real functions over random small inputs (bounded, not counted as proved).",
)
F1 = "/repo/aw_transform/sort_by.py"
F2 = "/repo/aw_transform/filter_keyvals.py"
MUTANTS = [
    (F1, "return sorted(events, key=lambda e: e.duration, reverse=True)", "return sorted(events, key=lambda e: e.duration)", True),
    (F1, "return sorted(events, key=lambda e: e.timestamp)", "events.sort(key=lambda e: e.timestamp)\n    return events", True),
    (F1, "return events[:count]", "return events[:count + 1]", True),
    (F2, "return [e for e in events if not predicate(e)]", "return [e for e in events if predicate(e)]", True),
    (F2, "return key in event.data and event.data[key] in vals", "return key in event.data or event.data[key] in vals", True),
]
