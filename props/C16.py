"""C16 - grouping, chunking, sorting and filtering conserve events and time."""
S = "aw_transform.sort_by."
DATA = [{}, {"a": 1}, {"a": 2}, {"b": 1}, {"a": 1, "b": 1}, {"a": 1, "b": 2}, {"a": [1, 2]}, {"a": [1, 2], "b": 1}, {"b": 2, "c": 1}]
# merge keys present with a falsy value are values like any other (they are not "absent")
DATA_MERGE = DATA + [{"a": ""}, {"a": 0}, {"a": []}, {"a": None}, {"a": "", "b": 1}, {"b": 0}, {"a": "x"}]
PROP = dict(
    id="C16",
    level="other",
    contract_modules=["contracts.models", "contracts.grouping"],
    spec_modules=["contracts.grouping"],
    functions=[
        dict(fn=S + "sort_by_timestamp"),
        dict(fn=S + "sort_by_duration"),
        dict(fn=S + "limit_events"),
        dict(fn="aw_transform.filter_keyvals.filter_keyvals", scope={"list": 4, "data": DATA, "strs": ["a", "b"], "jvs": [1, 2, [1, 2]]}),
        dict(fn="aw_transform.merge_events_by_keys.merge_events_by_keys", bounded_only=True, budget=1500,
             scope={"list": 4, "data": DATA_MERGE, "strs": ["a", "b", "c"]}),
        dict(fn="aw_transform.chunk_events_by_key.chunk_events_by_key", budget=1500,
             scope={"list": 4, "data": [{"a": 1}, {"a": 2}, {"a": 1, "b": 1}, {"a": [1]}], "strs": ["a"]}),
    ],
    scope={"list": 4, "grid": 6, "durs": [0, 1, 1, 2, 3], "data": DATA},
    timeout_s=20,
    technique="contract-based deductive verification for sorting/limiting/filtering and for chunk_events_by_key (loop invariant with ghost "
              "chunk boundaries and prefix sums); run-time contract on the real function (bounded) for merge_events_by_keys",
    explanation="Proved for all inputs: sort_by_timestamp / sort_by_duration return a fresh, correctly ordered permutation "
                "(relative to the assumed contract A-STD of sorted()); limit_events returns a prefix; filter_keyvals returns exactly "
                "the order-preserving sub-sequence of events whose predicate value differs from `exclude` (so the two polarities are "
                "complementary); none of them modifies its input.  chunk_events_by_key, for every key-bearing sequence (every event has "
                "the key; the key is not 'subevents', the name the function itself uses): chunk c holds, under 'subevents', a list of its "
                "own whose elements are the input events start[c] .. start[c+1]-1 themselves, in order (start[0] = 0, strictly increasing, "
                "the last chunk ends at the end of the input: the sub-events concatenate back to the input); it starts where its first "
                "sub-event starts, carries that event's value of the key, and every sub-event's value equals it (A-JV: == on opaque JSON "
                "values); its duration is P[start[c+1]] - P[start[c]] where P is the ghost list of prefix sums of the input durations "
                "(P[0] = 0, P[i+1] = P[i] + events[i].duration), i.e. the durations add up; chunks, their data tables and their "
                "sub-event lists are fresh and pairwise distinct; no input event is modified.  Which adjacent events are merged "
                "(the pulsetime test) is deliberately not part of the contract - the property does not speak about it.  "
                "merge_events_by_keys (a dict keyed by tuples of variable length) is outside the verified subset: its clauses are "
                "evaluated at run time on the real function over random small inputs (bounded, not counted as proved).",
)
F1 = "/repo/aw_transform/sort_by.py"
F2 = "/repo/aw_transform/filter_keyvals.py"
F3 = "/repo/aw_transform/chunk_events_by_key.py"
MUTANTS = [
    (F1, "return sorted(events, key=lambda e: e.duration, reverse=True)", "return sorted(events, key=lambda e: e.duration)", True),
    (F1, "return sorted(events, key=lambda e: e.timestamp)", "events.sort(key=lambda e: e.timestamp)\n    return events", True),
    (F1, "return events[:count]", "return events[:count + 1]", True),
    (F2, "return [e for e in events if not predicate(e)]", "return [e for e in events if predicate(e)]", True),
    (F2, "return key in event.data and event.data[key] in vals", "return key in event.data or event.data[key] in vals", True),
    (F3, "            chunked_event.duration += event.duration\n", "", True),                         # durations no longer add up
    (F3, "            and chunked_events[-1].data[key] == event.data[key]\n", "", True),               # runs no longer share the key's value
    (F3, '            chunked_event.data["subevents"].append(event)\n', "", True),                      # sub-events lost
    (F3, '"subevents": [event]}', '"subevents": [event, event]}', True),                                # sub-event counted twice
    (F3, "timestamp=event.timestamp, duration=event.duration, data=data", "timestamp=event.timestamp, duration=timedelta(0), data=data", True),
    (F3, "            chunked_event = chunked_events[-1]\n", "            chunked_event = chunked_events[0]\n", True),   # merged into the first chunk
    (F3, "            chunked_event.duration += event.duration\n", "            chunked_event.duration += event.duration\n            event.duration = chunked_event.duration\n", True),  # input modified
    (F3, "timediff < timedelta(seconds=pulsetime)", "timediff <= timedelta(seconds=pulsetime)", False),   # which adjacent events merge is not part of the property
    (F3, "events[-1].timestamp + events[-1].duration", "chunked_events[-1].timestamp + chunked_events[-1].duration", False),
]
