"""C10 - flood closes exactly the short gaps and never loses or overlaps time."""
F = "/repo/aw_transform/flood.py"
PROP = dict(
    id="C10",
    level="proof",
    contract_modules=["contracts.models", "contracts.flood"],
    spec_modules=["contracts.flood"],
    functions=[dict(fn="aw_transform.flood.flood")],
    scope={"nonoverlap": True, "list": 4, "durs": [0, 1, 2, 3], "gaps": [0, 1, 2, 3, 4],
           "data": [{}, {"a": 1}], "floats": [0, 0.001, 0.002, 0.003]},
    timeout_s=20,
    explanation="flood's loop invariant (untouched suffix, kept end of the current left event, separation of processed "
                "elements, per-original cover witness, per-short-gap cover witness, long gaps not entered, hull) is "
                "established, preserved on all branches and implies the postconditions P1-P6, which are the statement "
                "per index over the input in start order (S, D = ghost snapshot of the sorted deep copy, a permutation of "
                "the input). Domain: non-negative whole-millisecond durations (so the ms-flooring timestamp setter is the "
                "identity on every assigned value, which is proved, not assumed); 'non-overlapping' is read as: no event "
                "starts before an earlier-starting one has ended.",
)
MUTANTS = [
    (F, "elif -negative_gap_trim_thres < gap <= timedelta(seconds=pulsetime):", "elif -negative_gap_trim_thres < gap < timedelta(seconds=pulsetime):", True),
    (F, "if e1.duration >= e2.duration:", "if e1.duration > e2.duration:", False),   # ties: either side may flood
    (F, "                    e1.duration = e2_end - e1.timestamp\n                    e2.timestamp = e2_end", "                    e1.duration = e2_end - e1.timestamp", True),
    (F, "    events = deepcopy(events)\n", "    events = list(events)\n", True),
    (F, "                    e1.duration = e2.timestamp - e1.timestamp", "                    e1.duration = e2_end - e1.timestamp", True),
    (F, "                    e2.timestamp = e1.timestamp + e1.duration\n", "                    e2.timestamp = e1.timestamp\n", True),
    (F, "events = [e for e in events if e.duration > timedelta(0)]", "events = [e for e in events if e.duration >= timedelta(0)]", True),
    (F, "    warned_about_negative_gap_safe = False\n    warned_about_negative_gap_unsafe = False", "    warned_about_negative_gap_unsafe = False\n    warned_about_negative_gap_safe = False", False),
]
