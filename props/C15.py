"""C15 - union_no_overlap keeps list one intact and only the uncovered parts of list two."""
F = "/repo/aw_transform/union_no_overlap.py"
M = "aw_transform.union_no_overlap."
PROP = dict(
    id="C15",
    level="proof",
    contract_modules=["contracts.models", "contracts.union_no_overlap"],
    spec_modules=["contracts.union_no_overlap"],
    functions=[dict(fn=M + "_split_event", scope={"grid": 6, "durs": [0, 1, 2, 3]}),
               dict(fn=M + "union_no_overlap")],
    executor_flags={"force_inline": [M + "_split_event"]},
    scope={"nonoverlap": True, "sorted": True, "list": 3, "durs": [0, 1, 2, 3, 5], "gaps": [0, 1, 2, 3],
           "data": [{"a": 1}, {"a": 2}]},
    crosscheck_budget=400,
    timeout_s=20,
    level_note="proof for the stated input domain (two time-sorted, internally non-overlapping lists with non-negative whole-millisecond durations); trusted base in the evidence file (A-COPY for deepcopy, Timeslot.intersects from the installed timeslot source). The run-time contract is an additional cross-check of the encoder, not part of the claim.",
    explanation="Proved for all inputs (loop invariant with ghost provenance maps; _split_event inlined in the loop proof and "
                "verified against its own contract separately): every list-one event is returned unchanged and in order; every "
                "other returned event is a piece of a list-two event (inside it, same data) that shares no positive time with any "
                "list-one event; the result is ordered in time, hence no two returned events overlap; inputs are not modified; the "
                "loop terminates.  Completeness - every uncovered part of list two is returned - is proved as the absence of "
                "list-two time in the gaps of the output: the output is ordered in time and contains every list-one event, so a gap "
                "between two consecutive output events holds no list-one time; the invariants GAPS_OK / settled state that it holds "
                "no list-two time either (nor does any lie before the first or after the last output event), i.e. the covered time "
                "is the union of both inputs.  The run-time contract (pointwise equality of covered time at all interval mid-points, "
                "labels included) is evaluated on the real function over random small inputs as a cross-check.",
)
MUTANTS = [
    (F, "                if e1_end <= e2.timestamp:", "                if e1_end < e2.timestamp:", True),   # loses a piece of list two (completeness): the gap invariants fail
    (F, "                    _, e2_next = _split_event(e2, e1_end)", "                    _, e2_next = _split_event(e2, e1.timestamp)", True),  # idem
    (F, "                e2_next, e2_next2 = _split_event(e2, e1.timestamp)\n                events_union.append(e2_next)", "                e2_next, e2_next2 = _split_event(e2, e1.timestamp)\n                events_union.append(e2)", True),
    (F, "    events1 = deepcopy(events1)\n", "    events1 = list(events1)\n", False),   # list one is only read: returning the caller's own event objects modifies nothing
    (F, "        e2.timestamp = dt\n", "        e2.timestamp = e.timestamp\n", True),
    (F, "            if e1.timestamp <= e2.timestamp:\n                events_union.append(e1)\n                e1_i += 1\n            else:\n                events_union.append(e2)",
        "            if e1.timestamp < e2.timestamp:\n                events_union.append(e1)\n                e1_i += 1\n            else:\n                events_union.append(e2)", False),
]
