"""C15 - union_no_overlap keeps list one intact and only the uncovered parts of list two."""
F = "/repo/aw_transform/union_no_overlap.py"
M = "aw_transform.union_no_overlap."
PROP = dict(
    id="C15",
    level="other",
    contract_modules=["contracts.models", "contracts.union_no_overlap"],
    spec_modules=["contracts.union_no_overlap"],
    functions=[dict(fn=M + "_split_event", scope={"grid": 6, "durs": [0, 1, 2, 3]}),
               dict(fn=M + "union_no_overlap")],
    executor_flags={"force_inline": [M + "_split_event"]},
    scope={"nonoverlap": True, "sorted": True, "list": 3, "durs": [0, 1, 2, 3, 5], "gaps": [0, 1, 2, 3],
           "data": [{"a": 1}, {"a": 2}]},
    crosscheck_budget=400,
    timeout_s=20,
    technique="contract-based deductive verification (VCs from the AST, z3/cvc5) for order, soundness of pieces, "
              "non-overlap, frame and termination; run-time contract on the real function (bounded) for exact coverage",
    explanation="Proved for all inputs (loop invariant with ghost provenance maps; _split_event inlined in the loop proof and "
                "verified against its own contract separately): every list-one event is returned unchanged and in order; every "
                "other returned event is a piece of a list-two event (inside it, same data) that shares no positive time with any "
                "list-one event; the result is ordered in time, hence no two returned events overlap; inputs are not modified; the "
                "loop terminates.  NOT proved, bounded only: that *every* uncovered part of list two is returned (completeness of "
                "clause 2) - this is the run-time contract (pointwise equality of covered time at all interval mid-points, "
                "labels included) evaluated on the real function over random small sorted non-overlapping lists.",
)
MUTANTS = [
    (F, "                if e1_end <= e2.timestamp:", "                if e1_end < e2.timestamp:", False),   # loses a piece: completeness only, caught by the run-time contract (bounded), not by the proof
    (F, "                    _, e2_next = _split_event(e2, e1_end)", "                    _, e2_next = _split_event(e2, e1.timestamp)", False),  # idem
    (F, "                e2_next, e2_next2 = _split_event(e2, e1.timestamp)\n                events_union.append(e2_next)", "                e2_next, e2_next2 = _split_event(e2, e1.timestamp)\n                events_union.append(e2)", True),
    (F, "    events1 = deepcopy(events1)\n", "    events1 = list(events1)\n", False),   # list one is only read: returning the caller's own event objects modifies nothing
    (F, "        e2.timestamp = dt\n", "        e2.timestamp = e.timestamp\n", True),
    (F, "            if e1.timestamp <= e2.timestamp:\n                events_union.append(e1)\n                e1_i += 1\n            else:\n                events_union.append(e2)",
        "            if e1.timestamp < e2.timestamp:\n                events_union.append(e1)\n                e1_i += 1\n            else:\n                events_union.append(e2)", False),
]
