"""C03 - time-window reads return exactly the intersecting events, newest first, limited."""
PROP = dict(
    id="C03",
    level="other",
    contract_modules=["contracts.models"],
    spec_modules=["contracts.models"],
    functions=[],
    extra=[lambda run: run.storage_histories("C03")],
    technique="run-time refinement check of the real back ends against a reference list over random histories (bounded); "
              "contract-based proof of the sqlite methods is layered on top where built",
    explanation="bounded: random bucket contents (overlapping, nested, adjacent, zero-length events) and random windows (open-ended, zero-width, sub-millisecond) and limits on the three back ends: every event strictly inside (beyond 2 ms of an edge) must be returned and none strictly outside, ordered by timestamp descending, a positive limit keeps the newest, the count agrees within the same tolerance, peewee's results are the stored events cut to the window.",
)
