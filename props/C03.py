"""C03 - time-window reads return exactly the intersecting events, newest first, limited."""
S = "aw_datastore.storages.sqlite.SqliteStorage."
D = "aw_datastore.datastore."
MS = "aw_datastore.storages.memory.MemoryStorage."
PROP = dict(
    id="C03",
    level="other",
    contract_modules=["contracts.models", "contracts.sqlite", "contracts.datastore", "contracts.memory"],
    spec_modules=["contracts.sqlite", "contracts.datastore", "contracts.memory"],
    functions=[dict(fn="contracts.sqlite.stored_event_in_window", rt_skip=True),
               dict(fn=S + "insert_one", rt_skip=True),
               dict(fn=S + "conditional_commit", rt_skip=True),
               dict(fn=S + "get_events", rt_skip=True),
               dict(fn=S + "get_eventcount", rt_skip=True),
               dict(fn="aw_datastore.storages.sqlite._rows_to_events", rt_skip=True),
               dict(fn=D + "Bucket.get", rt_skip=True),
               dict(fn=D + "Bucket.get_eventcount", rt_skip=True),
               dict(fn=S + "commit", rt_skip=True),
               dict(fn=MS + "get_events", rt_skip=True),
               dict(fn=MS + "get_eventcount", rt_skip=True)],
    timeout_s=20,
    extra=[lambda run: run.storage_histories("C03")],
    technique="run-time refinement check of the real back ends against a reference list over random histories (bounded); "
              "with the sqlite methods proved against contracts over the table state (SQL text parsed from the source)",
    explanation="deductive (sqlite): a stored event is returned by a windowed read whenever its time span reaches into the window by at least a millisecond, and only if it comes within a millisecond of it, as INSTANTS (open-ended bounds included; between the two the property leaves the answer open: 'only events within about 2 ms of an edge may go either way'), and then with its own instant and duration: contracts.sqlite.stored_event_in_window, a lemma over the contracts of insert_one and get_events and the floating-point lemmas F3 / F5 (the encoding of an instant is within half a microsecond of it, hence strictly increasing, and decodes exactly). At the level of the stored floats: get_events returns only live events of the bucket that may be in the window (within 500 us of it: may_window) and every one that must be (reaching at least 500 us into it: must_window; real_plus is exact real addition), in (starttime, endtime, id) descending order, all of them unless a positive limit is reached, in which case the omitted ones all come after every returned one; limit 0 returns nothing; get_eventcount is positive if some row must be in the window and zero if none may be. Bucket.get is proved to hand the storage the caller's window widened to whole milliseconds (start rounded down, end rounded down plus one millisecond: lemma F1 for int(microsecond / 1000)), so that nothing intersecting the caller's window is missed, and to return exactly the storage's answer for that window. deductive (memory): get_events returns fresh copies of stored events, each the copy of the stored event the ghost maps of the sort / reversal / filters name and inside the window (may_win), newest first, at most `limit` of them, none for limit 0, and none that must be in the window (must_win) is missing unless a positive limit was reached and it lies beyond it; get_eventcount counts at least the events that must and at most those that may be in the window. The two predicates instead of the closed-interval test of the code: a change that opens or closes an edge stays within what the property allows and is not reported. "
                "bounded: random bucket contents (overlapping, nested, adjacent, zero-length events) and random windows (open-ended, zero-width, sub-millisecond) and limits on the three back ends: every event strictly inside (beyond 2 ms of an edge) must be returned and none strictly outside, ordered by timestamp descending, a positive limit keeps the newest, the count agrees within the same tolerance, peewee's results are the stored events cut to the window.",
)

F = "/repo/aw_datastore/storages/sqlite.py"
FD = "/repo/aw_datastore/datastore.py"
FM = "/repo/aw_datastore/storages/memory.py"
MUTANTS = [
    (FM, '        events = sorted(events, key=lambda k: k["timestamp"])[::-1]', '        events = sorted(events, key=lambda k: k["timestamp"])', True),   # oldest first
    (FM, '            events = [e for e in events if starttime <= (e.timestamp + e.duration)]', '            events = [e for e in events if starttime <= e.timestamp]', True),   # window start tested against the start
    (FM, '            events = [e for e in events if starttime <= (e.timestamp + e.duration)]', '            events = [e for e in events if starttime < (e.timestamp + e.duration)]', False),   # memory: an event ending exactly at the window start is dropped - within the edge tolerance the property allows
    (FM, '            events = [e for e in events if e.timestamp <= endtime]', '            events = [e for e in events if e.timestamp < endtime]', False),   # memory: an event starting exactly at the window end is dropped - within the edge tolerance
    (FM, '            events = [e for e in events if e.timestamp <= endtime]', '            events = [e for e in events if e.timestamp + e.duration <= endtime]', True),   # memory: events straddling the window end are dropped
    (FM, '        events = events[:limit]\n', '        events = events[1:limit]\n', True),   # memory: the newest event is dropped
    (FM, '        events = events[:limit]\n', '        events = events[:limit - 1]\n', True),   # memory: one event short of the limit
    (FM, '        elif limit < 0:\n            limit = sys.maxsize', '        elif limit < 0:\n            limit = 1000', True),   # memory: "all" capped
    (FM, '                if (not starttime or starttime <= (e.timestamp + e.duration))', '                if (not starttime or starttime <= e.timestamp)', True),   # count ignores straddling events (the defect fixed in 36426f8)
    (FD, '            milliseconds = 1 + int(endtime.microsecond / 1000)', '            milliseconds = int(endtime.microsecond / 1000)', True),   # window end rounded down: events in the last millisecond are missed
    (FD, '                microsecond=1000 * int(starttime.microsecond / 1000)', '                microsecond=1000 * (1 + int(starttime.microsecond / 1000)) % 1000000', True),   # window start rounded up
    (FD, '            second_offset = int(milliseconds / 1000)  # usually 0, rarely 1', '            second_offset = 0', True),   # overflow into the next second lost
    (FD, '        return self.ds.storage_strategy.get_events(\n            self.bucket_id, limit, starttime, endtime\n        )', '        return self.ds.storage_strategy.get_events(\n            self.bucket_id, limit, endtime, starttime\n        )', True),   # bounds swapped
    (F, '            AND endtime >= ? AND starttime <= ?\n', '            AND endtime > ? AND starttime <= ?\n', True),   # window lower bound exclusive: tolerated at a given edge, but with no start bound (0 is passed) an event ending exactly at the epoch is lost
    (F, '            AND endtime >= ? AND starttime <= ?\n', '            AND endtime >= ? AND starttime < ?\n', False),   # window upper bound exclusive: within the edge tolerance the property allows (the open-ended bound is 2**63-1)
    (F, '            AND endtime >= ? AND starttime <= ?\n', '            AND starttime >= ? AND starttime <= ?\n', True),   # window tests start only
    (F, '            ORDER BY starttime DESC, endtime DESC, id DESC LIMIT ?\n', '            ORDER BY starttime ASC, endtime DESC, id DESC LIMIT ?\n', True),   # oldest first
    (F, '            ORDER BY starttime DESC, endtime DESC, id DESC LIMIT ?\n', '            ORDER BY endtime DESC, starttime DESC, id DESC LIMIT ?\n', True),   # order by end first
    (F, '        if limit == 0:\n            return []\n        elif limit < 0:\n            limit = -1', '        if limit == 0:\n            limit = -1\n        elif limit < 0:\n            limit = -1', True),   # limit 0 returns everything
]
