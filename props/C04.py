"""C04 - operations addressed to one bucket never change any other bucket."""
S = "aw_datastore.storages.sqlite.SqliteStorage."
D = "aw_datastore.datastore."
MS = "aw_datastore.storages.memory.MemoryStorage."
PROP = dict(
    id="C04",
    level="other",
    contract_modules=["contracts.models", "contracts.sqlite", "contracts.datastore", "contracts.memory"],
    spec_modules=["contracts.sqlite", "contracts.datastore", "contracts.memory"],
    functions=[dict(fn=S + "delete", rt_skip=True),
               dict(fn=S + "replace", rt_skip=True),
               dict(fn=S + "replace_last", rt_skip=True),
               dict(fn=S + "insert_one", rt_skip=True),
               dict(fn=S + "insert_many", rt_skip=True),
               dict(fn=S + "create_bucket", rt_skip=True),
               dict(fn=S + "delete_bucket", rt_skip=True),
               dict(fn=D + "Bucket.delete", rt_skip=True),
               dict(fn=D + "Bucket.replace", rt_skip=True),
               dict(fn=D + "Bucket.replace_last", rt_skip=True),
               dict(fn=D + "Bucket.insert", contract_key=D + "Bucket.insert:one", rt_skip=True),
               dict(fn=D + "Bucket.insert", contract_key=D + "Bucket.insert:many", rt_skip=True),
               dict(fn=D + "Datastore.create_bucket", rt_skip=True),
               dict(fn=D + "Datastore.delete_bucket", rt_skip=True),
               dict(fn=D + "Datastore.__getitem__", rt_skip=True),
               dict(fn=S + "buckets", rt_skip=True),
               dict(fn=MS + "delete", rt_skip=True),
               dict(fn=MS + "replace", rt_skip=True),
               dict(fn=MS + "replace_last", rt_skip=True),
               dict(fn=MS + "insert_one", contract_key=MS + "insert_one:new", rt_skip=True),
               dict(fn="aw_datastore.storages.abstract.AbstractStorage.insert_many", contract_key="aw_datastore.storages.abstract.AbstractStorage.insert_many" + ":memory", runs_as=MS + "insert_many", rt_skip=True),
               dict(fn="aw_datastore.storages.abstract.AbstractStorage.insert_many", contract_key="aw_datastore.storages.abstract.AbstractStorage.insert_many" + ":memory-upsert", runs_as=MS + "insert_many", rt_skip=True),
               dict(fn=MS + "create_bucket", rt_skip=True),
               dict(fn=MS + "delete_bucket", rt_skip=True)],
    timeout_s=20,
    extra=[lambda run: run.storage_histories("C04")],
    technique="run-time refinement check of the real back ends against a reference list over random histories (bounded); "
              "with the sqlite methods proved against contracts over the table state (SQL text parsed from the source)",
    explanation="deductive (sqlite): the postcondition of every write method quantifies over *all* event rows and *all* bucket rows: rows outside the addressed bucket (or, for bucket operations, other bucket rows and their events) are equal to their old value, for arbitrary ids and instants; the frame obligations additionally prove nothing outside the connection's tables and the storage's counters is written. The same frame statements are proved one level up for Bucket.* and Datastore.create_bucket / delete_bucket. deductive (memory): every write method's frame is the list of the addressed bucket only (`self.db[bucket][]`): the frame obligations prove that no other list, no stored event of another bucket and no metadata entry is written. " 
                "bounded: random multi-bucket histories including operations that pass ids of *another* bucket's events (replace, "
                "insert with id, delete) and update/delete of buckets; after every operation every other bucket must read back exactly "
                "as before (the addressed bucket is re-synchronised after such an operation: it may be affected or the call rejected).",
)

F = "/repo/aw_datastore/storages/sqlite.py"
FD = "/repo/aw_datastore/datastore.py"
MUTANTS = [
    (FD, '        return self.ds.storage_strategy.delete(self.bucket_id, event_id)', '        return self.ds.storage_strategy.delete(self.ds.storage_strategy.buckets().__iter__().__next__(), event_id)', True),   # deletes from another bucket
    (F, '                     WHERE id = ? AND bucketrow = (SELECT rowid FROM buckets WHERE id = ?)"""\n        self.conn.execute(\n            query, [bucket_id, starttime, endtime, datastr, event_id, bucket_id]', '                     WHERE id = ?"""\n        self.conn.execute(\n            query, [bucket_id, starttime, endtime, datastr, event_id]', True),   # replace steals events of other buckets
    (F, '"DELETE FROM events WHERE bucketrow IN (SELECT rowid FROM buckets WHERE id = ?)",\n            [bucket_id],', '"DELETE FROM events WHERE bucketrow IN (SELECT rowid FROM buckets WHERE id >= ?)",\n            [bucket_id],', True),   # delete_bucket removes events of later buckets
    (F, '                        SELECT id FROM events WHERE bucketrow =\n                            (SELECT rowid FROM buckets WHERE id = ?)\n                        ORDER BY', '                        SELECT id FROM events WHERE endtime >= 0\n                        ORDER BY', True),   # replace_last global
]
