"""C04 - operations addressed to one bucket never change any other bucket."""
PROP = dict(
    id="C04",
    level="other",
    contract_modules=["contracts.models"],
    spec_modules=["contracts.models"],
    functions=[],
    extra=[lambda run: run.storage_histories("C04")],
    technique="run-time refinement check of the real back ends against a reference list over random histories (bounded); "
              "contract-based proof of the sqlite methods is layered on top where built",
    explanation="bounded: random multi-bucket histories including operations that pass ids of *another* bucket's events (replace, "
                "insert with id, delete) and update/delete of buckets; after every operation every other bucket must read back exactly "
                "as before (the addressed bucket is re-synchronised after such an operation: it may be affected or the call rejected).",
)
