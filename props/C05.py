"""C05 - bucket lifecycle: create, list, describe, update, delete behave as a keyed map."""
S = "aw_datastore.storages.sqlite.SqliteStorage."
D = "aw_datastore.datastore."
MS = "aw_datastore.storages.memory.MemoryStorage."
PROP = dict(
    id="C05",
    level="other",
    contract_modules=["contracts.models", "contracts.sqlite", "contracts.datastore", "contracts.memory"],
    spec_modules=["contracts.sqlite", "contracts.datastore", "contracts.memory"],
    functions=[dict(fn=S + "create_bucket", rt_skip=True),
               dict(fn=S + "delete_bucket", rt_skip=True),
               dict(fn=S + "get_metadata", rt_skip=True),
               dict(fn=S + "buckets", rt_skip=True),
               dict(fn=S + "update_bucket", rt_skip=True),
               dict(fn=D + "Datastore.buckets", rt_skip=True),
               dict(fn=D + "Datastore.__getitem__", rt_skip=True),
               dict(fn=D + "Datastore.create_bucket", rt_skip=True),
               dict(fn=D + "Datastore.delete_bucket", rt_skip=True),
               dict(fn=D + "Bucket.metadata", rt_skip=True),
               dict(fn=S + "commit", rt_skip=True),
               dict(fn=MS + "create_bucket", rt_skip=True),
               dict(fn=MS + "delete_bucket", rt_skip=True),
               dict(fn=MS + "get_metadata", rt_skip=True),
               dict(fn=MS + "update_bucket", rt_skip=True),
               dict(fn=MS + "buckets", rt_skip=True)],
    timeout_s=20,
    extra=[lambda run: run.storage_histories("C05")],
    technique="run-time refinement check of the real back ends against a reference list over random histories (bounded); "
              "with the sqlite methods proved against contracts over the table state (SQL text parsed from the source)",
    explanation="deductive (sqlite): create_bucket adds exactly one bucket row (row id never used before) with exactly the metadata given, empty, durable on return, and raises IntegrityError leaving everything unchanged if the id exists; delete_bucket removes the row and all of its events and nothing else, durable on return, ValueError if absent; get_metadata / buckets() describe exactly the live rows. update_bucket assembles its SQL text from the fields supplied: it is proved by cases on which of its five Optional parameters are given (32 cases, in each of which the text is a constant that is parsed like any other): only the fields supplied change, only in the addressed bucket row, and the change is durable on return; with nothing supplied, or for a missing bucket, it raises ValueError and changes nothing. Datastore (sqlite configuration): the handle cache satisfies cache_inv (every cached handle is the handle of an existing bucket, filed under its own id) before and after every method; __getitem__ returns the handle of an existing bucket and raises KeyError exactly when the bucket does not exist; create_bucket / delete_bucket carry the storage postconditions and keep the cache consistent (a deleted bucket's handle is dropped, so re-creation starts from the database). deductive (memory): create_bucket adds an empty list and a fresh metadata dict with exactly the values given (name defaulting to the id), leaving every other bucket's list and metadata object in place; delete_bucket removes both entries, or raises ValueError and changes nothing; get_metadata returns a fresh equal copy. " 
                "bounded: random histories of bucket create / update / delete / re-create mixed with event writes and lookups of missing buckets (KeyError for lookup, ValueError for describe/update/delete, nothing changed) on the three back ends against the reference map.",
)

F = "/repo/aw_datastore/storages/sqlite.py"
FD = "/repo/aw_datastore/datastore.py"
FM = "/repo/aw_datastore/storages/memory.py"
MUTANTS = [
    (F, '            + " WHERE id = ?"', '            + " WHERE id >= ?"', True),                       # update_bucket rewrites later buckets too
    (F, '            ("hostname", hostname),\n', '            ("hostname", client),\n', True),      # hostname set from client
    (F, '        self.conn.execute(sql, (*values, bucket_id))\n        self.commit()\n        return self.get_metadata(bucket_id)', '        self.conn.execute(sql, (*values, bucket_id))\n        return self.get_metadata(bucket_id)', True),   # update not durable on return
    (FM, '        if bucket_id in self.db:\n            del self.db[bucket_id]\n', '', True),   # events survive delete_bucket
    (FM, '        if not name:\n            name = bucket_id\n', '', True),   # name not defaulted
    (FD, '        if bucket_id in self.bucket_instances:\n            del self.bucket_instances[bucket_id]\n        return self.storage_strategy.delete_bucket(bucket_id)', '        return self.storage_strategy.delete_bucket(bucket_id)', True),   # stale handle survives delete_bucket
    (FD, '            if bucket_id in self.buckets():\n                bucket = Bucket(self, bucket_id)', '            if True:\n                bucket = Bucket(self, bucket_id)', True),   # handles for buckets that do not exist
    (FD, '                self.bucket_instances[bucket_id] = bucket\n', '                self.bucket_instances[bucket_id + ""] = bucket\n', False),   # same key
    (F, 'cursor = self.conn.execute("DELETE FROM buckets WHERE id = ?", [bucket_id])', 'cursor = self.conn.execute("DELETE FROM buckets WHERE id >= ?", [bucket_id])', True),   # delete_bucket removes later buckets
    (F, '        if cursor.rowcount != 1:\n            raise ValueError("Bucket did not exist, could not delete")', '        if cursor.rowcount > 1:\n            raise ValueError("Bucket did not exist, could not delete")', True),   # deleting a missing bucket succeeds
    (F, '                "hostname": row[4],\n                "created": row[5],\n                "data": json.loads(row[6] or "{}"),\n            }\n        return buckets', '                "hostname": row[3],\n                "created": row[5],\n                "data": json.loads(row[6] or "{}"),\n            }\n        return buckets', True),   # listing shows client as hostname
    (FM, '            if data is not None:\n                self._metadata[bucket_id]["data"] = data', '            if data:\n                self._metadata[bucket_id]["data"] = data', True),   # reverts 15a9dd8: an empty data dict is ignored
    (FM, '            if hostname:\n                self._metadata[bucket_id]["hostname"] = hostname', '            if hostname:\n                self._metadata[bucket_id]["hostname"] = client', True),   # memory: hostname set from client
    (FM, '            if name:\n                self._metadata[bucket_id]["name"] = name\n', '            if name:\n                self._metadata[bucket_id]["name"] = name\n            self._metadata[bucket_id]["created"] = ""\n', True),   # memory: update clobbers a field not supplied
    (FM, '            buckets[bucket_id] = self.get_metadata(bucket_id)', '            buckets[bucket_id] = self._metadata[bucket_id]', True),   # memory: the listing hands out the stored metadata entries
    (FM, '        for bucket_id in self.db:\n            buckets[bucket_id] = self.get_metadata(bucket_id)', '        for bucket_id in self.db:\n            if len(self.db[bucket_id]) > 0:\n                buckets[bucket_id] = self.get_metadata(bucket_id)', True),   # memory: empty buckets are not listed
]
