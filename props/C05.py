"""C05 - bucket lifecycle: create, list, describe, update, delete behave as a keyed map."""
PROP = dict(
    id="C05",
    level="other",
    contract_modules=["contracts.models"],
    spec_modules=["contracts.models"],
    functions=[],
    extra=[lambda run: run.storage_histories("C05")],
    technique="run-time refinement check of the real back ends against a reference list over random histories (bounded); "
              "contract-based proof of the sqlite methods is layered on top where built",
    explanation="bounded: random histories of bucket create / update / delete / re-create mixed with event writes and lookups of missing buckets (KeyError for lookup, ValueError for describe/update/delete, nothing changed) on the three back ends against the reference map.",
)
