"""C18 - buffered writes are flushed once they are about ten seconds old."""
S = "aw_datastore.storages.sqlite.SqliteStorage."
PROP = dict(
    level_note="proof relative to the trusted base in the evidence file: T-SQLITE / T-PYSQLITE (DML opens a transaction that ends only at commit(); conn.commit() is called by SqliteStorage.commit() only, which also records the time in last_commit), A-CLOCK (datetime.now() is monotone), T-WAL (committed means durable). The bounded trickle harness is an additional cross-check, not part of the claim.",
    id="C18",
    level="proof",
    contract_modules=["contracts.models", "contracts.sqlite"],
    spec_modules=["contracts.sqlite"],
    functions=[dict(fn=S + "commit", rt_skip=True),
               dict(fn=S + "conditional_commit", rt_skip=True),
               dict(fn=S + "delete", rt_skip=True),
               dict(fn=S + "replace", rt_skip=True),
               dict(fn=S + "replace_last", rt_skip=True),
               dict(fn=S + "insert_one", rt_skip=True),
               dict(fn=S + "insert_many", rt_skip=True)],
    timeout_s=20,
    extra=[lambda run: run.storage_mode("c18", what="slow trickle of writes under a controlled clock on the lazily committing sqlite store", backends=["sqlite"])],
    technique="run-time check of the real back ends (bounded); with the sqlite methods proved against contracts over the table state (SQL text parsed from the source)",
    explanation="Only the sqlite store commits lazily, and every function the property depends on is under contract: conditional_commit, and through it every event write method, guarantees: if the lazy store's previous flush is more than ten seconds old when the method is entered (clock reading minus last_commit), no statement is pending when it returns. " 
                "bounded: with the module clock of the sqlite storage replaced by a controlled one, random trickles of single-event writes with inter-arrival gaps between 1 and 30 s are issued; a write issued more than 10 s after the previous flush must be visible to a second connection when it returns.",
)

F = "/repo/aw_datastore/storages/sqlite.py"
MUTANTS = [
    (F, '            if (datetime.now() - self.last_commit) > timedelta(seconds=10):', '            if (datetime.now() - self.last_commit) > timedelta(seconds=100):', True),   # age threshold 100 s
    (F, '            if self.num_uncommitted_statements > 50:\n                self.commit()\n            if (datetime.now()', '            if self.num_uncommitted_statements > 50:\n                self.commit()\n            elif (datetime.now()', False),   # elif is equivalent: after a commit the age test is moot
    (F, '        self.conn.commit()\n        self.last_commit = datetime.now()\n        self.num_uncommitted_statements = 0', '        self.last_commit = datetime.now()\n        self.num_uncommitted_statements = 0', True),   # commit does not commit
]
