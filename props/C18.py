"""C18 - buffered writes are flushed once they are about ten seconds old."""
PROP = dict(
    id="C18",
    level="other",
    contract_modules=["contracts.models"],
    spec_modules=["contracts.models"],
    functions=[],
    extra=[lambda run: run.storage_mode("c18", what="slow trickle of writes under a controlled clock on the lazily committing sqlite store", backends=["sqlite"])],
    technique="run-time check of the real back ends (bounded); contract-based proof of the sqlite methods is layered on top where built",
    explanation="bounded: with the module clock of the sqlite storage replaced by a controlled one, random trickles of single-event writes with inter-arrival gaps between 1 and 30 s are issued; a write issued more than 10 s after the previous flush must be visible to a second connection when it returns.",
)
