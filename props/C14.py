"""C14 - migrating a legacy database to the SQLite store loses nothing."""
PROP = dict(
    id="C14",
    level="other",
    contract_modules=["contracts.models"],
    spec_modules=["contracts.models"],
    functions=[],
    extra=[lambda run: run.storage_mode("c14", runs=(8 if run.tier == "quick" else 80), what="legacy peewee v2 databases (random buckets with data dicts, unicode ids, events carrying ids) migrated by creating the default sqlite store beside them, normal and testing profile", backends=["sqlite"])],
    technique="run-time check of the real code (bounded); contract-based proof is layered on top where built",
    explanation="bounded: random legacy peewee v2 databases (1-3 buckets with unicode ids, optional names and nested data dicts, 0-6 events each inserted singly or in bulk so that they carry ids) are created in a temporary data directory in the normal and the testing profile; the default sqlite store is then created beside them, which triggers the migration; every bucket must be present with the same metadata and every event with the same instant, duration and data, none dropped or duplicated, and the legacy store must still hold what it held (its file bytes are compared too and reported).",
)
