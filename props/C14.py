"""C14 - migrating a legacy database to the SQLite store loses nothing."""
S = "aw_datastore.storages.sqlite.SqliteStorage."
PROP = dict(
    id="C14",
    level="other",
    contract_modules=["contracts.models", "contracts.sqlite", "contracts.migration"],
    spec_modules=["contracts.sqlite", "contracts.migration"],
    functions=[dict(fn="aw_datastore.migration.peewee_v2_to_sqlite_v1", rt_skip=True),
               dict(fn="aw_datastore.migration.check_for_migration", rt_skip=True),
               dict(fn=S + "create_bucket", rt_skip=True),
               dict(fn=S + "insert_many", rt_skip=True),
               dict(fn=S + "replace", rt_skip=True),
               dict(fn=S + "get_metadata", rt_skip=True),
               dict(fn=S + "conditional_commit", rt_skip=True),
               dict(fn=S + "commit", rt_skip=True)],
    timeout_s=20,
    trusted=["T-PEEWEE: PeeweeStorage.__init__/buckets/get_events are assumed contracts (the listing is a dict of well-formed metadata dicts, "
             "the events are fresh objects); the legacy database is observed only through these two calls"],
    extra=[lambda run: run.storage_mode("c14", runs=(8 if run.tier == "quick" else 80), what="legacy peewee v2 databases (random buckets with data dicts, unicode ids, events carrying ids) migrated by creating the default sqlite store beside them, normal and testing profile", backends=["sqlite"])],
    technique="run-time check of the real code (bounded); with the migration function proved against the contracts of the sqlite methods and assumed contracts of the peewee reads",
    explanation="deductive: peewee_v2_to_sqlite_v1 is proved to leave, for every bucket in the legacy listing, a bucket row with exactly the listed metadata (type, client, hostname, created, name, data) and, for every event the legacy store returns for that bucket, a row of that bucket holding the event's encoding - by a loop invariant over the listing, against the discharged contracts of SqliteStorage.create_bucket / insert_many and the ASSUMED contracts of the peewee reads (T-PEEWEE). That ids are dropped before insert_many (so that no event is treated as an update of a missing one) is what makes the invariant provable: the defect repaired in cec4434 is a failing obligation again when reverted. " 
                "bounded: random legacy peewee v2 databases (1-3 buckets with unicode ids, optional names and nested data dicts, 0-6 events each inserted singly or in bulk so that they carry ids) are created in a temporary data directory in the normal and the testing profile; the default sqlite store is then created beside them, which triggers the migration; every bucket must be present with the same metadata and every event with the same instant, duration and data, none dropped or duplicated, and the legacy store must still hold what it held (its file bytes are compared too and reported).",
)

F = "/repo/aw_datastore/migration.py"
MUTANTS = [
    (F, "        for event in bucket_events:\n            event.id = None\n", "", True),                                   # ids kept: events treated as updates of rows that do not exist (cec4434 reverted)
    (F, '            bucket["name"],\n            bucket["data"],\n', '            bucket["name"],\n', True),            # the bucket data table is dropped (cec4434 reverted)
    (F, '            bucket["hostname"],\n            bucket["created"],', '            bucket["client"],\n            bucket["created"],', True),   # hostname replaced by client
    (F, "        bucket_events = pw_db.get_events(bucket_id, -1)", "        bucket_events = pw_db.get_events(bucket_id, -1)[1:]", True),    # the newest event of each bucket is dropped
]
