"""C12 - queries only read: bucket data is unchanged and scoped to the query window."""
S = "aw_datastore.storages.sqlite.SqliteStorage."
PROP = dict(
    trusted=["T-DECORATOR: q2_function / q2_typecheck hand the arguments to the decorated function unchanged (after type checks); contracts are on the functions as defined"],
    id="C12",
    level="other",
    contract_modules=["contracts.models", "contracts.sqlite", "contracts.datastore", "contracts.queryfn"],
    spec_modules=["contracts.sqlite", "contracts.datastore", "contracts.queryfn"],
    functions=[dict(fn=S + "get_events", rt_skip=True),
               dict(fn=S + "get_eventcount", rt_skip=True),
               dict(fn=S + "get_event", rt_skip=True),
               dict(fn=S + "get_metadata", rt_skip=True),
               dict(fn=S + "buckets", rt_skip=True),
               dict(fn="aw_datastore.storages.sqlite._rows_to_events", rt_skip=True),
               dict(fn=S + "commit", rt_skip=True),
               dict(fn="aw_query.functions._verify_bucket_exists", rt_skip=True),
               dict(fn="aw_query.functions.q2_query_bucket", rt_skip=True),
               dict(fn="aw_query.functions.q2_query_bucket_eventcount", rt_skip=True),
               dict(fn="aw_datastore.datastore.Datastore.buckets", rt_skip=True),
               dict(fn="aw_datastore.datastore.Datastore.__getitem__", rt_skip=True),
               dict(fn="aw_datastore.datastore.Bucket.get", rt_skip=True),
               dict(fn="aw_datastore.datastore.Bucket.get_eventcount", rt_skip=True)],
    timeout_s=20,
    extra=[lambda run: run.storage_mode("c12", what="17 query programs (annotating, re-timing, failing midway) on populated stores: bucket dumps before/after, query_bucket vs direct windowed read")],
    technique="run-time check of the real code (bounded); with the read methods of the sqlite store proved pure against contracts over the table state",
    explanation="deductive (sqlite): every read method a query can reach (get_events, get_eventcount, get_event, get_metadata, buckets) leaves every event row and every bucket row of every bucket exactly as it was and issues no statement (postconditions over the whole table state; the flush a read performs only moves the committed mark), writes nothing outside the connection and its own fresh objects (frame obligations), and hands out fresh Event objects with fresh data dicts, so that whatever a query does to the events it was given cannot reach the store. The two functions through which a query reaches the store, query_bucket and query_bucket_eventcount (bodies as defined; the registering decorators are not modelled: T-DECORATOR), are proved against the contracts of Datastore.__getitem__ / Bucket.get / Bucket.get_eventcount: they leave every row of every bucket as it was - also when they raise - and query_bucket returns exactly the events of the named bucket that intersect the window parsed from STARTTIME / ENDTIME (widened to whole milliseconds), as fresh objects. The transforms a query applies afterwards work on those fresh objects. The other back ends and the interpreter are only bounded. " 
                "bounded: on each back end, two populated buckets are dumped (events and metadata), 17 query programs are run with random windows at several UTC offsets - including programs that annotate, clear or re-time events in place and programs that raise midway (unknown function, unknown bucket, wrong arity, undefined variable) - and the dumps must be identical afterwards; query_bucket(b) must equal a direct windowed read of b over the query's start and end, query_bucket_eventcount the matching count.",
)

F = "/repo/aw_query/functions.py"
MUTANTS = [
    (F, "    return datastore[bucketname].get(starttime=starttime, endtime=endtime)", "    return datastore[bucketname].get(starttime=endtime, endtime=starttime)", True),      # window swapped
    (F, "    return datastore[bucketname].get(starttime=starttime, endtime=endtime)", "    return datastore[bucketname].get(starttime=starttime)", True),                          # open-ended window
    (F, "    return datastore[bucketname].get(starttime=starttime, endtime=endtime)", "    datastore[bucketname].delete(1)\n    return datastore[bucketname].get(starttime=starttime, endtime=endtime)", True),   # a query that writes
    ("/repo/aw_datastore/storages/sqlite.py", "        self.commit()\n        c = self.conn.cursor()\n        starttime_i", "        self.conn.execute(\"DELETE FROM events WHERE endtime < 0\")\n        self.commit()\n        c = self.conn.cursor()\n        starttime_i", True),   # a read that cleans up
]
