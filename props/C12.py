"""C12 - queries only read: bucket data is unchanged and scoped to the query window."""
PROP = dict(
    id="C12",
    level="other",
    contract_modules=["contracts.models"],
    spec_modules=["contracts.models"],
    functions=[],
    extra=[lambda run: run.storage_mode("c12", what="17 query programs (annotating, re-timing, failing midway) on populated stores: bucket dumps before/after, query_bucket vs direct windowed read")],
    technique="run-time check of the real code (bounded); contract-based proof is layered on top where built",
    explanation="bounded: on each back end, two populated buckets are dumped (events and metadata), 17 query programs are run with random windows at several UTC offsets - including programs that annotate, clear or re-time events in place and programs that raise midway (unknown function, unknown bucket, wrong arity, undefined variable) - and the dumps must be identical afterwards; query_bucket(b) must equal a direct windowed read of b over the query's start and end, query_bucket_eventcount the matching count.",
)
