"""C19 - annotating transforms add their keys and leave everything else alone."""
C = "aw_transform.classify."
DATA = [{}, {"title": "abc", "app": "x"}, {"title": "(2) Facebook"}, {"url": "http://www.a.b/c?d#e", "title": "t"}, {"title": "FPS: 59.2", "app": "y"}]
PROP = dict(
    id="C19",
    level="proof",
    contract_modules=["contracts.models", "contracts.classify"],
    spec_modules=["contracts.classify"],
    functions=[
        dict(fn=C + "Rule.__init__", rt_skip=True),
        dict(fn=C + "Rule.match", rt_skip=True),
        dict(fn=C + "_pick_deepest_cat", rt_skip=True),
        dict(fn=C + "_pick_category", rt_skip=True),
        dict(fn=C + "_categorize_one", rt_skip=True),
        dict(fn=C + "_tag_one", rt_skip=True),
        dict(fn=C + "categorize", rt_skip=True),
        dict(fn=C + "tag", rt_skip=True),
        dict(fn="aw_transform.split_url_events.split_url_events", scope={"list": 3, "data": DATA}),
        dict(fn="aw_transform.simplify.simplify_string", scope={"list": 3, "data": [d for d in DATA if "title" in d], "strs": ["title"]}),
    ],
    scope={"list": 3, "data": DATA},
    extra=[lambda run: run.transform_mode("c19", 400 if run.tier == "quick" else 20000,
                                          "categorize / tag on the real functions against a reference written from the statement "
                                          "(deepest matching rule, later rule wins ties, regex found in any selected string value)")],
    timeout_s=20,
    trusted=["T-RE: re.compile/search/sub are uninterpreted functions of (pattern, flags, text)",
             "T-URL: urllib.parse.urlparse components are uninterpreted functions of the url"],
    explanation="Rule.__init__ (regex compiled only when non-empty, IGNORECASE exactly when asked), Rule.match (non-empty regex found "
                "in any selected string value), _pick_category (deepest, later wins ties, 'Uncategorized' when empty; reduce executed "
                "as a loop with invariant), _categorize_one/_tag_one (only the $-key written; exact category / exactly the matching tags "
                "in rule order), categorize/tag (same events in the same order, timestamps/durations/ids/other data untouched; per-event "
                "clauses lifted by the parallel-map rule A-PARMAP under pairwise distinct data dicts), split_url_events (six $-keys = "
                "components of the url, everything else unchanged) and simplify_string (fresh copies, only the given key rewritten, "
                "input unmodified) are all discharged from the source. What a regex matches and how a URL splits are uninterpreted.",
)
F = "/repo/aw_transform/classify.py"
MUTANTS = [
    (F, "return t2 if len(t2) >= len(t1) else t1", "return t2 if len(t2) > len(t1) else t1", True),
    (F, "(re.IGNORECASE if self.ignore_case else 0) | re.UNICODE", "(re.IGNORECASE if not self.ignore_case else 0) | re.UNICODE", True),
    (F, "            if regex_str\n", "            if regex_str is not None\n", True),
    (F, "                if isinstance(val, str) and self.regex.search(val):\n                    return True", "                if isinstance(val, str) and self.regex.search(val):\n                    return False", True),
    (F, 'e.data["$tags"] = [_cls for _cls, rule in classes if rule.match(e)]', 'e.data["$tags"] = [_cls for _cls, rule in classes if not rule.match(e)]', True),
    (F, 'return reduce(_pick_deepest_cat, tags, ["Uncategorized"])', 'return reduce(_pick_deepest_cat, tags, ["Uncategorized", "x"])', True),
    ("/repo/aw_transform/split_url_events.py", 'event.data["$options"] = parsed_url.query', 'event.data["$options"] = parsed_url.params', True),
    ("/repo/aw_transform/simplify.py", "    events = deepcopy(events)\n", "    events = list(events)\n", True),
]
