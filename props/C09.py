"""C09 - interval intersection and union of event lists are exact."""
M = "aw_transform.filter_period_intersect."
T = "timeslot.timeslot.Timeslot."
SCOPE = {"list": 3, "grid": 8, "durs": [0, 0, 1, 2, 3, 5], "data": [{}, {"a": 1}, {"a": 2}]}
PROP = dict(
    id="C09",
    level="proof",
    contract_modules=["contracts.models", "contracts.timeslot", "contracts.intersect"],
    spec_modules=["contracts.timeslot", "contracts.intersect"],
    functions=[
        dict(fn=T + "intersection", scope={"grid": 6}),
        dict(fn=T + "gap", scope={"grid": 6}),
        dict(fn=T + "union", scope={"grid": 6}),
        dict(fn=T + "overlaps", scope={"grid": 6}),
        dict(fn=M + "_replace_event_period"),
        dict(fn=M + "_intersecting_eventpairs", rt_skip=True),
        dict(fn=M + "filter_period_intersect"),
        dict(fn=M + "period_union"),
    ],
    scope=SCOPE,
    timeout_s=20,
    assumptions=["A-GEN"],
    explanation="Timeslot.intersection/gap/union/overlaps are verified from the installed source; the two-pointer sweep "
                "carries soundness, completeness (ghost witness map) and no-double-count as loop invariants; "
                "filter_period_intersect's postcondition is the statement over the caller's unsorted lists (pieces = e∩f, "
                "one per positively overlapping pair, inputs unmodified); period_union: strictly positive gaps, data-less, "
                "every input inside an output and every instant of every output inside an input (pointwise union equality). "
                "The 'total duration equals the measure' clause follows from these by finite additivity and is not a separate "
                "obligation; it is evaluated at run time (native_ensures) in the bounded search only.",
)

F = "/repo/aw_transform/filter_period_intersect.py"
TSF = "/venv/lib/python3.12/site-packages/timeslot/timeslot.py"
MUTANTS = [
    (F, "if e1_p.end <= e2_p.end:\n                e1_i += 1", "if e1_p.end < e2_p.end:\n                e1_i += 1", False),  # equal ends: advancing either index is correct
    (F, "if e1_p.end <= e2_p.start:", "if e1_p.end < e2_p.start:", True),
    (F, "yield (e1, e2, ip)", "yield (e1, e2, e1_p)", True),
    (F, "    e = deepcopy(event)\n", "    e = event\n", True),
    (F, "if not e_p.gap(le_p):", "if e_p.intersects(le_p):", True),
    (F, "merged_events.append(e)\n    for event", "merged_events.append(last_event)\n    for event", True),
    (F, "events = sorted(events)\n    filterevents", "events.sort()\n    filterevents", True),
    (F, "e.duration = period.duration", "e.duration = period.duration + period.duration - period.duration", False),
    (F, "    e1_i = 0\n    e2_i = 0\n    while e1_i", "    e2_i = 0\n    e1_i = 0\n    while e1_i", False),
    (TSF, "elif self.start <= other.start < self.end:", "elif self.start <= other.start <= self.end:", True),
    (TSF, "return Timeslot(min(self.start, other.start), max(self.end, other.end))", "return Timeslot(self.start, max(self.end, other.end))", True),
]
