"""C20 - effective configuration is the defaults overlaid by the user's file."""
PROP = dict(
    id="C20",
    level="other",
    contract_modules=["contracts.models", "contracts.config"],
    spec_modules=["contracts.config"],
    functions=[
        dict(fn="aw_core.config._merge", scope={"keys": ["x", "y", "t"], "jvs": [1, 1.0, True, 2, "s", [1], {"n": 1}, {"n": 2, "m": 1}]}),
        dict(fn="aw_core.config._merge", contract_key="aw_core.config._merge:d1", rt_skip=True),
        dict(fn="aw_core.config.load_config_toml", contract_key="aw_core.config.load_config_toml", bounded_only=True, budget=300,
             rt_fn="contracts.config.load_config_harness"),
    ],
    executor_flags={"jv_pyeq_mode": True},
    timeout_s=20,
    technique="contract-based deductive verification of _merge at one and at two nesting levels (Python's == uninterpreted); run-time contract "
              "against an executable reference for deeper documents, file handling and the commented-out first-run file (bounded)",
    explanation="Proved for all flat documents (no key holds a table on both sides; the recursive branch is then provably dead): the "
                "result is the defaults' dict holding the union of keys, the default where the user sets nothing, and the user's very "
                "value for every key the user sets - identity of values, not Python's ==, which is uninterpreted (1 == 1.0 == True); "
                "the user's document is not modified.  Proved as well for documents with one level of tables on both sides (tables of plain values - the shape of [section] key = value files; variant :d1, tree-shaped documents: the tables are pairwise distinct objects): a key that holds a table on both sides keeps the defaults' table object, which is merged in place - every key of the user's table is in it with the user's very value, and the user's tables are untouched; every other key as in the flat case.  The descent: the recursive call is met with the flat contract, whose precondition is obliged at the call and under which the function is proved not to recurse.  Bounded (run-time contract on the real load_config_toml in a temporary config "
                "directory, generated default/user TOML documents nested up to three deep, with and without an existing file): deep merge "
                "equals an independent reference merge with value *and type* equality, an existing file is byte-identical afterwards, the "
                "file written on first run parses to a document that leaves the defaults unchanged.  tomlkit's grammar is trusted (T-TOML).",
    trusted=["T-TOML: tomlkit.parse / tomlkit containers implement TOML and the dict protocol"],
)
F = "/repo/aw_core/config.py"
MUTANTS = [
    (F, "                a[key] = b[key]\n        else:\n            a[key] = b[key]", "                a[key] = b[key]\n        else:\n            pass", True),
    (F, "            else:\n                # Always take", "            elif a[key] == b[key]:\n                pass\n            else:\n                # Always take", True),
    (F, "    for key in b:\n        if key in a:", "    for key in b:\n        if key not in a:", True),
    (F, "    return a\n\n\ndef _comment", "    return b\n\n\ndef _comment", True),
    (F, "                _merge(a[key], b[key], path + [str(key)])", "                _merge(b[key], a[key], path + [str(key)])", True),   # nested tables merged the wrong way round (the user's table is overwritten)
    (F, "                _merge(a[key], b[key], path + [str(key)])", "                pass", True),   # nested tables keep the defaults
    (F, "            if isinstance(a[key], dict) and isinstance(b[key], dict):", "            if isinstance(a[key], dict) or isinstance(b[key], dict):", True),   # a table is merged with a plain value
]
