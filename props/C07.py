"""C07 - heartbeat ingestion through the store equals heartbeat_reduce of the stream."""
PROP = dict(
    id="C07",
    level="other",
    contract_modules=["contracts.models"],
    spec_modules=["contracts.models"],
    functions=[],
    extra=[lambda run: run.storage_mode("c07", what="the standard heartbeat loop on the real back ends vs heartbeat_reduce, with a populated neighbour bucket sharing instants")],
    technique="run-time check of the real back ends (bounded); contract-based proof of the sqlite methods is layered on top where built",
    explanation="bounded: random heartbeat streams (strictly increasing timestamps, non-decreasing ends, zero and positive durations, repeated/alternating data, gaps below/at/above the pulsetime) are fed through the standard loop (get(limit=1), heartbeat_merge, replace_last or insert) on memory, sqlite and peewee with a populated second bucket sharing instants; the bucket must hold exactly heartbeat_reduce(stream) and the other bucket must be unchanged. heartbeat_merge/heartbeat_reduce themselves are proved in C08.",
)
