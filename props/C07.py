"""C07 - heartbeat ingestion through the store equals heartbeat_reduce of the stream."""
S = "aw_datastore.storages.sqlite.SqliteStorage."
PROP = dict(
    id="C07",
    level="other",
    contract_modules=["contracts.models", "contracts.heartbeats", "contracts.sqlite"],
    spec_modules=["contracts.heartbeats", "contracts.sqlite"],
    functions=[dict(fn="contracts.sqlite.heartbeat_step", rt_skip=True),
               dict(fn="aw_transform.heartbeats.heartbeat_merge", rt_skip=True),
               dict(fn=S + "get_events", rt_skip=True),
               dict(fn="aw_datastore.storages.sqlite._rows_to_events", rt_skip=True),
               dict(fn=S + "replace_last", rt_skip=True),
               dict(fn=S + "insert_one", rt_skip=True),
               dict(fn=S + "conditional_commit", rt_skip=True),
               dict(fn=S + "commit", rt_skip=True)],
    timeout_s=20,
    extra=[lambda run: run.storage_mode("c07", what="the standard heartbeat loop on the real back ends vs heartbeat_reduce, with a populated neighbour bucket sharing instants")],
    technique="run-time check of the real back ends (bounded); with one step of the standard loop proved as a lemma over the contracts of the sqlite read/replace-last/insert methods and of heartbeat_merge",
    explanation="deductive (sqlite): contracts.sqlite.heartbeat_step is the loop body the statement spells out (limit-1 read, heartbeat_merge, replace_last or insert_one), verified against the *contracts* of those four functions, which are themselves discharged from the source in this check: the step rewrites exactly the newest event of the addressed bucket with the merge result or appends the heartbeat under a never-used id, and every other row of every bucket is as before (no earlier event is altered or lost). That iterating the step yields heartbeat_reduce(stream), and the decode/encode fidelity of the stored floats, are only bounded. " 
                "bounded: random heartbeat streams (strictly increasing timestamps, non-decreasing ends, zero and positive durations, repeated/alternating data, gaps below/at/above the pulsetime) are fed through the standard loop (get(limit=1), heartbeat_merge, replace_last or insert) on memory, sqlite and peewee with a populated second bucket sharing instants; the bucket must hold exactly heartbeat_reduce(stream) and the other bucket must be unchanged. heartbeat_merge/heartbeat_reduce themselves are proved in C08.",
)

F = "/repo/aw_datastore/storages/sqlite.py"
MUTANTS = [
    (F, 'ORDER BY starttime DESC, endtime DESC, id DESC LIMIT 1)"""', 'ORDER BY endtime DESC, starttime DESC, id DESC LIMIT 1)"""', True),   # replace_last and the limit-1 read disagree
    (F, '            ORDER BY starttime DESC, endtime DESC, id DESC LIMIT ?\n', '            ORDER BY starttime DESC, id DESC LIMIT ?\n', True),          # the read picks another tie-break
    ("/repo/aw_transform/heartbeats.py", "if last_event.data == heartbeat.data:", "if last_event.data != heartbeat.data:", True),
]
