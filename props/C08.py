"""C08 - heartbeat merging is the pulsetime hull rule; reduction is a normal form."""
PROP = dict(
    id="C08",
    level="proof",
    contract_modules=["contracts.models", "contracts.heartbeats"],
    spec_modules=["contracts.heartbeats"],
    functions=[
        dict(fn="aw_transform.heartbeats.heartbeat_merge"),
        dict(fn="aw_transform.heartbeats.heartbeat_reduce"),
        dict(fn="aw_transform.heartbeats.heartbeat_reduce", contract_key="aw_transform.heartbeats.heartbeat_reduce:idem"),
    ],
    scope={"list": 3, "grid": 6, "negdur": True, "data": [{}, {"a": 1}, {"a": 2}],
           "floats": [0, 0.001, 0.002, 0.0015, 0.003]},
    timeout_s=20,
    explanation="every clause of the statement is a postcondition of heartbeat_merge / heartbeat_reduce "
                "(or of the loop invariant of heartbeat_reduce) generated from the working tree's source and "
                "discharged by z3; idempotence is the second contract of heartbeat_reduce (identity on normal forms) "
                "combined with its normal-form postcondition",
)
F = "/repo/aw_transform/heartbeats.py"
MUTANTS = [
    (F, "last_event.duration = max((last_event.duration, new_duration))", "last_event.duration = new_duration", True),              # a nested heartbeat shortens the event
    (F, "last_event.timestamp <= heartbeat.timestamp <= pulseperiod_end", "last_event.timestamp <= heartbeat.timestamp < pulseperiod_end", True),   # gap equal to the pulsetime no longer merges
    (F, "if last_event.duration < timedelta(0):", "if last_event.duration <= timedelta(0):", True),                                  # zero-length events never merge
    (F, "            reduced.append(heartbeat)\n    return reduced", "            reduced.append(heartbeat)\n    return reduced[:]", False),  # a copy of the same list contents
    (F, ") + heartbeat.duration\n", ") + heartbeat.duration + timedelta(0)\n", False),
]
