"""C06 - after a crash the database holds a prefix of what was done, minus a bounded tail."""
S = "aw_datastore.storages.sqlite.SqliteStorage."
PROP = dict(
    id="C06",
    level="other",
    contract_modules=["contracts.models", "contracts.sqlite", "contracts.migration"],
    spec_modules=["contracts.sqlite", "contracts.migration"],
    functions=[dict(fn=S + "__init__", rt_skip=True),
               dict(fn="aw_datastore.migration.check_for_migration", rt_skip=True),
               dict(fn="aw_datastore.migration.peewee_v2_to_sqlite_v1", rt_skip=True),
               dict(fn=S + "get_metadata", rt_skip=True),
               dict(fn=S + "commit", rt_skip=True),
               dict(fn=S + "conditional_commit", rt_skip=True),
               dict(fn=S + "delete", rt_skip=True),
               dict(fn=S + "replace", rt_skip=True),
               dict(fn=S + "replace_last", rt_skip=True),
               dict(fn=S + "insert_one", rt_skip=True),
               dict(fn=S + "insert_many", rt_skip=True),
               dict(fn=S + "create_bucket", rt_skip=True),
               dict(fn=S + "delete_bucket", rt_skip=True)],
    timeout_s=20,
    extra=[lambda run: run.storage_mode("c06", what="what a second connection sees after every operation (= what survives a crash) on sqlite (lazy commit) and peewee", backends=["sqlite", "peewee"]), lambda run: run.storage_mode("c06del", runs=1, what="a run of 150 deletions on the lazily committing store", backends=["sqlite"]),
           lambda run: run.storage_mode("c06mig", runs=(6 if run.tier == "quick" else 40), what="the store created next to a legacy database (migration inside __init__), then up to 50 single inserts: pending writes vs the statement counter and the documented bound", backends=["sqlite"])],
    technique="run-time check of the real back ends (bounded); with the sqlite methods proved against contracts over the table state (SQL text parsed from the source)",
    explanation="deductive (sqlite): the constructor establishes the commit discipline (it ends with nothing pending and the counter at 0, also when it has just migrated a legacy database - the defect repaired in c291016 is a failing obligation again when reverted; sqlite3.connect is assumed to open a database that satisfies the schema's constraints: A-DBFILE), and every method keeps it: commit discipline as the invariant lazy_inv (pending statements <= num_uncommitted_statements <= 50 on the lazy store, 0 pending on the auto-committing one), established by every write method and by conditional_commit; bucket create/delete end with 0 pending statements, and delete_bucket commits exactly once, after its last statement (not split). What a crash preserves given the committed prefix is SQLite's (T-WAL). " 
                "bounded: after every operation of random histories the database file is read through a second connection (what a process started after a crash would see): it must equal the writer's own state after some earlier operation (a prefix in issue order, no operation split), bucket create/update/delete must be visible on return, at most about 50 buffered event writes (deletions included) may be missing on the lazily committing sqlite store, and every completed operation must be visible on peewee. Process death, WAL recovery and fsync themselves are trusted (T-WAL, T-PYSQLITE).",
)

F = "/repo/aw_datastore/storages/sqlite.py"
MUTANTS = [
    (F, "        self.commit()\n\n    def commit(self):", "        self.last_commit = datetime.now()\n        self.num_uncommitted_statements = 0\n\n    def commit(self):", True),   # c291016 reverted: counter reset while the migration's writes are pending
    (F, '            if self.num_uncommitted_statements > 50:\n                self.commit()', '            if self.num_uncommitted_statements > 500:\n                self.commit()', True),   # count threshold 500
    (F, '        cursor = self.conn.execute("DELETE FROM buckets WHERE id = ?", [bucket_id])\n        self.commit()', '        self.commit()\n        cursor = self.conn.execute("DELETE FROM buckets WHERE id = ?", [bucket_id])\n        self.commit()', True),   # delete_bucket split by a commit
    (F, '        cursor = self.conn.execute(query, [event_id, bucket_id])\n        # Deletes are buffered writes as well, they need to be counted and eventually committed\n        self.conditional_commit(1)', '        cursor = self.conn.execute(query, [event_id, bucket_id])\n        # Deletes are buffered writes as well, they need to be counted and eventually committed\n        self.conditional_commit(0)', True),   # deletes not counted
    (F, '        self.conn.executemany(query, event_rows)\n        self.conditional_commit(len(event_rows))', '        self.conn.executemany(query, event_rows)\n        self.conditional_commit(1)', True),   # bulk insert counted as one
]
