"""C06 - after a crash the database holds a prefix of what was done, minus a bounded tail."""
PROP = dict(
    id="C06",
    level="other",
    contract_modules=["contracts.models"],
    spec_modules=["contracts.models"],
    functions=[],
    extra=[lambda run: run.storage_mode("c06", what="what a second connection sees after every operation (= what survives a crash) on sqlite (lazy commit) and peewee", backends=["sqlite", "peewee"]), lambda run: run.storage_mode("c06del", runs=1, what="a run of 150 deletions on the lazily committing store", backends=["sqlite"])],
    technique="run-time check of the real back ends (bounded); contract-based proof of the sqlite methods is layered on top where built",
    explanation="bounded: after every operation of random histories the database file is read through a second connection (what a process started after a crash would see): it must equal the writer's own state after some earlier operation (a prefix in issue order, no operation split), bucket create/update/delete must be visible on return, at most about 50 buffered event writes (deletions included) may be missing on the lazily committing sqlite store, and every completed operation must be visible on peewee. Process death, WAL recovery and fsync themselves are trusted (T-WAL, T-PYSQLITE).",
)
