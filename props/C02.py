"""C02 - every backend behaves like one simple per-bucket event list under any history."""
S = "aw_datastore.storages.sqlite.SqliteStorage."
D = "aw_datastore.datastore."
MS = "aw_datastore.storages.memory.MemoryStorage."
PROP = dict(
    id="C02",
    level="other",
    contract_modules=["contracts.models", "contracts.sqlite", "contracts.datastore", "contracts.memory"],
    spec_modules=["contracts.sqlite", "contracts.datastore", "contracts.memory"],
    functions=[dict(fn=S + "delete", rt_skip=True),
               dict(fn=S + "replace", rt_skip=True),
               dict(fn=S + "replace_last", rt_skip=True),
               dict(fn=S + "insert_one", rt_skip=True),
               dict(fn=S + "insert_many", rt_skip=True),
               dict(fn=S + "get_event", rt_skip=True),
               dict(fn=S + "get_events", rt_skip=True),
               dict(fn=S + "get_eventcount", rt_skip=True),
               dict(fn="aw_datastore.storages.sqlite._rows_to_events", rt_skip=True),
               dict(fn=D + "Bucket.delete", rt_skip=True),
               dict(fn=D + "Bucket.replace", rt_skip=True),
               dict(fn=D + "Bucket.replace_last", rt_skip=True),
               dict(fn=D + "Bucket.get_by_id", rt_skip=True),
               dict(fn=D + "Bucket.insert", contract_key=D + "Bucket.insert:one", rt_skip=True),
               dict(fn=D + "Bucket.insert", contract_key=D + "Bucket.insert:many", rt_skip=True),
               dict(fn=D + "Datastore.__getitem__", rt_skip=True),
               dict(fn=S + "buckets", rt_skip=True),
               dict(fn=MS + "delete", rt_skip=True),
               dict(fn=MS + "replace", rt_skip=True),
               dict(fn=MS + "replace_last", rt_skip=True),
               dict(fn=MS + "insert_one", contract_key=MS + "insert_one:new", rt_skip=True),
               dict(fn="aw_datastore.storages.abstract.AbstractStorage.insert_many", contract_key="aw_datastore.storages.abstract.AbstractStorage.insert_many" + ":memory", runs_as=MS + "insert_many", rt_skip=True),
               dict(fn="aw_datastore.storages.abstract.AbstractStorage.insert_many", contract_key="aw_datastore.storages.abstract.AbstractStorage.insert_many" + ":memory-upsert", runs_as=MS + "insert_many", rt_skip=True),
               dict(fn=MS + "insert_one", contract_key=MS + "insert_one:existing", rt_skip=True),
               dict(fn=MS + "_get_event", rt_skip=True),
               dict(fn=MS + "get_event", rt_skip=True),
               dict(fn=MS + "get_eventcount", rt_skip=True),
               dict(fn=MS + "get_events", rt_skip=True)],
    timeout_s=20,
    extra=[lambda run: run.storage_histories("C02")],
    technique="run-time refinement check of the real back ends against a reference list over random histories (bounded); "
              "with the sqlite methods proved against contracts over the table state (SQL text parsed from the source)",
    explanation="deductive (sqlite): delete removes exactly the addressed live event of the addressed bucket and nothing else; replace rewrites exactly that row; replace_last rewrites exactly the row a limit-1 read returns (greatest (starttime, endtime, id)), keeping id and bucket; insert_one / insert_many add rows with ids above the high-water mark (never reused: the mark never decreases in any method) and upsert by the last event carrying each id; get_event / get_events / get_eventcount describe exactly the live rows of the bucket - each as a postcondition over the whole table state (every other row of every bucket unchanged), proved from the SQL text in the source under the relational semantics of pyvc/sqlsem.py. At the API level (sqlite configuration) Bucket.insert / delete / replace / replace_last / get_by_id and Datastore.__getitem__ are proved to carry exactly the storage method's postcondition for the handle's own bucket id. deductive (memory): insert_many - the loop MemoryStorage inherits from AbstractStorage (abstract.py), verified against the contract of MemoryStorage.insert_one - appends, for events without ids, one fresh copy per event in order, each equal in value to its event, under an id that differs from the id of every event stored before it (ids are never reused within or across bulk inserts), leaves the stored events and the caller's events untouched; for events that all carry ids (bulk upsert, each call met with the upsert contract of insert_one) a partial contract: length and ids kept position by position, positions whose id no event carries hold the same object, every rewritten position holds an object of the store's own, the caller's events untouched (which event's values win is bounded only); delete removes exactly the last list entry carrying the id and keeps the order of the rest; replace / replace_last rewrite every entry carrying the id (replace_last: the id of an entry with the greatest timestamp) with a copy of the caller's event and touch nothing else; get_event returns a copy of the last entry carrying the id; get_eventcount counts exactly the entries intersecting the window. " 
                "bounded: random histories of insert / bulk upsert / replace / replace-last / delete / reads on memory, sqlite and "
                "peewee are compared, after every operation, with a plain per-bucket reference list (contents by id, lookup-by-id, "
                "counts, metadata); replace-last must rewrite exactly the event a limit-1 read returned immediately before.",
)

F = "/repo/aw_datastore/storages/sqlite.py"
FM = "/repo/aw_datastore/storages/memory.py"
MUTANTS = [
    ('/repo/aw_datastore/storages/abstract.py', '        for event in events:\n            self.insert_one(bucket_id, event)', '        for i in range(len(events)):\n            self.insert_one(bucket_id, events[i])', False),   # the same loop written over indices: no alarm
    ('/repo/aw_datastore/storages/abstract.py', '        for event in events:\n            self.insert_one(bucket_id, event)', '        for ev in events:\n            stored = self.insert_one(bucket_id, ev)', False),   # renamed local, result bound: no alarm
    ('/repo/aw_datastore/storages/abstract.py', '        for event in events:\n            self.insert_one(bucket_id, event)', '        for event in events[1:]:\n            self.insert_one(bucket_id, event)', True),   # inherited bulk insert drops the first event
    ('/repo/aw_datastore/storages/abstract.py', '        for event in events:\n            self.insert_one(bucket_id, event)', '        for event in reversed(events):\n            self.insert_one(bucket_id, event)', True),   # inherited bulk insert stores in reverse order
    (FM, '                event.id = max(int(e.id or 0) for e in self.db[bucket]) + 1', '                event.id = len(self.db[bucket])', True),   # ids reused after a delete
    (FM, '            self.db[bucket_id].pop(idx)\n            return True', '            self.db[bucket_id].pop(0)\n            return True', True),   # delete removes the first event
    (FM, '        last = sorted(self.db[bucket_id], key=lambda e: e.timestamp)[-1]', '        last = self.db[bucket_id][-1]', True),   # replace_last takes the last inserted
    (F, 'WHERE id = ? AND bucketrow = (SELECT b.rowid FROM buckets b WHERE b.id = ?)"', 'WHERE id = ?"', True),   # delete ignores the bucket
    (F, 'ORDER BY starttime DESC, endtime DESC, id DESC LIMIT 1)"""', 'ORDER BY endtime DESC, id DESC LIMIT 1)"""', True),   # replace_last picks by endtime
    (F, '        event.id = c.lastrowid\n', '        event.id = c.lastrowid + 1\n', True),   # wrong id handed out
    (F, '        events_insert = [e for e in events if e.id is None]', '        events_insert = [e for e in events if e.id is None][1:]', True),   # bulk insert drops first
    (F, '        return cursor.rowcount == 1\n', '        return cursor.rowcount >= 0\n', True),   # delete reports success always
    (F, '            WHERE bucketrow = (SELECT rowid FROM buckets WHERE id = ?) AND id = ?\n            LIMIT 1', '            WHERE id = ?\n            LIMIT 1', True),   # get_event ignores bucket
    (F, '            event_rows.append((bucket_id, starttime, endtime, datastr))', '            event_rows.append((bucket_id, starttime, starttime, datastr))', True),   # bulk insert stores zero duration
    (F, '        self.conditional_commit(len(event_rows))', '        self.conditional_commit(len(events))', False),   # over-counting statements is harmless for contents
    (FM, '        if event.id is not None:\n            self.replace(bucket, event.id, event)', '        if event.id is not None:\n            self.replace(bucket, event.id + 1, event)', True),   # memory: an upsert rewrites the event with the next id
    (FM, '        if event.id is not None:\n            self.replace(bucket, event.id, event)', '        if event.id is not None:\n            self.db[bucket].append(event)', True),   # memory: an upsert appends the caller's own event
]
