"""C02 - every backend behaves like one simple per-bucket event list under any history."""
PROP = dict(
    id="C02",
    level="other",
    contract_modules=["contracts.models"],
    spec_modules=["contracts.models"],
    functions=[],
    extra=[lambda run: run.storage_histories("C02")],
    technique="run-time refinement check of the real back ends against a reference list over random histories (bounded); "
              "contract-based proof of the sqlite methods is layered on top where built",
    explanation="bounded: random histories of insert / bulk upsert / replace / replace-last / delete / reads on memory, sqlite and "
                "peewee are compared, after every operation, with a plain per-bucket reference list (contents by id, lookup-by-id, "
                "counts, metadata); replace-last must rewrite exactly the event a limit-1 read returned immediately before.",
)
