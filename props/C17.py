"""C17 - any query text either parses or is rejected with a query error, and terminates."""
Q = "aw_query.query2."
PROP = dict(
    id="C17",
    level="other",
    contract_modules=["contracts.models", "contracts.query"],
    spec_modules=["contracts.query"],
    functions=[dict(fn=Q + "QInteger.check", rt_skip=True),
               dict(fn=Q + "QVariable.check", rt_skip=True),
               dict(fn=Q + "QString.check", rt_skip=True),
               dict(fn=Q + "QFunction.check", rt_skip=True),
               dict(fn=Q + "QDict.check", rt_skip=True),
               dict(fn=Q + "QList.check", rt_skip=True),
               dict(fn=Q + "_parse_token", rt_skip=True),
               dict(fn=Q + "QInteger.parse", rt_skip=True),
               dict(fn=Q + "QVariable.parse", rt_skip=True),
               dict(fn=Q + "QString.parse", rt_skip=True),
               dict(fn=Q + "QFunction.parse", rt_skip=True),
               dict(fn=Q + "QDict.parse", rt_skip=True),
               dict(fn=Q + "QList.parse", rt_skip=True),
               dict(fn=Q + "parse", rt_skip=True),
               # name resolution: an unknown variable is an interpret error, a missing RETURN a query (parse) error - nothing else escapes
               dict(fn=Q + "QVariable.interpret", rt_skip=True),
               dict(fn=Q + "QInteger.interpret", rt_skip=True),
               dict(fn=Q + "QString.interpret", rt_skip=True),
               dict(fn=Q + "get_return", rt_skip=True)],
    timeout_s=20,
    extra=[lambda run: run.query_mode("c17", n=(3000 if run.tier == "quick" else 60000))],
    technique="run-time check of the real code (bounded); with the scanners and parse functions proved total (only QueryParseException) and terminating against contracts",
    explanation="deductive (name resolution, leaves): QVariable.interpret raises QueryInterpretException exactly when the name is not bound and nothing else; QInteger / QString.interpret raise nothing; get_return raises QueryParseException exactly when RETURN was never assigned (arity and argument-type resolution - QFunction.interpret, the decorators of functions.py - stay bounded).  deductive (parsing): a dict / list token is a complete bracketed text (an unclosed literal is no token), a parsed statement holds an '='; for every string, the six scanners (X.check), _parse_token, the six X.parse functions and parse(statement) raise nothing but QueryParseException - no IndexError from indexing an emptied string, no ValueError from int() (a QInteger token consists of str.isdecimal characters, which int() accepts), no AttributeError from a missing token class - and terminate: every `for` runs over a finite string, every `while` strictly shortens its remaining text, and the mutually recursive parse functions are called on a strictly shorter text (measure len(string)); parse() is proved for the stripped, non-empty statements query() hands it. Character classes and str.strip are uninterpreted apart from the facts stated in T-UNICODE; Python's recursion limit is not modelled (A-STACK: nesting depth ~1000 is outside the property's input domain). Interpretation (name/arity/type resolution, aw_query/functions.py) is only bounded. " 
                "bounded: random strings over the token alphabet and valid programs corrupted by deleting, duplicating, swapping or inserting characters are run through aw_query.query with a 2 s limit; a table of 34 texts, one per kind of fault the property names and per built-in signature (unknown variable / unknown function / wrong argument count -> QueryInterpretException, wrong type of a top-level argument / unknown bucket -> QueryFunctionException, malformed text -> QueryParseException), must raise exactly the named class; for the generated texts the call must terminate and either return or raise an exception of the query-error family, and a text that an independent reference grammar rejects must not yield a value (malformed text is reported as a parse error; the reference is the more permissive parser wherever the two differ, and a string whose closing quote is preceded by a backslash at the end of a statement is accepted by both); any other exception whose innermost frame is in aw_query (outside the body of a built-in) is a violation.",
)

F = "/repo/aw_query/query2.py"
MUTANTS = [
    (F, '            if char.isdecimal():\n                token += char', '            if char.isdigit():\n                token += char', True),   # int() rejects digits such as superscript two
    (F, '        if token[-1] != quotes_type or len(token) < 2:', '        if token[-1] != quotes_type:', True),   # a lone quote is taken for a string
    (F, '    if len(string) == 0:\n        return (None, ""), string\n', '', True),   # scanners index an empty string
    (F, '            if not arg_t:\n                break  # Only whitespace left\n', '', True),   # None.parse
    (F, '            if len(entries_str) == 0 or entries_str[0] != ":":', '            if entries_str[0] != ":":', True),   # IndexError after a dict key at the end
    (F, '        entries_str = string[1:-1].strip()\n        ls: List[QToken] = []', '        entries_str = string.strip()\n        ls: List[QToken] = []', True),   # QList.parse recurses on the same text forever
    (F, '    if not val_str:\n        # TODO: Proper message\n        raise QueryParseException("Nothing to assign")\n', '', True),   # x= : None.parse
    (F, '            if not val_t:\n                raise QueryParseException("List expected a value, got nothing")\n', '', True),   # [1, ] : None.parse
    (F, '        return QInteger(int(string))', '        return QInteger(int(string) + 0)', False),   # same value
    (F, '            elif char == "[":\n                to_consume = to_consume + 1\n            if to_consume == 0:\n                break\n            prev_char = char\n        if to_consume != 0:\n            # Unclosed bracket\n            return None, string\n', '            elif char == "[":\n                to_consume = to_consume + 1\n            if to_consume == 0:\n                break\n            prev_char = char\n', True),   # reverts e01fcad for lists: `[` is a list token again
    (F, '            elif char == "{":\n                to_consume = to_consume + 1\n            if to_consume == 0:\n                break\n            prev_char = char\n        if to_consume != 0:\n            # Unclosed bracket\n            return None, string\n', '            elif char == "{":\n                to_consume = to_consume + 1\n            if to_consume == 0:\n                break\n            prev_char = char\n', True),   # reverts e01fcad for dicts
    (F, '    if separator_i == -1:\n        raise QueryParseException("Statement is not an assignment")\n', '', True),   # reverts 49b6adf: a statement without '=' is parsed as an assignment
]
