"""C17 - any query text either parses or is rejected with a query error, and terminates."""
PROP = dict(
    id="C17",
    level="other",
    contract_modules=["contracts.models"],
    spec_modules=["contracts.models"],
    functions=[],
    extra=[lambda run: run.query_mode("c17", n=(3000 if run.tier == "quick" else 60000))],
    technique="run-time check of the real code (bounded); contract-based proof is layered on top where built",
    explanation="bounded: random strings over the token alphabet and valid programs corrupted by deleting, duplicating, swapping or inserting characters are run through aw_query.query with a 2 s limit; the call must terminate and either return or raise an exception of the query-error family; any other exception whose innermost frame is in aw_query (outside the body of a built-in) is a violation.",
)
