"""Run-time side (runs under /venv/bin/python, imports the *real* code from /repo):

  * rebuilds concrete inputs from JSON, calls the real function, evaluates the contract's clause
    strings natively (`old(...)` against a pre-call snapshot)            -> replay of counterexamples
  * type-directed small-scope search for an input violating a clause     -> bounded refuter
  * run-time contract evaluation over sampled inputs                     -> encoder cross-check

Never decides a proof; only confirms refutations on the real code.
usage: rt.py replay FILE | search SPEC.json | crosscheck SPEC.json     (JSON result on stdout)
"""
from __future__ import annotations
import ast
import copy
import importlib
import itertools
import json
import os
import random
import sys
import traceback
from datetime import datetime, timedelta, timezone

VERIF = os.path.dirname(os.path.dirname(os.path.abspath(__file__)))
REPO = os.environ.get("PYVC_REPO", "/repo")
for p in (VERIF, REPO):
    if p not in sys.path:
        sys.path.insert(0, p)

EPOCH = datetime(1970, 1, 1, tzinfo=timezone.utc)
BASE_US = 1577836800 * 1000000   # 2020-01-01T00:00:00Z, base instant of the small-scope grid


def dt_of(us):
    return EPOCH + timedelta(microseconds=us)


def us_of(dt):
    return (dt - EPOCH) // timedelta(microseconds=1)


# ----------------------------------------------------------------------------------------------
# building inputs
# ----------------------------------------------------------------------------------------------
class Builder:
    def __init__(self):
        self.refs = {}

    def build(self, j):
        if isinstance(j, dict) and "$k" in j:
            k = j["$k"]
            ref = j.get("ref")
            if ref is not None and ref in self.refs:
                return self.refs[ref]
            v = getattr(self, "b_" + k)(j)
            if ref is not None:
                self.refs[ref] = v
            return v
        if isinstance(j, list):
            return [self.build(x) for x in j]
        if isinstance(j, dict):
            return {k: self.build(v) for k, v in j.items()}
        return j

    def b_Event(self, j):
        from aw_core.models import Event
        ts = dt_of(j["ts"])
        if j.get("tzmin"):
            ts = ts.astimezone(timezone(timedelta(minutes=j["tzmin"])))      # the same instant, written in another zone
        e = Event(id=j.get("id"), timestamp=ts, duration=timedelta(microseconds=j["dur"]),
                  data=self.build(j.get("data", {})))
        return e

    def b_list(self, j):
        return [self.build(x) for x in j["items"]]

    def b_dict(self, j):
        return {k: self.build(v) for k, v in j["items"].items()}

    def b_dt(self, j):
        return dt_of(j["us"])

    def b_td(self, j):
        return timedelta(microseconds=j["us"])

    def b_none(self, j):
        return None

    def b_tuple(self, j):
        return tuple(self.build(x) for x in j["items"])

    def b_Timeslot(self, j):
        from timeslot import Timeslot
        return Timeslot(dt_of(j["start"]), dt_of(j["end"]))

    def b_obj(self, j):
        """Arbitrary object: {"$k":"obj","cls":"module.Class","args":[...],"kwargs":{...}}"""
        mod, _, cls = j["cls"].rpartition(".")
        c = getattr(importlib.import_module(mod), cls)
        return c(*[self.build(a) for a in j.get("args", [])], **{k: self.build(v) for k, v in j.get("kwargs", {}).items()})


def describe(v, depth=0):
    """JSON-able description of a run-time value (for reports)."""
    from aw_core.models import Event
    if depth > 4:
        return "..."
    if isinstance(v, Event):
        return {"Event": {"id": v.id, "ts_us": us_of(v.timestamp) if isinstance(v.timestamp, datetime) else str(v.timestamp),
                          "dur_us": v.duration // timedelta(microseconds=1), "data": describe(v.data, depth + 1)}}
    if isinstance(v, datetime):
        return {"dt_us": us_of(v) if v.tzinfo else str(v)}
    if isinstance(v, timedelta):
        return {"td_us": v // timedelta(microseconds=1)}
    if isinstance(v, (list, tuple)):
        return [describe(x, depth + 1) for x in v]
    if isinstance(v, dict):
        return {str(k): describe(x, depth + 1) for k, x in v.items()}
    if isinstance(v, (int, float, str, bool)) or v is None:
        return v
    return repr(v)[:200]


# ----------------------------------------------------------------------------------------------
# clause evaluation
# ----------------------------------------------------------------------------------------------
class _OldT(ast.NodeTransformer):
    """old(E)  ->  __old__("E", {bound comprehension variables used by E})"""

    def __init__(self):
        self.bound = []

    def _comp(self, node):
        names = [n.id for g in node.generators for n in ast.walk(g.target) if isinstance(n, ast.Name)]
        self.bound.append(names)
        try:
            return self.generic_visit(node)
        finally:
            self.bound.pop()

    visit_GeneratorExp = _comp
    visit_ListComp = _comp
    visit_SetComp = _comp

    def visit_Call(self, node):
        if isinstance(node.func, ast.Name) and node.func.id == "old" and len(node.args) == 1:
            src = ast.unparse(node.args[0])
            used = {n.id for n in ast.walk(node.args[0]) if isinstance(n, ast.Name)}
            bound = [b for names in self.bound for b in names if b in used]
            d = ast.Dict(keys=[ast.Constant(b) for b in bound], values=[ast.Name(id=b, ctx=ast.Load()) for b in bound])
            return ast.Call(func=ast.Name(id="__old__", ctx=ast.Load()), args=[ast.Constant(src), d], keywords=[])
        return self.generic_visit(node)


def compile_clause(text):
    tree = ast.parse(text.strip(), mode="eval")
    tree = ast.fix_missing_locations(_OldT().visit(tree))
    return compile(tree, "<clause>", "eval")


class Snapshot:
    """Pre-call snapshot.  old(e) evaluates e on a deep copy of the arguments; a result that is (the
    copy of) an object or list is mapped back to the original (identity semantics, like a heap
    reference), a plain dict stays a value (its old contents)."""

    def __init__(self, args, glob):
        self.memo = {}
        self.copy = copy.deepcopy(args, self.memo)
        self.inverse = {}
        self.keep = []
        for k, v in list(self.memo.items()):
            if isinstance(k, int):
                self.inverse[id(v)] = k
        self.originals = {}
        self._index(args)
        self.glob = glob

    def _index(self, v, depth=0):
        if depth > 6:
            return
        if isinstance(v, (list, tuple)):
            self.originals[id(v)] = v
            for x in v:
                self._index(x, depth + 1)
        elif isinstance(v, dict):
            self.originals[id(v)] = v
            for x in v.values():
                self._index(x, depth + 1)
        elif hasattr(v, "__dict__"):
            self.originals[id(v)] = v
            for x in vars(v).values():
                self._index(x, depth + 1)

    def old(self, src, loc):
        from aw_core.models import Event
        env = dict(self.copy)
        for k, v in loc.items():
            if k not in env and not k.startswith("__") and k != ".0":
                env[k] = v
        ns = dict(self.glob)
        ns.update(env)
        val = eval(compile(ast.parse(src, mode="eval"), "<old>", "eval"), ns)
        return self.unmap(val)

    def unmap(self, val):
        from aw_core.models import Event
        if isinstance(val, dict) and not isinstance(val, Event):
            return val
        oid = self.inverse.get(id(val))
        if oid is not None and oid in self.originals:
            return self.originals[oid]
        return val


from pyvc.specrt import *  # noqa: E402,F401,F403
from pyvc import specrt


def spec_globals(modnames):
    g = {"timedelta": timedelta, "datetime": datetime, "timezone": timezone}
    g.update({k: getattr(specrt, k) for k in specrt.__all__})
    for m in modnames:
        mod = importlib.import_module(m)
        for k, v in vars(mod).items():
            if not k.startswith("_"):
                g[k] = v
    return g


CALL_LIMIT_S = 20


class CallTimeout(BaseException):
    pass


def call_with_limit(fn, args):
    """fn(**args) under an alarm: a loop that no longer advances must not take the whole check with it."""
    import signal

    def on_alarm(signum, frame):
        raise CallTimeout()
    try:
        old = signal.signal(signal.SIGALRM, on_alarm)
    except ValueError:          # not in the main thread: no limit
        return fn(**args)
    signal.alarm(CALL_LIMIT_S)
    try:
        return fn(**args)
    finally:
        signal.alarm(0)
        signal.signal(signal.SIGALRM, old)


def run_case(fn, contract, args, glob, clauses=None):
    """Run fn(**args); returns dict(pre_ok, exception, failed=[(kind, index, text)], result)."""
    out = {"pre_ok": True, "failed": [], "exception": None}
    ensures = contract.get("native_ensures") if contract.get("native_ensures") is not None else contract["ensures"]
    requires = contract.get("native_requires") if contract.get("native_requires") is not None else contract["requires"]
    try:
        for r in requires:
            if not eval(compile_clause(r), {**glob, **args}):
                out["pre_ok"] = False
                return out
    except Exception as e:
        out["pre_ok"] = False
        out["pre_error"] = repr(e)[:200]
        if isinstance(e, (NameError, AttributeError, TypeError)):
            raise
        return out
    snap = Snapshot(args, glob)
    g2 = dict(glob)
    g2["__old__"] = snap.old
    try:
        result = call_with_limit(fn, args)
    except CallTimeout:
        # the function did not come back: reported as a failed clause of its own (small generated inputs return in milliseconds)
        out["exception"] = "CallTimeout"
        out["failed"].append(("terminates", 0, f"returns within {CALL_LIMIT_S} s on a generated input of the stated scope"))
        return out
    except Exception as e:
        name = type(e).__name__
        out["exception"] = name
        out["exception_repr"] = repr(e)[:300]
        allowed = contract.get("raises", [])
        if not any(name == a or any(c.__name__ == a for c in type(e).__mro__) for a in allowed):
            out["failed"].append(("raises", name, f"no {name} escapes (allowed: {allowed})"))
        else:
            for k, c in enumerate(contract.get("exc_ensures", {}).get(name, [])):
                try:
                    ok = eval(compile_clause(c), {**g2, **args})
                except Exception as ee:
                    ok = True
                    out.setdefault("clause_errors", []).append((k, repr(ee)[:200]))
                if not ok:
                    out["failed"].append(("exc_ensures/" + name, k, c))
        return out
    env = dict(args)
    env["result"] = result
    out["result"] = describe(result)
    for k, c in enumerate(ensures):
        if clauses is not None and k not in clauses:
            continue
        try:
            ok = eval(compile_clause(c), {**g2, **env})
        except NameError as e:
            # clause mentions ghost state (witness maps): not evaluable natively, skipped
            out.setdefault("skipped_ghost_clauses", []).append(k)
            continue
        except Exception as e:
            ok = True      # an evaluation error is a checker problem, never a verdict
            out.setdefault("clause_errors", []).append((k, repr(e)[:200]))
        if not ok:
            out["failed"].append(("ensures", k, c))
    out["post_args"] = {k: describe(v) for k, v in args.items()}
    return out


def resolve(qualname):
    parts = qualname.split(".")
    for k in range(len(parts) - 1, 0, -1):
        try:
            mod = importlib.import_module(".".join(parts[:k]))
        except ImportError:
            continue
        obj = mod
        for p in parts[k:]:
            obj = getattr(obj, p)
        return obj
    raise ImportError(qualname)


# ----------------------------------------------------------------------------------------------
# small-scope generators by type
# ----------------------------------------------------------------------------------------------
MS = 1000


class Gen:
    """Type-directed generator of small inputs on a millisecond grid."""

    def __init__(self, rng, scope):
        self.rng = rng
        self.scope = scope
        self.next_ref = 1

    def value(self, ty, hints=None):
        hints = hints or {}
        rng = self.rng
        ty = ty.strip()
        if ty.startswith("Optional["):
            if rng.random() < 0.25:
                return None
            return self.value(ty[9:-1], hints)
        if ty == "List[Event]" and self.scope.get("nonoverlap"):
            # a sequence of non-overlapping events with distinct starts, in random order
            n = rng.randint(0, self.scope.get("list", 4))
            t = BASE_US + rng.randint(0, 3) * MS
            items = []
            data_pool = self.scope.get("data", [{}, {"a": 1}, {"a": 2}])
            for _ in range(n):
                d = rng.choice(self.scope.get("durs", [0, 1, 2, 3])) * MS
                items.append({"$k": "Event", "ref": self.ref(), "id": None, "ts": t, "dur": d,
                              "data": copy.deepcopy(rng.choice(data_pool))})
                t = t + d + rng.choice(self.scope.get("gaps", [0, 1, 2, 3, 4])) * MS
                if d == 0 and items and t == items[-1]["ts"]:
                    t += MS
            if not self.scope.get("sorted"):
                rng.shuffle(items)
            return {"$k": "list", "ref": self.ref(), "items": items}
        if ty.startswith("List["):
            n = rng.randint(0, self.scope.get("list", 3))
            return {"$k": "list", "ref": self.ref(), "items": [self.value(ty[5:-1], hints) for _ in range(n)]}
        if ty == "Event":
            grid = self.scope.get("grid", 8)
            data_pool = self.scope.get("data", [{}, {"a": 1}, {"a": 2}, {"b": 1}])
            durs = self.scope.get("durs", [0, 0, 1, 2, 3, 5])
            if self.scope.get("negdur"):
                durs = durs + [-1, -2]
            ev = {"$k": "Event", "ref": self.ref(), "id": rng.choice(self.scope["ids"]) if self.scope.get("ids") else None,
                  "ts": BASE_US + rng.randint(0, grid) * MS + (rng.choice(self.scope["subms"]) if self.scope.get("subms") else 0),
                  "dur": rng.choice(durs) * MS + (rng.choice(self.scope["subms"]) if self.scope.get("subms") else 0),
                  "data": copy.deepcopy(rng.choice(data_pool))}
            if self.scope.get("tzmins"):
                ev["tzmin"] = rng.choice(self.scope["tzmins"])
            return ev
        if ty == "TomlDoc":
            return self.toml_doc(rng, 0)
        if ty.startswith("Dict["):
            keys = self.scope.get("keys", ["x", "y", "t"])
            d = {}
            for k in keys:
                if rng.random() < 0.6:
                    d[k] = self.value("JV", hints)
            return {"$k": "dict", "ref": self.ref(), "items": d}
        if ty == "JV":
            return copy.deepcopy(rng.choice(self.scope.get("jvs", [1, 2, "x", "y", [1, 2], None])))
        if ty in ("float", "Seconds"):
            return rng.choice(self.scope.get("floats", [0, 0.001, 0.002, 0.003, 0.0015, 1.0]))
        if ty == "int":
            return rng.choice(self.scope.get("ints", [-2, -1, 0, 1, 2, 3, 5]))
        if ty == "bool":
            return rng.random() < 0.5
        if ty == "str":
            return rng.choice(self.scope.get("strs", ["", "a", "b", "ab"]))
        if ty == "datetime":
            return {"$k": "dt", "us": BASE_US + rng.randint(0, self.scope.get("grid", 8)) * MS}
        if ty == "timedelta":
            return {"$k": "td", "us": rng.choice([0, 1, 2, 3]) * MS}
        if ty == "Timeslot":
            a = rng.randint(0, self.scope.get("grid", 8))
            b = rng.randint(0, self.scope.get("grid", 8))
            if not self.scope.get("neg_slots"):
                a, b = min(a, b), max(a, b)
            return {"$k": "Timeslot", "ref": self.ref(), "start": BASE_US + a * MS, "end": BASE_US + b * MS}
        raise NotImplementedError(f"generator for type {ty}")

    def toml_doc(self, rng, depth):
        """Random TOML-able document: scalars of several types (type-changing collisions likely), arrays, tables <= 3 deep."""
        keys = ["a", "b", "c", "t", "u"]
        scalars = [1, 1.0, True, 0, 0.0, False, 2, "s", "", [1, 2], ["x"]]
        d = {}
        for k in keys:
            x = rng.random()
            if x < 0.45:
                d[k] = rng.choice(scalars)
            elif x < 0.65 and depth < 2 and k in ("t", "u"):
                d[k] = self.toml_doc(rng, depth + 1)
        return d

    def ref(self):
        self.next_ref += 1
        return self.next_ref


def cmd_search(spec):
    """spec: {function, contract_module(s), contract_key, clauses?, budget, seed, scope, seeds:[inputs]}"""
    mods = spec["spec_modules"]
    for m in spec.get("contract_modules", []):
        importlib.import_module(m)
    from pyvc.api import CONTRACTS
    c = CONTRACTS[spec["contract_key"]]
    fn = resolve(spec["function"])
    glob = spec_globals(mods)
    rng = random.Random(spec.get("seed", 0))
    tried = valid = 0
    params = c["params"]
    candidates = list(spec.get("seeds", []))
    budget = spec.get("budget", 2000)
    found = None
    gens = 0
    while tried < budget + len(spec.get("seeds", [])):
        if candidates:
            inp = candidates.pop(0)
        else:
            g = Gen(rng, spec.get("scope", {}))
            try:
                inp = {p: g.value(t) for p, t in params.items()}
            except NotImplementedError as e:
                return {"status": "no-generator", "why": str(e), "tried": tried}
        tried += 1
        try:
            args = Builder().build(copy.deepcopy(inp))
            r = run_case(fn, c, args, glob, spec.get("clauses"))
        except Exception as e:
            return {"status": "error", "why": traceback.format_exc()[-800:], "input": inp}
        if not r["pre_ok"]:
            continue
        if r.get("clause_errors"):
            return {"status": "error", "why": "clause evaluation error: " + str(r["clause_errors"]), "input": inp}
        valid += 1
        if r["failed"]:
            found = {"input": inp, "outcome": r}
            break
    return {"status": "found" if found else "none", "tried": tried, "valid": valid, "witness": found}


def cmd_replay(rep):
    for m in rep.get("contract_modules", []):
        importlib.import_module(m)
    from pyvc.api import CONTRACTS
    c = CONTRACTS[rep["contract_key"]]
    fn = resolve(rep["function"])
    glob = spec_globals(rep["spec_modules"])
    args = Builder().build(copy.deepcopy(rep["inputs"]))
    r = run_case(fn, c, args, glob)
    return {"reproduced": bool(r["pre_ok"] and r["failed"]), "outcome": r}


def cmd_crosscheck(spec):
    """Run-time contract evaluation of the real function over sampled valid inputs: every clause must hold
    (on the unchanged tree) -- a clause that fails natively while its VC is discharged is an engine bug."""
    for m in spec.get("contract_modules", []):
        importlib.import_module(m)
    from pyvc.api import CONTRACTS
    c = CONTRACTS[spec["contract_key"]]
    fn = resolve(spec["function"])
    glob = spec_globals(spec["spec_modules"])
    rng = random.Random(spec.get("seed", 0))
    runs = valid = 0
    fails = []
    while runs < spec.get("budget", 300):
        g = Gen(rng, spec.get("scope", {}))
        try:
            inp = {p: g.value(t) for p, t in c["params"].items()}
        except NotImplementedError as e:
            return {"status": "no-generator", "why": str(e)}
        runs += 1
        args = Builder().build(copy.deepcopy(inp))
        r = run_case(fn, c, args, glob)
        if not r["pre_ok"]:
            continue
        valid += 1
        if r["failed"]:
            fails.append({"input": inp, "outcome": r})
            if len(fails) >= 3:
                break
    return {"status": "ok" if not fails else "mismatch", "runs": runs, "valid": valid, "fails": fails}


def main():
    cmd = sys.argv[1]
    with open(sys.argv[2]) as f:
        spec = json.load(f)
    try:
        res = {"replay": cmd_replay, "search": cmd_search, "crosscheck": cmd_crosscheck}[cmd](spec)
    except Exception:
        res = {"status": "error", "why": traceback.format_exc()[-1500:]}
    json.dump(res, sys.stdout, default=str)


if __name__ == "__main__":
    main()
