"""Front end: reads the *real* source from /repo's working tree (and the installed source of the
`timeslot` dependency) on every run, and hands out function ASTs by qualified name.

What is dropped before symbolic execution (exhaustive list, also printed into evidence):
  * docstrings, type annotations, `# type:` comments, typing.cast (identity)
  * calls on `logger` / `self.logger` (treated as `pass`, arguments not evaluated: A-LOG)
Nothing else.  A construct the engine does not support makes the function *unsupported*.
"""
from __future__ import annotations
import ast
import hashlib
import os

REPO = os.environ.get("PYVC_REPO", "/repo")
SITE = os.environ.get("PYVC_SITE", "/venv/lib/python3.12/site-packages")
SITE_VERIFIED = {"timeslot"}
VERIF = os.path.dirname(os.path.dirname(os.path.abspath(__file__)))

DROPPED = [
    "docstrings", "type annotations", "# type: comments", "typing.cast (identity)",
    "logger.* / self.logger.* calls (arguments not evaluated; assumption A-LOG)",
]


class FuncInfo:
    def __init__(self, qualname, node, module, cls=None, kind="function"):
        self.qualname = qualname
        self.node = node
        self.module = module      # ModuleInfo
        self.cls = cls            # ClassInfo or None
        self.kind = kind          # function | method | staticmethod | classmethod | getter | setter
        self.params = [a.arg for a in node.args.args]
        self.defaults = node.args.defaults
        self.kwonly = [a.arg for a in node.args.kwonlyargs]
        self.vararg = node.args.vararg.arg if node.args.vararg else None
        self.kwarg = node.args.kwarg.arg if node.args.kwarg else None
        self.is_generator = any(isinstance(n, (ast.Yield, ast.YieldFrom)) for n in ast.walk(node))

    @property
    def body(self):
        b = self.node.body
        if b and isinstance(b[0], ast.Expr) and isinstance(b[0].value, ast.Constant) \
                and isinstance(b[0].value.value, str):
            return b[1:]
        return b

    def source_sha(self):
        seg = ast.get_source_segment(self.module.source, self.node) or ""
        return hashlib.sha256(seg.encode()).hexdigest()

    def lines(self):
        return (self.node.lineno, self.node.end_lineno)


class ClassInfo:
    def __init__(self, qualname, node, module):
        self.qualname = qualname
        self.node = node
        self.module = module
        self.name = node.name
        self.bases = [ast.unparse(b) for b in node.bases]
        self.methods = {}     # name -> FuncInfo
        self.getters = {}
        self.setters = {}
        self.attrs = {}       # class-level constants name -> ast
        for item in node.body:
            if isinstance(item, ast.FunctionDef):
                decos = [ast.unparse(d) for d in item.decorator_list]
                q = f"{qualname}.{item.name}"
                if "property" in decos:
                    self.getters[item.name] = FuncInfo(q + ".getter", item, module, self, "getter")
                elif any(d.endswith(".setter") for d in decos):
                    self.setters[item.name] = FuncInfo(q + ".setter", item, module, self, "setter")
                elif "staticmethod" in decos:
                    self.methods[item.name] = FuncInfo(q, item, module, self, "staticmethod")
                elif "classmethod" in decos:
                    self.methods[item.name] = FuncInfo(q, item, module, self, "classmethod")
                else:
                    self.methods[item.name] = FuncInfo(q, item, module, self, "method")
            elif isinstance(item, ast.Assign) and len(item.targets) == 1 \
                    and isinstance(item.targets[0], ast.Name):
                self.attrs[item.targets[0].id] = item.value


class ModuleInfo:
    def __init__(self, name, path, source=None):
        self.name = name
        self.path = path
        if source is None:
            with open(path, encoding="utf-8") as f:
                source = f.read()
        self.source = source
        self.sha = hashlib.sha256(self.source.encode()).hexdigest()
        self.tree = ast.parse(self.source, filename=path)
        self.imports = {}     # local name -> qualified name
        self.functions = {}
        self.classes = {}
        self.constants = {}
        self.is_pkg = os.path.basename(path) == "__init__.py"
        self._scan()

    def _pkg(self):
        return self.name if self.is_pkg else self.name.rsplit(".", 1)[0] if "." in self.name else ""

    def _scan(self):
        for node in self.tree.body:
            self._scan_node(node)

    def _scan_node(self, node):
        if isinstance(node, ast.Import):
            for a in node.names:
                self.imports[a.asname or a.name.split(".")[0]] = a.name if a.asname else a.name.split(".")[0]
        elif isinstance(node, ast.ImportFrom):
            base = node.module or ""
            if node.level:
                pkg = self._pkg()
                for _ in range(node.level - 1):
                    pkg = pkg.rsplit(".", 1)[0] if "." in pkg else ""
                base = (pkg + "." + base).strip(".") if base else pkg
            for a in node.names:
                self.imports[a.asname or a.name] = f"{base}.{a.name}"
        elif isinstance(node, ast.FunctionDef):
            self.functions[node.name] = FuncInfo(f"{self.name}.{node.name}", node, self)
        elif isinstance(node, ast.ClassDef):
            self.classes[node.name] = ClassInfo(f"{self.name}.{node.name}", node, self)
        elif isinstance(node, ast.Assign) and len(node.targets) == 1 and isinstance(node.targets[0], ast.Name):
            self.constants[node.targets[0].id] = node.value
        elif isinstance(node, ast.AnnAssign) and isinstance(node.target, ast.Name) and node.value is not None:
            self.constants[node.target.id] = node.value
        elif isinstance(node, (ast.If, ast.Try)):
            for sub in getattr(node, "body", []):
                self._scan_node(sub)


class World:
    """All modules of the code under verification, loaded lazily from the working tree."""

    def __init__(self, repo=None, site=None):
        self.repo = repo or REPO
        self.site = site or SITE
        self.modules = {}
        self.files_read = {}
        self.overrides = {}      # path -> source text (in-memory mutants; never written to disk)

    def _find(self, modname):
        rel = modname.replace(".", "/")
        top = modname.split(".")[0]
        # only the `timeslot` dependency is verified from its installed source; every other third-party module
        # (iso8601, peewee, tomlkit, ...) is external: assumed contracts, never parsed
        roots = (VERIF,) if top in ("contracts", "selfcases") else ((self.repo, self.site) if top in SITE_VERIFIED else (self.repo,))
        for root in roots:
            for cand in (os.path.join(root, rel + ".py"), os.path.join(root, rel, "__init__.py")):
                if os.path.isfile(cand):
                    return cand
        return None

    def module(self, modname):
        if modname in self.modules:
            return self.modules[modname]
        path = self._find(modname)
        if path is None:
            self.modules[modname] = None
            return None
        m = ModuleInfo(modname, path, self.overrides.get(path))
        self.modules[modname] = m
        self.files_read[path] = m.sha
        return m

    def split_qual(self, qualname):
        """-> (ModuleInfo, [remaining names]) using the longest module prefix that exists."""
        parts = qualname.split(".")
        for k in range(len(parts), 0, -1):
            m = self.module(".".join(parts[:k]))
            if m is not None:
                return m, parts[k:]
        return None, parts

    def lookup(self, qualname, _depth=0):
        """Resolve a qualified name to FuncInfo | ClassInfo | ('const', ModuleInfo, ast) | ('ext', qualname)."""
        if _depth > 8:
            return ("ext", qualname)
        m, rest = self.split_qual(qualname)
        if m is None:
            return ("ext", qualname)
        if not rest:
            return ("module", m)
        head = rest[0]
        if head in m.functions and len(rest) == 1:
            return m.functions[head]
        if head in m.classes:
            c = m.classes[head]
            if len(rest) == 1:
                return c
            name = rest[1]
            if len(rest) == 3 and rest[2] == "setter" and name in c.setters:
                return c.setters[name]
            if len(rest) == 3 and rest[2] == "getter" and name in c.getters:
                return c.getters[name]
            if name in c.methods:
                return c.methods[name]
            if name in c.attrs:
                return ("const", m, c.attrs[name])
            return ("ext", qualname)
        if head in m.imports:
            return self.lookup(".".join([m.imports[head]] + rest[1:]), _depth + 1)
        if head in m.constants and len(rest) == 1:
            return ("const", m, m.constants[head])
        return ("ext", qualname)

    def function(self, qualname):
        r = self.lookup(qualname)
        if isinstance(r, FuncInfo):
            return r
        raise KeyError(f"no function {qualname} in the working tree")

    def resolve_name(self, module, name):
        """Qualified name a bare `name` refers to inside `module` (module-level scope)."""
        if name in module.functions or name in module.classes or name in module.constants:
            return f"{module.name}.{name}"
        if name in module.imports:
            return module.imports[name]
        return None


def loop_nodes(fn_node):
    """For/While statements of a function in source order (nested functions excluded)."""
    out = []

    def walk(stmts):
        for s in stmts:
            if isinstance(s, (ast.For, ast.While)):
                out.append(s)
                walk(s.body)
                walk(s.orelse)
            elif isinstance(s, ast.If):
                walk(s.body)
                walk(s.orelse)
            elif isinstance(s, ast.Try):
                walk(s.body)
                for h in s.handlers:
                    walk(h.body)
                walk(s.orelse)
                walk(s.finalbody)
            elif isinstance(s, ast.With):
                walk(s.body)
    walk(fn_node.body)
    return out
