"""Calls: user functions (contract or inline), constructors, closures, spec primitives (mix-in)."""
from __future__ import annotations
import ast
import z3

from . import front
from .api import CONTRACTS, CLASSDEFS
from .engine import *  # noqa
from .engine import Val, Unsupported, EngineError, fresh, I, B, S, R, NONE_VAL

CONN_PREFIX = "sqlite3.Connection."

MAX_INLINE_DEPTH = 12


def _plain_utc(v):
    off, aware = v.x.get("off", 0), v.x.get("aware", True)
    return isinstance(off, int) and off == 0 and aware is True


def _pattern_ok(t):
    """No interpreted boolean/ite structure inside (the solver rejects such terms as triggers)."""
    todo = [t]
    seen = set()
    while todo:
        x = todo.pop()
        if x.get_id() in seen:
            continue
        seen.add(x.get_id())
        if z3.is_quantifier(x) or z3.is_var(x):
            return False
        if z3.is_app(x):
            k = x.decl().kind()
            if k in (z3.Z3_OP_ITE, z3.Z3_OP_AND, z3.Z3_OP_OR, z3.Z3_OP_NOT, z3.Z3_OP_EQ, z3.Z3_OP_LE, z3.Z3_OP_LT,
                     z3.Z3_OP_GE, z3.Z3_OP_GT, z3.Z3_OP_IMPLIES, z3.Z3_OP_DISTINCT):
                return False
        todo.extend(x.children())
    return True


def _mentions(t, vs):
    todo = [t]
    seen = set()
    while todo:
        x = todo.pop()
        if x.get_id() in seen:
            continue
        seen.add(x.get_id())
        if any(x.eq(v) for v in vs):
            return True
        todo.extend(x.children())
    return False


class CallMixin:
    def ev_Call(self, e, st):
        # spec primitives that need the un-evaluated argument
        if isinstance(e.func, ast.Name):
            nm = e.func.id
            if nm == "old" and (st.spec or st.old is not None) and "old" not in st.env:
                return self.spec_old(e, st)
            if nm == "entry" and "entry" not in st.env:
                return self.spec_old(e, st, which="__loop_entry__")
            if nm == "prev" and "prev" not in st.env:
                return self.spec_old(e, st, which="__iter_start__")
            if nm == "allocated" and st.spec:
                v = self.eval(e.args[0], st)
                if v.ty == NONE:
                    return mk_bool(False)
                return Val(BOOL, z3.And(v.t > 0, v.t < st.alloc))
            if nm == "cls" and st.spec and "cls" not in st.env:
                # cls("pkg.mod.Class"): the class object (specifications cannot import the program's modules)
                r = self.world.lookup(e.args[0].value)
                if not isinstance(r, front.ClassInfo):
                    raise EngineError(f"cls({e.args[0].value!r}): not a class")
                return Val(FN, ("class", r))
            if nm == "old_objects_unchanged" and st.spec:
                # frame invariant: every object that existed on entry still has its entry value in the named fields
                base = st.old if st.old is not None else st
                conj = []
                for a in e.args:
                    cls, f = a.value.rsplit(".", 1)
                    cls = TYPE_ALIASES.get(cls, cls)
                    if (cls, f) in (("Dict", "map"), ("List", "items")):
                        keys = [k for k in sorted(st.heap) if k.startswith(f"{cls}.{f}.")]
                    else:
                        keys = [f"{cls}.{f}"] + ([f"{cls}.{f}!has"] if CLASSDEFS.get(cls, {}).get("record") else [])
                    for key in keys:
                        cur, arr0 = st.heap.get(key), base.heap.get(key, self.init_heap.get(key))
                        if cur is None or arr0 is None or cur.eq(arr0):
                            continue
                        r = fresh("r", I)
                        conj.append(z3.ForAll([r], z3.Implies(z3.And(0 < r, r < base.alloc), z3.Select(cur, r) == z3.Select(arr0, r)),
                                              patterns=[z3.Select(cur, r)]))
                return Val(BOOL, z3.And(*conj) if conj else z3.BoolVal(True))
            if nm == "fresh" and st.spec:
                v = self.eval(e.args[0], st)
                base = st.old.alloc if st.old is not None else st.alloc
                if v.ty == NONE:
                    return mk_bool(False)
                return Val(BOOL, v.t >= base)
            if nm in ("all", "any") and len(e.args) == 1 and isinstance(e.args[0], (ast.GeneratorExp, ast.ListComp)):
                return self.quantifier(nm, e.args[0], st)
            if nm == "cast" or (nm == "typing" and False):
                return self.eval(e.args[1], st)
        if isinstance(e.func, ast.Attribute) and ast.unparse(e.func) == "typing.cast":
            return self.eval(e.args[1], st)
        f = self.eval(e.func, st)
        args = []
        for a in e.args:
            if isinstance(a, ast.Starred):
                sv = self.eval(a.value, st)
                if sv.ty.name == "Tuple":
                    args.extend(sv.t)
                else:
                    args.append(("*", sv))
            else:
                args.append(self.eval(a, st))
        kwargs = {}
        for k in e.keywords:
            if k.arg is None:
                kv = self.eval(k.value, st)
                kwargs["**"] = kv
            else:
                kwargs[k.arg] = self.eval(k.value, st)
        return self.call(f, args, kwargs, st, e)

    def call(self, f, args, kwargs, st, node=None):
        if f.ty != FN:
            if f.ty.name == "Obj":
                r = self.call_method_if_defined(f, "__call__", args, st)
                if r is not None:
                    return r
            raise Unsupported(f"call of non-callable {f.ty}")
        d = f.t
        kind = d[0]
        if kind == "func":
            return self.call_user(d[1], args, kwargs, st, node)
        if kind == "bound":
            return self.call_user(d[1], [d[2]] + args, kwargs, st, node)
        if kind == "class":
            return self.construct(d[1], args, kwargs, st, node)
        if kind == "closure":
            return self.call_closure(d, args, kwargs, st, node)
        if kind == "lambda":
            return self.call_lambda(d, args, kwargs, st)
        if kind == "ext":
            return self.call_ext(d[1], args, kwargs, st, node)
        if kind == "extmethod":
            return self.call_extmethod(d[1], d[2], args, kwargs, st, node)
        raise Unsupported(f"callable kind {kind}")

    # -- argument binding ----------------------------------------------------------------------
    def bind(self, fi, args, kwargs, st):
        env = {}
        params = list(fi.params)
        pos = list(args)
        if any(isinstance(a, tuple) and a and a[0] == "*" for a in pos):
            raise Unsupported("*args of symbolic length")
        if len(pos) > len(params) and not fi.vararg:
            st.raise_if(z3.BoolVal(True), "TypeError")
            pos = pos[:len(params)]
        for p, a in zip(params, pos):
            env[p] = a
        if fi.vararg:
            extra = pos[len(params):]
            env[fi.vararg] = Val(TupleT([x.ty for x in extra]), list(extra))
        kw = dict(kwargs)
        star = kw.pop("**", None)
        if star is not None:
            kw.update(self.expand_kwargs(star, fi, st))
        for k, v in kw.items():
            if k in params or k in fi.kwonly:
                if k in env:
                    st.raise_if(z3.BoolVal(True), "TypeError")
                env[k] = v
            elif fi.kwarg:
                env.setdefault(fi.kwarg, Val(TupleT([]), []))
            else:
                st.raise_if(z3.BoolVal(True), "TypeError")
        ndef = len(fi.defaults)
        for i, p in enumerate(params):
            if p not in env:
                di = i - (len(params) - ndef)
                if di >= 0:
                    env[p] = self.eval_default(fi, fi.defaults[di])
                else:
                    st.raise_if(z3.BoolVal(True), "TypeError")
                    env[p] = NONE_VAL
        for p, dflt in zip(fi.kwonly, fi.node.args.kw_defaults):
            if p not in env:
                env[p] = self.eval_default(fi, dflt) if dflt is not None else NONE_VAL
        return env

    def eval_default(self, fi, node):
        try:
            return self.const_val(ast.literal_eval(node))
        except Exception:
            from .expr import _ModFrame
            s = State(self)
            s.frame = _ModFrame(fi.module)
            s.alloc = z3.IntVal(1)
            return self.eval(node, s)

    def expand_kwargs(self, star, fi, st):
        """f(**obj) for a record object (Event(**e)) -> its fields as keyword arguments."""
        if star.ty.name == "Obj":
            cd = CLASSDEFS.get(star.ty.args[0])
            if cd and cd.get("record"):
                out = {}
                for k, ft in cd["fields"].items():
                    fty = parse_type(ft)
                    out[k] = from_sort_term(st.read(f"{star.ty.args[0]}.{k}", sort_of(fty), star.t), fty)
                return out
        if star.ty.name == "SDict":
            return dict(star.t)
        if star.ty.name == "Tuple" and star.x.get("kwnames"):
            return dict(zip(star.x["kwnames"], star.t))
        raise Unsupported(f"** of {star.ty}")

    # -- user functions ------------------------------------------------------------------------
    def pick_contract(self, fi, env):
        """The contract of fi whose parameter types accept the actual arguments (variants are registered
        under `qualname:tag`); None when no variant fits (the callee is then inlined)."""
        cands = []
        pref = (getattr(self, "cur_contract", None) or {}).get("callee_variants", {}).get(fi.qualname)
        if pref is not None and f"{fi.qualname}:{pref}" in CONTRACTS:
            return CONTRACTS[f"{fi.qualname}:{pref}"]      # (named by the caller's contract; its requires are call-site obligations)
        if fi.qualname in CONTRACTS and CONTRACTS[fi.qualname].get("returns") == "SDict":
            return None      # a plain dict with heterogeneous values has no symbolic representation: inline
        if fi.qualname in CONTRACTS:
            cands.append(CONTRACTS[fi.qualname])
        cands += [c for k, c in CONTRACTS.items() if k.startswith(fi.qualname + ":")]
        if len(cands) <= 1 and cands and not any(k.startswith(fi.qualname + ":") for k in CONTRACTS):
            return cands[0]
        for c in cands:
            ok = True
            for p, v in env.items():
                if p in c["params"]:
                    ty = parse_type(c["params"][p])
                    try:
                        if ty.name != "Tuple":
                            to_sort_term(v, ty)
                        if v.ty == DT and ty == DT and not _plain_utc(v) and p not in c.get("param_attrs", {}):
                            ok = False
                    except Unsupported:
                        ok = False
                    if not ok:
                        break
            if ok:
                return c
        return None

    def is_opaque(self, fi):
        return any(isinstance(d, ast.Name) and d.id == "opaque" for d in fi.node.decorator_list)

    def call_opaque(self, fi, env, st):
        """Application of the uninterpreted function standing for an @opaque spec function."""
        if not hasattr(self, "opaque_defs"):
            self.opaque_defs = {}
        names = list(fi.params)
        sig = tuple(repr(env[p].ty) for p in names)
        key = (fi.qualname, sig)
        if key not in self.opaque_defs:
            # translate the body once over symbolic arguments and a symbolic heap
            ds = State(self)
            ds.frame = fi
            ds.spec = True
            ds.alloc_base, ds.alloc_off = fresh("oalloc", I), 0
            saved_init = self.init_heap
            self.init_heap = {}
            try:
                formals = {p: Val(env[p].ty, fresh("o_" + p, sort_of(env[p].ty))) if env[p].ty not in (NONE, FN) and env[p].ty.name != "Tuple"
                           else env[p] for p in names}
                ds.env = dict(formals)
                outs = self.exec_block(fi.body, ds)
                rets = [o for o in outs if o.status == "return"]
                if len(rets) != 1 or len(outs) != 1:
                    raise Unsupported(f"opaque spec function {fi.qualname} must be a single return expression")
                body = rets[0].ret
                keys = sorted(self.init_heap.keys())
                arrays = [self.init_heap[k] for k in keys]
            finally:
                self.init_heap = saved_init
            fargs = [formals[p].t for p in names if z3.is_expr(formals[p].t)] + arrays
            fn = z3.Function("spec_" + fi.node.name + "!" + str(len(self.opaque_defs)),
                             *[a.sort() for a in fargs], sort_of(body.ty))
            app = fn(*fargs)
            bterm = to_sort_term(body, body.ty)
            self.axioms.append(z3.ForAll(fargs, app == bterm, patterns=[app]) if fargs else app == bterm)
            self.opaque_defs[key] = (fn, keys, body.ty, [(k, a.sort()) for k, a in zip(keys, arrays)])
        fn, keys, rty, ksorts = self.opaque_defs[key]
        actual = [env[p].t for p in names if z3.is_expr(env[p].t)]
        for k, srt in ksorts:
            actual.append(st.field(k, srt.range()))
        return from_sort_term(fn(*actual), rty)

    def call_user(self, fi, args, kwargs, st, node=None):
        env = self.bind(fi, args, kwargs, st)
        if st.spec and self.is_opaque(fi):
            try:
                return self.call_opaque(fi, env, st)
            except Unsupported:
                pass
        c = self.pick_contract(fi, env)
        if c is not None and fi.qualname != self.cur_fn_real() and not st.spec \
                and fi.qualname not in getattr(self, "force_inline", ()):
            cc = getattr(self, "cur_contract", None) or {}
            mutual = c.get("rec_group") is not None and c.get("rec_group") == cc.get("rec_group")
            if mutual and (c.get("decreases") is None or cc.get("decreases") is None):
                raise Unsupported(f"mutual recursion {self.cur_fn_real()} -> {fi.qualname} without termination measures")
            return self.call_contract(fi, c, env, st, node, recursive=mutual)
        if c is not None and fi.qualname == self.cur_fn_real() and c.get("decreases") is not None and not st.spec:
            return self.call_contract(fi, c, env, st, node, recursive=True)
        cc = getattr(self, "cur_contract", None) or {}
        if c is not None and fi.qualname == self.cur_fn_real() and not st.spec and c is not cc and c.get("decreases") is None \
                and cc.get("descends_to") == c.get("qualname"):
            # the variant under verification descends to ANOTHER contract of the same function, one under which the function is
            # proved not to recurse at all (that contract's own obligation `recursion-unreachable`): a modular call to an
            # instance that meets that contract's precondition (obliged here) therefore terminates - no measure needed
            return self.call_contract(fi, c, env, st, node, recursive=False)
        if c is not None and fi.qualname == self.cur_fn_real() and not st.spec:
            # recursion without a termination measure in the contract: only accepted when provably unreachable
            self.oblige(st, f"call:{fi.qualname.split('.')[-1]}/recursion-unreachable", z3.BoolVal(False),
                        clause="the recursive call is unreachable under the contract's precondition",
                        site=getattr(node, "lineno", None))
            st.assume(z3.BoolVal(False))
            return NONE_VAL
        return self.inline(fi, env, st)

    def cur_fn_real(self):
        return getattr(self, "cur_fn_qual", self.cur_fn)

    def inline(self, fi, env, st):
        if self.depth > MAX_INLINE_DEPTH:
            raise Unsupported(f"inline depth at {fi.qualname}")
        if fi.is_generator:
            return self.inline_generator(fi, env, st)
        self.inlined.add(fi.qualname)
        base = st.copy()
        base.env = env
        base.frame = fi
        base.status = "run"
        n0 = len(base.pc)
        self.depth += 1
        try:
            outs = self.exec_block(fi.body, base)
        finally:
            self.depth -= 1
        normal = []
        for o in outs:
            if o.status == "raise":
                o.env = st.env
                o.frame = st.frame
                st.spawned.append(o)
            else:
                if o.status == "run":
                    o.ret = NONE_VAL
                normal.append(o)
        if not normal:
            # every path raises: the continuation is unreachable
            st.assume(z3.BoolVal(False))
            return NONE_VAL
        self.merge_into(st, normal, n0)
        return st.ret_tmp

    def merge_into(self, st, outs, n0):
        """Merge the exit states of an inlined callee back into the caller state st."""
        if len(outs) == 1:
            o = outs[0]
            st.pc = o.pc
            st.heap = o.heap
            st.alloc_base, st.alloc_off = o.alloc_base, o.alloc_off
            st.ghost.update({k: v for k, v in o.ghost.items() if k.startswith("g:")})
            st.ret_tmp = o.ret
            return
        conds = []
        for o in outs:
            extra = o.pc[n0:]
            conds.append(z3.And(*extra) if extra else z3.BoolVal(True))
        base_pc = outs[0].pc[:n0]
        st.pc = base_pc + [z3.Or(*conds)]
        keys = set()
        for o in outs:
            keys.update(o.heap.keys())
        heap = {}
        for k in keys:
            vals = [o.heap.get(k, self.init_heap.get(k)) for o in outs]
            cur = vals[-1]
            for c, v in zip(reversed(conds[:-1]), reversed(vals[:-1])):
                if v is not cur:
                    cur = z3.If(c, v, cur)
            heap[k] = cur
        st.heap = heap
        if all(o.alloc_base is outs[0].alloc_base or o.alloc_base.eq(outs[0].alloc_base) for o in outs):
            # same epoch on every path: over-allocate to the largest offset (harmless)
            st.alloc_base, st.alloc_off = outs[0].alloc_base, max(o.alloc_off for o in outs)
        else:
            al = outs[-1].alloc
            for c, o in zip(reversed(conds[:-1]), reversed(outs[:-1])):
                al = z3.If(c, o.alloc, al)
            st.alloc = al
        ret = outs[-1].ret
        for c, o in zip(reversed(conds[:-1]), reversed(outs[:-1])):
            ret = self.merge_vals(c, o.ret, ret)
        st.ret_tmp = ret

    def call_closure(self, d, args, kwargs, st, node):
        _, fi, cenv, cframe = d
        env = dict(cenv)
        env.update(self.bind(fi, args, kwargs, st))
        return self.inline(fi, env, st)

    def call_lambda(self, d, args, kwargs, st):
        _, lam, cenv, cframe = d
        names = [a.arg for a in lam.args.args]
        if len(names) != len(args):
            raise Unsupported("lambda arity")
        s_env, s_frame = st.env, st.frame
        st.env = dict(cenv)
        st.env.update(dict(zip(names, args)))
        st.frame = cframe
        try:
            return self.eval(lam.body, st)
        finally:
            st.env, st.frame = s_env, s_frame

    def call_method_if_defined(self, obj, name, args, st):
        ci = self.class_of(obj.ty)
        if ci is None:
            return None
        m = self.find_member(ci, name, "method")
        if m is None:
            return None
        return self.call_user(m, [obj] + list(args), {}, st)

    # -- constructors --------------------------------------------------------------------------
    def construct(self, ci, args, kwargs, st, node=None):
        ext = self.construct_ext(ci, args, kwargs, st, node)
        if ext is not None:
            return ext
        ref = st.new_ref()
        obj = Val(ObjT(ci.qualname), ref)
        cd = CLASSDEFS.get(ci.qualname)
        if cd and cd.get("record"):
            for f in cd["fields"]:
                st.write(f"{ci.qualname}.{f}!has", B, ref, z3.BoolVal(False))
        init = self.find_member(ci, "__init__", "method")
        if init is not None:
            saved = st.ghost.get("__constructing__", ())
            st.ghost = dict(st.ghost)
            st.ghost["__constructing__"] = tuple(saved) + (ref,)
            try:
                self.call_user(init, [obj] + list(args), kwargs, st, node)
            finally:
                st.ghost = dict(st.ghost)
                st.ghost["__constructing__"] = saved
        return obj

    def construct_ext(self, ci, args, kwargs, st, node):
        return None

    def coerce_val(self, v, ty, st, what, line=None):
        """Value `v` seen at the declared type `ty` of a contract (parameter or result).  An Optional where the plain
        type is declared gives the obligation `is not None`; tuples are coerced component-wise."""
        if v.ty == ty:
            return v
        if v.ty.name == "Opt" and v.ty.args[0] == ty:
            self.oblige(st, what, z3.Not(self.is_none(v, st)), clause=f"{what.rsplit(':', 1)[-1]} is not None", site=line)
            st.assume(z3.Not(self.is_none(v, st)))
            return Val(ty, v.t) if is_reflike(ty) else Val(ty, opt_of(v.ty).val(v.t))
        if v.ty == JV:
            # a JSON-like value where the contract declares a type: being of that type is part of the precondition
            inner = ty.args[0] if ty.name == "Opt" else ty
            isnull = v.t == jv_null
            st.assume(z3.And(z3.Not(jv_is_str(jv_null)), z3.Not(jv_is_list(jv_null)), z3.Not(jv_is_dict(jv_null))))
            if inner == STR:
                ok = jv_is_str(v.t)
                val = Val(STR, jv_str(v.t))
            elif inner.name in ("Dict", "List"):
                ok = jv_is_dict(v.t) if inner.name == "Dict" else jv_is_list(v.t)
                val = Val(inner, z3.Function("jv_to_Int", JVSort, I)(v.t))
            else:
                ok = None
            if ok is not None:
                goal = z3.Or(isnull, ok) if ty.name == "Opt" else ok
                self.oblige(st, what, goal, clause=f"{what.rsplit(':', 1)[-1]} is a {inner}" + (" or None" if ty.name == "Opt" else ""), site=line)
                st.assume(goal)
                if ty.name != "Opt":
                    return val
                if is_reflike(inner):
                    return Val(ty, z3.If(isnull, z3.IntVal(0), val.t))
                return Val(ty, z3.If(isnull, opt_of(ty).none, opt_of(ty).some(val.t)))
        if ty.name == "Tuple" and v.ty.name == "Tuple" and len(ty.args) == len(v.ty.args):
            return Val(ty, [self.coerce_val(x, a, st, what, line) for x, a in zip(v.t, ty.args)])
        if ty.name == "Tuple":
            return v
        return from_sort_term(to_sort_term(v, ty), ty)

    # -- contracts at call sites ---------------------------------------------------------------
    def call_contract(self, fi, c, env, st, node=None, recursive=False):
        if st.ghost.get("__pure_ctx__") and c.get("functional") and set(c["modifies"]) <= {"alloc"}:
            # pure context (comprehension condition): a functional contract `result == F(args)` stands for its value
            penv0 = {}
            for p, v in env.items():
                ty = parse_type(c["params"][p]) if p in c["params"] else None
                penv0[p] = from_sort_term(to_sort_term(v, ty), ty) if ty is not None and ty.name != "Tuple" else v
            return self.spec_val(c["functional"], penv0, st, old=st)
        short = fi.qualname.split(".")[-1] if not fi.cls else ".".join(fi.qualname.split(".")[-2:])
        if c.get("trusted"):
            self.trusted_used.add(fi.qualname)
        # coerce arguments to declared types
        penv = {}
        for p, v in env.items():
            if p in c["params"]:
                ty = parse_type(c["params"][p])
                if v.ty.name == "Obj" and v.ty.args[0] == "sqlite3.Cursor" and ty.name == "List":
                    rows = v.x.get("rows") or st.ghost.get("g:cursor:" + v.t.sexpr())
                    if rows is not None:
                        v = rows            # a cursor passed where its rows are iterated
                try:
                    penv[p] = self.coerce_val(v, ty, st, f"call:{short}/arg-type:{p}", getattr(node, "lineno", None))
                except Unsupported:
                    raise Unsupported(f"argument {p} of {fi.qualname}: {v.ty} is not {ty}")
            else:
                penv[p] = v
        for gname in c.get("ghost", {}):
            if gname in st.env and gname not in penv:
                penv[gname] = st.env[gname]          # ghost parameters are passed by name
        line = getattr(node, "lineno", None)
        for k, r in enumerate(c["requires"]):
            goal = self.spec_truth(r, penv, st, old=st)
            self.oblige(st, f"call:{short}/requires#{k}", goal, clause=r, site=line)
            st.assume(goal)
        if recursive and c.get("decreases"):
            cc = getattr(self, "cur_contract", None) or c
            cur = self.spec_val(cc.get("decreases") or c["decreases"], self.entry_env, self.entry_state, old=self.entry_state)
            new = self.spec_val(c["decreases"], penv, st, old=st)
            self.oblige(st, f"call:{short}/decreases", z3.And(new.t >= 0, new.t < cur.t), clause=c["decreases"], site=line)
        pre = st.copy()
        pre.env = dict(penv)
        # havoc the frame
        self.havoc_modifies(c["modifies"], penv, st)
        rty = parse_type(c["returns"]) if c.get("returns") else NONE
        if rty == NONE:
            result = NONE_VAL
        else:
            result = self.fresh_input("ret_" + short.replace(".", "_"), rty, st, assume_valid=False)
            if rty == DT:
                # zone of a returned datetime: whatever the postcondition says about it (nothing assumed)
                off, aware = fresh("ret_off", I), fresh("ret_aware", B)
                st.assume(z3.Implies(z3.Not(aware), off == 0))
                result = Val(DT, result.t, off=off, aware=aware)
            self.assume_ref_range(result, st)
        qenv = dict(penv)
        qenv["result"] = result
        ghost_lists = []
        for gname, gty in c.get("ghost_returns", {}).items():
            gv = Val(parse_type(gty), fresh("g_" + gname, sort_of(parse_type(gty))))
            qenv[gname] = gv
            st.env["g_" + gname] = gv
            self.assume_ref_range(gv, st)
            if gv.ty.name == "List":
                ghost_lists.append(gv)
        # fields of objects allocated by the callee
        for wf in c.get("writes_fresh", []):
            if wf == "*":
                # anything of the objects the callee allocated
                for k3 in sorted(set(list(st.heap.keys()) + list(self.init_heap.keys()))):
                    arr3 = st.heap.get(k3, self.init_heap.get(k3))
                    self._havoc_fresh_key(k3, arr3.sort().range(), pre.alloc, st)
                st.note_havoc("fresh", "", pre.alloc)
                continue
            self.havoc_fresh_region(wf, pre.alloc, st)
        for gv in ghost_lists:
            st.assume(self.list_len(gv, st) >= 0)        # type invariant of a witness list
        # exceptional exits
        for exc in c["raises"]:
            conds = c["exc_ensures"].get(exc)
            r = pre.copy()
            r.pc = pre.hyp()
            r.guards = []
            r.env = st.env
            r.frame = st.frame
            r.status = "raise"
            r.exc = exc
            r.exc_site = line
            when = c.get("raises_when", {}).get(exc) if isinstance(c.get("raises_when"), dict) else None
            if when is not None:
                wc = self.spec_truth(when, penv, pre, old=pre)
                r.pc.append(wc)
                st.assume(z3.Not(wc))
            for ce in conds or []:
                r.pc.append(self.spec_truth(ce, penv, r, old=pre))
            st.spawned.append(r)
        for k_, e in enumerate(c["ensures"]):
            if k_ in c.get("internal_ensures", ()):
                continue        # stated over the callee's own ghost state: not visible to callers
            g_ = self.spec_truth(e, qenv, st, old=pre)
            if z3.is_false(z3.simplify(g_)) and not st.guards:
                # a postcondition that is literally false in the caller's state makes everything after the call provable:
                # never silently (an encoder / frame error until shown otherwise)
                self.contradictions.append(f"postcondition #{k_} of {fi.qualname} is false in the state after the call "
                                           f"(line {line}): {e[:120]}")
            st.assume(g_)
        return result

    def fresh_key(self, key):
        """writes_fresh entry -> (heap key or prefix, element sort or None, is_prefix)"""
        cls, f = key.rsplit(".", 1)
        cls = TYPE_ALIASES.get(cls, cls)
        if f.startswith("map:"):
            vty = parse_type(f[4:])
            return self._map_key(vty), z3.ArraySort(S, opt_sort(sort_of(vty)).sort), False
        if cls == "List":
            if f == "len":
                return "List.len", I, False
            return "List.items.", None, True          # the item arrays of every element type
        fty = self.field_type(cls, f.split("!")[0])
        if fty is None:
            raise EngineError(f"writes_fresh {key}: unknown field")
        return f"{cls}.{f}", (B if f.endswith("!has") else sort_of(fty)), False

    def havoc_fresh_region(self, key, alloc0, st):
        """The callee initialised field `key` of objects it allocated: values at refs >= alloc0 unknown,
        all older objects keep their value (frame)."""
        k2, sort, is_prefix = self.fresh_key(key)
        if is_prefix:
            for k3 in sorted(set(list(st.heap.keys()) + list(self.init_heap.keys()))):
                if k3.startswith(k2):
                    arr3 = st.heap.get(k3, self.init_heap.get(k3))
                    self._havoc_fresh_key(k3, arr3.sort().range(), alloc0, st)
            st.note_havoc("fresh", k2, alloc0)
            return
        self._havoc_fresh_key(k2, sort, alloc0, st)

    def _havoc_fresh_key(self, k2, sort, alloc0, st):
        f = k2.rsplit(".", 1)[-1]
        arr = st.field(k2, sort)
        new = fresh("wf_" + f, arr.sort())
        r = fresh("r", I)
        st.assume(z3.ForAll([r], z3.Implies(r < alloc0, z3.Select(new, r) == z3.Select(arr, r)),
                            patterns=[z3.Select(new, r)]))
        if not st.guards:
            self.region_havoc[new.get_id()] = (arr, alloc0)
        st.set_field_array(k2, new)
        self.assume_closed(st, k2, new)
        if self.write_refs is not None:
            # reclassify the whole-array write just logged: it only touches objects allocated by the callee
            for n_ in range(len(self.write_refs) - 1, -1, -1):
                if self.write_refs[n_] == (k2, None):
                    self.write_refs[n_] = (k2, "fresh")
                    break

    def assume_closed(self, st, key, arr):
        """Closed heap (a property of the language, not of the code): a reference-typed field of an allocated
        object holds an allocated reference (or None).  Re-stated whenever a field array is havocked."""
        if "!" in key or "." not in key:
            return
        cls, f = key.rsplit(".", 1)
        fty = self.field_type(cls, f)
        if fty is None:
            return
        if not (is_reflike(fty) or (fty.name == "Opt" and is_reflike(fty.args[0]))):
            return
        r = fresh("r", I)
        st.assume(z3.ForAll([r], z3.Implies(z3.And(0 < r, r < st.alloc),
                                            z3.And(0 <= z3.Select(arr, r), z3.Select(arr, r) < st.alloc)),
                            patterns=[z3.Select(arr, r)]))

    def assume_ref_range(self, v, st):
        ty = v.ty
        if is_reflike(ty):
            st.assume(z3.And(v.t > 0, v.t < st.alloc))
        elif ty.name == "Opt" and is_reflike(ty.args[0]):
            st.assume(z3.And(v.t >= 0, v.t < st.alloc))
        elif ty.name == "Tuple":
            for x in v.t:
                self.assume_ref_range(x, st)

    def modifies_cells(self, mods, env, st):
        """Resolve the modifies patterns of a contract against the state `st` (the callee's pre-state):
        ("heap",) | ("alloc",) | ("key", key, sort) whole field array | ("keyprefix", prefix) | ("cell", key, sort, ref, record)
        one cell | ("prefix", prefix, ref) every field of one object.  Patterns: `p.f1...fn` (a cell reached through fields of
        the parameter p), `p.f1...fn.*` (every cell of the object held there), `p.f1...fn[]` / `p[]`-like `p` (contents of the
        dict / list held there), `Class.field`, `alloc`, `heap`."""
        out = []
        for m in mods:
            if m in ("alloc", "heap"):
                out.append((m,))
                continue
            star = m.endswith(".*")
            contents = m.endswith("[]")
            node = ast.parse(m[:-2] if (star or contents) else m, mode="eval").body
            if contents and isinstance(node, ast.Subscript) and isinstance(node.slice, ast.Name) and node.slice.id in env:
                # p.f[key][] : the contents of the list / dict stored under `key` in the dict held in p.f
                inner_cells = self.modifies_cells([ast.unparse(node.value) + "[]"], env, st)
                dcell = inner_cells[0]             # ("cell", map key of the outer dict, sort, ref of the outer dict, False)
                okey = dcell[1]
                outer_map = st.read(okey, dcell[2], dcell[3])
                kv = env[node.slice.id]
                cell = z3.Select(outer_map, kv.t)
                # element type of the outer dict from its map key name is not recoverable here: use the field's declared type
                chain0, base0 = [], node.value
                while isinstance(base0, ast.Attribute):
                    chain0.append(base0.attr)
                    base0 = base0.value
                chain0.reverse()
                obj0 = env[base0.id]
                cls0 = (obj0.ty.args[0] if obj0.ty.name != "Opt" else obj0.ty.args[0].args[0])
                fty0 = None
                for f in chain0:
                    fty0 = self.field_type(cls0, f)
                    cls0 = fty0.args[0] if fty0.name == "Obj" else cls0
                ety = fty0.args[0] if fty0 is not None and fty0.name == "Dict" else None
                if ety is None or ety.name not in ("List", "Dict"):
                    raise EngineError(f"modifies {m}: the dict's values are not lists or dicts")
                ref = opt_sort(sort_of(ety)).val(cell)
                if ety.name == "List":
                    out.append(("cell", "List.len", I, ref, False))
                    out.append(("cell", self._items_key(ety.args[0]), z3.ArraySort(I, sort_of(ety.args[0])), ref, False))
                else:
                    vty = ety.args[0] or JV
                    out.append(("cell", self._map_key(vty), z3.ArraySort(S, opt_sort(sort_of(vty)).sort), ref, False))
                continue
            chain = []
            base = node
            while isinstance(base, ast.Attribute):
                chain.append(base.attr)
                base = base.value
            chain.reverse()
            if isinstance(base, ast.Name) and base.id in env:
                obj = env[base.id]
                if obj.ty.name == "Opt":
                    obj = Val(obj.ty.args[0], obj.t)
                if not chain and star and obj.ty.name == "Obj":
                    out.append(("prefix", obj.ty.args[0] + ".", obj.t))      # p.* : every field of the parameter object
                    continue
                if not chain:
                    # the parameter itself: contents of a list / dict parameter
                    if obj.ty.name == "List":
                        out.append(("cell", "List.len", I, obj.t, False))
                        if obj.ty.args[0] is not None:
                            ety = obj.ty.args[0]
                            out.append(("cell", self._items_key(ety), z3.ArraySort(I, sort_of(ety)), obj.t, False))
                        continue
                    if obj.ty.name == "Dict":
                        vty = self.dict_vty(obj) or JV
                        out.append(("cell", self._map_key(vty), z3.ArraySort(S, opt_sort(sort_of(vty)).sort), obj.t, False))
                        continue
                    raise EngineError(f"modifies pattern {m!r} not understood")
                # walk to the object that owns the last field
                ref, cls = obj.t, (obj.ty.args[0] if obj.ty.name == "Obj" else None)
                walk = chain if (star or contents) else chain[:-1]
                fty = None
                for f in walk:
                    if cls is None:
                        raise EngineError(f"modifies {m}: {f} is not a field of an object")
                    fty = self.field_type(cls, f)
                    if fty is None:
                        raise EngineError(f"modifies {m}: unknown field {f}")
                    inner_ty = fty.args[0] if fty.name == "Opt" else fty
                    ref = st.read(f"{cls}.{f}", I, ref)
                    cls = inner_ty.args[0] if inner_ty.name == "Obj" else None
                    fty = inner_ty
                if star:
                    if cls is None:
                        raise EngineError(f"modifies {m}: not an object field")
                    out.append(("prefix", cls + ".", ref))
                    continue
                if contents:
                    if fty is None or fty.name not in ("Dict", "List"):
                        raise EngineError(f"modifies {m}: not a dict or list field")
                    if fty.name == "Dict":
                        vty = fty.args[0] or JV
                        out.append(("cell", self._map_key(vty), z3.ArraySort(S, opt_sort(sort_of(vty)).sort), ref, False))
                    else:
                        out.append(("cell", "List.len", I, ref, False))
                        out.append(("cell", self._items_key(fty.args[0]), z3.ArraySort(I, sort_of(fty.args[0])), ref, False))
                    continue
                last = chain[-1]
                if cls is None:
                    raise EngineError(f"modifies {m}: {last} is not a field of an object")
                lty = self.field_type(cls, last)
                key = f"{cls}.{last}"
                if lty is None:
                    arr = st.heap.get(key, self.init_heap.get(key))
                    srt = arr.sort().range() if arr is not None else I       # (ghost cells of modelled objects, e.g. conn.ncommits)
                else:
                    srt = sort_of(lty)
                out.append(("cell", key, srt, ref, bool(CLASSDEFS.get(cls, {}).get("record"))))
                continue
            if isinstance(node, ast.Attribute) and isinstance(node.value, ast.Name):
                # Class.field: whole field array
                cls = TYPE_ALIASES.get(node.value.id, node.value.id)
                if (cls, node.attr) in (("Dict", "map"), ("List", "items")):
                    out.append(("keyprefix", f"{cls}.{node.attr}."))      # the maps / item arrays of every element type
                    continue
                if (cls, node.attr) == ("List", "len"):
                    out.append(("key", "List.len", z3.ArraySort(I, I)))
                    continue
                fty = self.field_type(cls, node.attr)
                if fty is None:
                    raise EngineError(f"modifies {m}: unknown field")
                out.append(("key", f"{cls}.{node.attr}", z3.ArraySort(I, sort_of(fty))))
                if CLASSDEFS.get(cls, {}).get("record"):
                    out.append(("key", f"{cls}.{node.attr}!has", z3.ArraySort(I, B)))
                continue
            raise EngineError(f"modifies pattern {m!r} not understood")
        return out

    def materialize_fields(self, prefix, st):
        """Make every heap field an object of the class(es) under `prefix` can have exist in the state (fields are created
        lazily; a frame that names `obj.*` or `heap` has to cover the ones not read yet as well)."""
        known = []
        if prefix in ("", CONN_PREFIX) and hasattr(self, "sqlite_keys"):
            try:
                known.extend(self.sqlite_keys())
            except Unsupported:
                pass
        for cls, cd in CLASSDEFS.items():
            if (cls + ".").startswith(prefix) or prefix == "":
                for f, fty in cd["fields"].items():
                    known.append((f"{cls}.{f}", sort_of(parse_type(fty))))
                    if cd.get("record"):
                        known.append((f"{cls}.{f}!has", B))
        for (cls, f), fty in getattr(self, "dyn_fields", {}).items():
            if (cls + ".").startswith(prefix) or prefix == "":
                known.append((f"{cls}.{f}", sort_of(fty)))
        for key, srt in known:
            if key.startswith(prefix) or prefix == "":
                try:
                    st.field(key, srt)
                except Exception:
                    pass

    def havoc_modifies(self, mods, env, st):
        for cell in self.modifies_cells(mods, env, st):
            if cell[0] == "prefix":
                self.materialize_fields(cell[1], st)
            elif cell[0] == "heap":
                self.materialize_fields("", st)
            kind = cell[0]
            if kind == "alloc":
                st.new_epoch_at_least(st.alloc)
            elif kind == "heap":
                for k in list(st.heap.keys()) + list(self.init_heap.keys()):
                    arr = st.heap.get(k, self.init_heap.get(k))
                    st.set_field_array(k, fresh("hv_" + k, arr.sort()))
                st.note_havoc("all", "")
                st.new_epoch_at_least(st.alloc)
            elif kind == "key":
                st.set_field_array(cell[1], fresh("hv_" + cell[1].rsplit(".", 1)[-1], cell[2]))
            elif kind == "keyprefix":
                for k in sorted(set(list(st.heap.keys()) + list(self.init_heap.keys()))):
                    if k.startswith(cell[1]):
                        arr = st.heap.get(k, self.init_heap.get(k))
                        st.set_field_array(k, fresh("hv_" + k.rsplit(".", 1)[-1], arr.sort()))
                st.note_havoc("all", cell[1])
            elif kind == "prefix":
                for k in sorted(set(list(st.heap.keys()) + list(self.init_heap.keys()))):
                    if k.startswith(cell[1]):
                        arr = st.heap.get(k, self.init_heap.get(k))
                        st.write(k, arr.sort().range(), cell[2], fresh("hv_" + k.rsplit(".", 1)[-1], arr.sort().range()))
                st.note_havoc("at", cell[1], cell[2])
            else:
                _, key, srt, ref, record = cell
                st.write(key, srt, ref, fresh("hv_" + key.rsplit(".", 1)[-1], srt))
                if key == "List.len":
                    st.assume(st.read("List.len", I, ref) >= 0)
                if record:
                    st.write(key + "!has", B, ref, fresh("hv_has", B))      # presence of the key may change too

    def check_frame(self, c, o, env, tag="frame"):
        """Frame obligation of a function under contract: every heap cell that existed on entry and is not named by
        `modifies` holds its entry value on exit; cells of objects allocated by the function may differ only in the
        fields listed under writes_fresh."""
        mods = c["modifies"]
        if "heap" in mods:
            return
        old = o.old
        alloc0 = old.alloc
        cells = self.modifies_cells(mods, env, old)
        whole = {x[1] for x in cells if x[0] == "key"}
        at = {}
        for x in cells:
            if x[0] == "cell":
                at.setdefault(x[1], []).append(x[3])
                if x[4]:
                    at.setdefault(x[1] + "!has", []).append(x[3])
        prefixes = [(x[1], x[2]) for x in cells if x[0] == "prefix"]
        keyprefixes = [x[1] for x in cells if x[0] == "keyprefix"]
        fresh_exact, fresh_prefix = set(), []
        for wf in c.get("writes_fresh", []):
            if wf == "*":
                fresh_prefix.append("")
                continue
            k2, _, is_prefix = self.fresh_key(wf)
            (fresh_prefix.append(k2) if is_prefix else fresh_exact.add(k2))
        for key in sorted(o.heap):
            arr = o.heap[key]
            arr0 = old.heap.get(key, self.init_heap.get(key))
            if arr0 is None or arr.eq(arr0) or key in whole or any(key.startswith(kp) for kp in keyprefixes):
                continue
            r = fresh("fr", I)
            excl = [r > 0] + [r != ref for ref in at.get(key, [])]
            excl += [r != ref for (pre, ref) in prefixes if key.startswith(pre)]
            if key in fresh_exact or any(key.startswith(pf) for pf in fresh_prefix):
                excl.append(r < alloc0)
            goal = z3.Implies(z3.And(*excl) if excl else z3.BoolVal(True), z3.Select(arr, r) == z3.Select(arr0, r))
            self.oblige(o, f"{tag}/{key}", goal, clause=f"modifies {mods} writes_fresh {c.get('writes_fresh', [])}: {key} unchanged elsewhere")

    # -- spec primitives -----------------------------------------------------------------------
    def spec_old(self, e, st, which=None):
        src = st.old if which is None else st.ghost.get(which)
        if src is None:
            raise EngineError("old()/entry() without a pre-state")
        o = src.copy()
        o.ghost = dict(o.ghost)
        o.ghost.update({k: v for k, v in st.ghost.items() if k.startswith("g:")})
        o.spec = True
        o.guards = []
        o.frame = st.frame
        # bound quantifier variables stay visible inside old(...)
        env = dict(o.env)
        for k, v in st.env.items():
            if k.startswith("__q_") or k not in env:
                env[k] = v
        for k in st.ghost.get("__qvars__", ()):
            env[k] = st.env[k]
        o.env = env
        v = self.eval(e.args[0], o)
        if v.ty.name == "Dict":
            # a dict read through old(...) is a value: its contents in the pre-state
            v = Val(v.ty, v.t, frozen=self.dict_map(v, o))
        return v

    def mk_forall(self, vs, body):
        """ForAll with explicit triggers: for each bound variable the array reads indexed exactly by it
        (list element reads such as xs[i]); falls back to the solver's own choice when a variable has none."""
        per_var = []
        for v in vs:
            found = []
            found_dep = []      # reads indexed by v of an array that depends on the *other* bound variables (xs[c][t])
            seen = set()

            def walk(t):
                if t.get_id() in seen:
                    return
                seen.add(t.get_id())
                if z3.is_select(t) and t.num_args() == 2 and t.arg(1).eq(v) and _pattern_ok(t.arg(0)):
                    if not _mentions(t.arg(0), vs):
                        found.append(t)
                    elif not _mentions(t.arg(0), [v]):
                        found_dep.append(t)
                if z3.is_quantifier(t):
                    return
                for c in t.children():
                    walk(c)
            walk(body)
            uniq = []
            for f in (found or found_dep):
                if not any(f.eq(u) for u in uniq):
                    uniq.append(f)
            if not uniq:
                return z3.ForAll(vs, body)
            per_var.append(uniq[:3])
        import itertools
        pats = []
        for combo in itertools.islice(itertools.product(*per_var), 6):
            pats.append(combo[0] if len(combo) == 1 else z3.MultiPattern(*combo))
        try:
            return z3.ForAll(vs, body, patterns=pats)
        except z3.Z3Exception:
            return z3.ForAll(vs, body)

    def quantifier_flat(self, kind, gen, st):
        """all(P for i in range(..) for j in range(..)): one flat quantifier (better triggers than nesting)."""
        s_env = st.env
        st.env = dict(st.env)
        qv = list(st.ghost.get("__qvars__", ()))
        try:
            vs, rngs, names = [], [], []
            for g in gen.generators:
                it = g.iter
                ra = [self.eval(a, st) for a in it.args]
                lo, hi = (mk_int(0), ra[0]) if len(ra) == 1 else (ra[0], ra[1])
                i = fresh("q_" + g.target.id, I)
                st.env[g.target.id] = Val(INT, i)
                vs.append(i)
                names.append(g.target.id)
                rngs.append(z3.And(lo.t <= i, i < hi.t))
                for cond in g.ifs:
                    rngs.append(self.truth(self.eval(cond, st), st))
            st.ghost = dict(st.ghost)
            st.ghost["__qvars__"] = qv + names
            body = self.truth(self.eval(gen.elt, st), st)
            if kind == "all":
                return Val(BOOL, self.mk_forall(vs, z3.Implies(z3.And(*rngs), body)))
            return Val(BOOL, z3.Exists(vs, z3.And(*rngs, body)))
        finally:
            st.env = s_env
            st.ghost = dict(st.ghost)
            st.ghost["__qvars__"] = qv

    def _is_sym_range(self, g, st):
        it = g.iter
        return (isinstance(it, ast.Call) and isinstance(it.func, ast.Name) and it.func.id == "range"
                and isinstance(g.target, ast.Name) and 1 <= len(it.args) <= 2)

    def quantifier(self, kind, gen, st):
        if len(gen.generators) > 1 and self.bounded is None and all(self._is_sym_range(g, st) for g in gen.generators):
            return self.quantifier_flat(kind, gen, st)
        if len(gen.generators) != 1:
            # nested: all(P for i in A for j in B) == all(all(P for j in B) for i in A)
            inner = ast.GeneratorExp(elt=gen.elt, generators=gen.generators[1:])
            call = ast.Call(func=ast.Name(id=kind, ctx=ast.Load()), args=[inner], keywords=[])
            gen = ast.GeneratorExp(elt=call, generators=gen.generators[:1])
        g = gen.generators[0]
        it = g.iter
        s_env = st.env
        st.env = dict(st.env)
        qv = list(st.ghost.get("__qvars__", ()))
        try:
            if isinstance(it, ast.Call) and isinstance(it.func, ast.Name) and it.func.id == "range":
                ra = [self.eval(a, st) for a in it.args]
                lo, hi = (mk_int(0), ra[0]) if len(ra) == 1 else (ra[0], ra[1])
                if not isinstance(g.target, ast.Name):
                    raise Unsupported("quantifier target")
                # finite expansion when the range is concrete (bounded refuter)
                if z3.is_int_value(z3.simplify(lo.t)) and z3.is_int_value(z3.simplify(hi.t)):
                    l, h = z3.simplify(lo.t).as_long(), z3.simplify(hi.t).as_long()
                    if h - l <= 64:
                        parts = []
                        for k in range(l, h):
                            st.env[g.target.id] = mk_int(k)
                            parts.append(self._qbody(gen, g, st, kind))
                        if kind == "all":
                            return Val(BOOL, z3.And(*parts) if parts else z3.BoolVal(True))
                        return Val(BOOL, z3.Or(*parts) if parts else z3.BoolVal(False))
                i = fresh("q_" + g.target.id, I)
                st.env[g.target.id] = Val(INT, i)
                st.ghost = dict(st.ghost)
                st.ghost["__qvars__"] = qv + [g.target.id]
                rng = z3.And(lo.t <= i, i < hi.t)
                body = self._qbody(gen, g, st, kind)
                if kind == "all":
                    return Val(BOOL, self.mk_forall([i], z3.Implies(rng, body)))
                return Val(BOOL, z3.Exists([i], z3.And(rng, body)))
            if isinstance(it, ast.Call) and isinstance(it.func, ast.Name) and it.func.id in ("event_ids", "bucket_rowids", "integers"):
                # every integer (row ids of a table; liveness is stated in the body)
                r = fresh("q_" + g.target.id, I)
                st.env[g.target.id] = Val(INT, r)
                st.ghost = dict(st.ghost)
                st.ghost["__qvars__"] = qv + [g.target.id]
                body = self._qbody(gen, g, st, kind)
                if kind == "all":
                    return Val(BOOL, z3.ForAll([r], body))
                return Val(BOOL, z3.Exists([r], body))
            if isinstance(it, ast.Call) and isinstance(it.func, ast.Name) and it.func.id == "dicts":
                # every allocated dict object (specification only)
                r = fresh("q_d", I)
                st.env[g.target.id] = Val(DictT(JV), r)
                st.ghost = dict(st.ghost)
                st.ghost["__qvars__"] = qv + [g.target.id]
                rng = z3.And(r > 0, r < st.alloc)
                body = self._qbody(gen, g, st, kind)
                if kind == "all":
                    return Val(BOOL, z3.ForAll([r], z3.Implies(rng, body)))
                return Val(BOOL, z3.Exists([r], z3.And(rng, body)))
            if isinstance(it, ast.Call) and isinstance(it.func, ast.Name) and it.func.id == "instants":
                # every instant (integer microsecond) of the closed interval [a, b]
                a_, b_ = [self.eval(x, st) for x in it.args]
                t = fresh("q_t", I)
                st.env[g.target.id] = Val(DT, t)
                st.ghost = dict(st.ghost)
                st.ghost["__qvars__"] = qv + [g.target.id]
                rng = z3.And(a_.t <= t, t <= b_.t)
                body = self._qbody(gen, g, st, kind)
                # `t` occurs only under arithmetic, which gives e-matching nothing to trigger on: guard the
                # body with the always-true marker tr(t) (axiom: forall t. tr(t)) and trigger on it
                tr = z3.Function("tr_instant", I, B)
                if not getattr(self, "_tr_axiom", False):
                    self._tr_axiom = True
                    tt = z3.Int("tt!tr")
                    self.axioms.append(z3.ForAll([tt], tr(tt), patterns=[tr(tt)]))
                if kind == "all":
                    return Val(BOOL, z3.ForAll([t], z3.Implies(z3.And(tr(t), rng), body), patterns=[tr(t)]))
                return Val(BOOL, z3.Exists([t], z3.And(rng, body)))
            coll = self.eval(it, st)
            if coll.ty.name == "Opt":
                coll = self._inner(coll)
            if coll.ty.name == "List":
                i = fresh("q_i", I)
                n = self.list_len(coll, st)
                el = self.list_elem_val(coll, i, st)
                self.assign(g.target, el, st)
                st.ghost = dict(st.ghost)
                names = [n_.id for n_ in ast.walk(g.target) if isinstance(n_, ast.Name)]
                st.ghost["__qvars__"] = qv + names
                rng = z3.And(0 <= i, i < n)
                body = self._qbody(gen, g, st, kind)
                if kind == "all":
                    return Val(BOOL, z3.ForAll([i], z3.Implies(rng, body)))
                return Val(BOOL, z3.Exists([i], z3.And(rng, body)))
            if coll.ty.name == "Dict":
                # quantification over the keys of a dict
                kq = fresh("q_k", S)
                st.env[g.target.id] = Val(STR, kq)
                st.ghost = dict(st.ghost)
                st.ghost["__qvars__"] = qv + [g.target.id]
                rng = self.dict_has(coll, kq, st)
                body = self._qbody(gen, g, st, kind)
                if kind == "all":
                    return Val(BOOL, z3.ForAll([kq], z3.Implies(rng, body)))
                return Val(BOOL, z3.Exists([kq], z3.And(rng, body)))
            if coll.ty.name == "Tuple":
                parts = []
                for x in coll.t:
                    self.assign(g.target, x, st)
                    parts.append(self._qbody(gen, g, st, kind))
                if kind == "all":
                    return Val(BOOL, z3.And(*parts) if parts else z3.BoolVal(True))
                return Val(BOOL, z3.Or(*parts) if parts else z3.BoolVal(False))
            raise Unsupported(f"quantifier over {coll.ty}")
        finally:
            st.env = s_env
            st.ghost = dict(st.ghost)
            st.ghost["__qvars__"] = qv

    def _qbody(self, gen, g, st, kind="all"):
        body = self.truth(self.eval(gen.elt, st), st)
        for cond in g.ifs:
            c = self.truth(self.eval(cond, st), st)
            body = z3.Implies(c, body) if kind == "all" else z3.And(c, body)
        return body
