"""Run-time harness for the query language (C11, C17); runs under /venv/bin/python on the real aw_query.

C17: random strings over the token alphabet and corrupted valid programs: the query terminates and either returns or
     raises an exception of the query-error family from parsing / name, arity and type resolution (exceptions raised
     inside the body of a built-in are out of the property's scope and are classified by the innermost frame).
C11: programs generated from the grammar are evaluated by aw_query.query and by an independent reference parser /
     evaluator (`ref_eval` below: a recursive-descent parser over the same built-ins); results must be equal, and
     re-spacing around separators must not change the result.
"""
from __future__ import annotations
import json
import os
import random
import signal
import sys
import traceback
from datetime import datetime, timedelta, timezone

REPO = os.environ.get("PYVC_REPO", "/repo")
if REPO not in sys.path:
    sys.path.insert(0, REPO)

NOW = datetime(2020, 1, 1, tzinfo=timezone.utc)


class Timeout(Exception):
    pass


def _alarm(signum, frame):
    raise Timeout()


def make_ds():
    from aw_datastore import Datastore
    from aw_datastore.storages import MemoryStorage
    from aw_core.models import Event
    ds = Datastore(MemoryStorage, testing=True)
    ds.create_bucket("b1", "t", "c", "h", created=NOW)
    ds["b1"].insert([Event(timestamp=NOW + timedelta(seconds=i), duration=timedelta(seconds=1), data={"title": "t%d" % (i % 2)}) for i in range(3)])
    return ds


def run_query(text, ds, limit_s=2):
    from aw_query import query
    signal.signal(signal.SIGALRM, _alarm)
    signal.setitimer(signal.ITIMER_REAL, limit_s)
    try:
        return ("value", query("q", text, NOW, NOW + timedelta(hours=1), ds))
    except Timeout:
        return ("timeout", None)
    except BaseException as e:   # noqa
        tb = traceback.extract_tb(e.__traceback__)
        return ("raise", e, tb)
    finally:
        signal.setitimer(signal.ITIMER_REAL, 0)


def classify(exc, tb):
    """'query-error' | 'builtin-body' (out of scope) | 'escape' (violation)"""
    from aw_query.exceptions import QueryException
    if isinstance(exc, QueryException):
        return "query-error"
    inner = tb[-1]
    fname = inner.filename.replace("\\", "/")
    in_query_pkg = "/aw_query/" in fname
    if not in_query_pkg:
        return "builtin-body"
    if fname.endswith("functions.py") and inner.name.startswith("q2_"):
        return "builtin-body"
    # a frame of a built-in's body further up, with the failure in library code called from it
    for fr in tb:
        f2 = fr.filename.replace("\\", "/")
        if f2.endswith("aw_query/functions.py") and fr.name.startswith("q2_"):
            return "builtin-body"
    return "escape"


# ---------------------------------------------------------------------------------------------------------
VALID = [
    'RETURN = 1;', 'RETURN = "a";', 'x = [1, 2, "c"]; RETURN = x;', 'RETURN = {"a": 1, "b": [1, {"c": "d"}]};',
    'RETURN = nop();', 'e = query_bucket("b1"); RETURN = limit_events(e, 1);', 'RETURN = concat([1], [2]);',
    'e = query_bucket("b1"); RETURN = filter_keyvals(e, "title", ["t0"]);', 'RETURN = sum_durations(query_bucket("b1"));',
    'a = 1; b = a; RETURN = [a, b];', 'RETURN = find_bucket("b");', 'RETURN = query_bucket_eventcount("b1");',
    'RETURN = merge_events_by_keys(query_bucket("b1"), ["title"]);', 'RETURN = sort_by_duration(flood(query_bucket("b1")));',
]
ALPHABET = list('abRETURN=;,:()[]{}"\'\\ \t\n0123²٣_x1') + ["nop", "concat", "query_bucket", "RETURN", "true", "limit_events"]


def corrupt(rng, s):
    k = rng.randint(0, 4)
    if not s:
        return s
    i = rng.randrange(len(s))
    if k == 0:
        return s[:i] + s[i + 1:]
    if k == 1:
        return s[:i] + s[i] + s[i:]
    if k == 2:
        j = rng.randrange(len(s))
        l = list(s)
        l[i], l[j] = l[j], l[i]
        return "".join(l)
    if k == 3:
        return s[:i] + rng.choice(ALPHABET) + s[i:]
    return s[:i] + rng.choice(['(', ')', '[', ']', '{', '}', '"', "'", ',', ':', ' ', '']) + s[i + 1:]


# C17 names the kind of error for each kind of fault: malformed text -> parse error; unknown variable or function, wrong number of
# arguments -> interpret error; wrong type of a top-level argument, unknown bucket -> function error.  One text per case and built-in.
ERROR_KINDS = [
    ('RETURN = nosuchvar;', 'QueryInterpretException'), ('x = 1; RETURN = y;', 'QueryInterpretException'),
    ('RETURN = nosuchfn();', 'QueryInterpretException'), ('RETURN = nosuchfn(1, [2]);', 'QueryInterpretException'),
    ('RETURN = nop(1);', 'QueryInterpretException'), ('RETURN = limit_events();', 'QueryInterpretException'),
    ('RETURN = query_bucket();', 'QueryInterpretException'), ('RETURN = concat([1]);', 'QueryInterpretException'),
    ('RETURN = query_bucket("b1", 2, 3);', 'QueryInterpretException'), ('RETURN = sort_by_timestamp([], []);', 'QueryInterpretException'),
    ('RETURN = limit_events(1, 2);', 'QueryFunctionException'), ('RETURN = query_bucket(1);', 'QueryFunctionException'),
    ('RETURN = filter_keyvals([], 1, []);', 'QueryFunctionException'), ('RETURN = limit_events([], "x");', 'QueryFunctionException'),
    ('RETURN = sort_by_timestamp("x");', 'QueryFunctionException'), ('RETURN = merge_events_by_keys([], "k");', 'QueryFunctionException'),
    ('RETURN = query_bucket("nosuch");', 'QueryFunctionException'), ('RETURN = query_bucket_eventcount("nosuch");', 'QueryFunctionException'),
    ('RETURN = ;', 'QueryParseException'), ('RETURN = [1,;', 'QueryParseException'), ('= 1;', 'QueryParseException'),
    ('RETURN 1;', 'QueryParseException'), ('1 = 2;', 'QueryParseException'), ('RETURN = [1 2];', 'QueryParseException'),
    ('RETURN = {"a" 1};', 'QueryParseException'), ('RETURN = {1: 2};', 'QueryParseException'), ('RETURN = nop(;', 'QueryParseException'),
    ('RETURN = "abc;', 'QueryParseException'), ('x = 1;', 'QueryParseException'), ('RETURN = 1 2;', 'QueryParseException'),
    ('x y = 1; RETURN = 1;', 'QueryParseException'), ('RETURN = [;', 'QueryParseException'), ('RETURN = {;', 'QueryParseException'),
    ('RETURN = 1; true;', 'QueryParseException'),
]


def c17(seed, n):
    rng = random.Random(seed)
    ds = make_ds()
    bad = []
    stats = {"value": 0, "query-error": 0, "builtin-body": 0}
    for text, want in ERROR_KINDS:
        r = run_query(text, ds)
        got = type(r[1]).__name__ if r[0] == "raise" else r[0]
        if got != want:
            bad.append({"text": text, "problem": f"wrong kind of answer: {want} expected, got {got}" + (f" ({r[1]})" if r[0] == "raise" else "")})
    stats["error-kind cases"] = len(ERROR_KINDS)
    for k in range(n):
        if rng.random() < 0.35:
            text = "".join(rng.choice(ALPHABET) for _ in range(rng.randint(0, 14)))
            if rng.random() < 0.5:
                text = "RETURN = " + text + ";"
        else:
            text = rng.choice(VALID)
            for _ in range(rng.randint(1, 3)):
                text = corrupt(rng, text)
        r = run_query(text, ds)
        if r[0] == "timeout":
            bad.append({"text": text, "problem": "did not terminate within 2 s"})
        elif r[0] == "raise":
            c = classify(r[1], r[2])
            if c == "escape":
                bad.append({"text": text, "problem": f"{type(r[1]).__name__}: {r[1]} escaped from {r[2][-1].name} ({os.path.basename(r[2][-1].filename)}:{r[2][-1].lineno})"})
            else:
                stats[c] += 1
        else:
            stats["value"] += 1
            # malformed text is reported as a parse error: a text the reference grammar rejects must not yield a value.  (The
            # reference is the more permissive of the two wherever they differ - missing commas, spacing before '(' - so only
            # its rejections are used, and only its syntax errors: anything else it raises is no verdict.)
            try:
                ref_parse(text)
            except RefError as e:
                bad.append({"text": text, "problem": f"malformed text accepted: query() returned a value for a text the reference grammar rejects ({e})"})
            except Exception:
                pass
        if len(bad) >= 8:
            break
    return bad, stats


# ---------------------------------------------------------------------------------------------------------
# C11: independent reference parser / evaluator
# ---------------------------------------------------------------------------------------------------------
class RefError(Exception):
    pass


class RefParser:
    """Recursive descent over: stmt := NAME '=' expr ; expr := INT | STRING | NAME | NAME '(' args ')' | '[' items ']' | '{' pairs '}'"""

    def __init__(self, text):
        self.s = text
        self.i = 0

    def ws(self):
        while self.i < len(self.s) and self.s[self.i] in " \t\r\n":
            self.i += 1

    def peek(self):
        self.ws()
        return self.s[self.i] if self.i < len(self.s) else ""

    def expect(self, ch):
        if self.peek() != ch:
            raise RefError(f"expected {ch!r} at {self.i}")
        self.i += 1

    def name(self):
        self.ws()
        j = self.i
        while j < len(self.s) and (self.s[j].isalpha() or self.s[j] == "_" or (j > self.i and self.s[j].isdigit())):
            j += 1
        if j == self.i:
            raise RefError("name expected")
        n = self.s[self.i:j]
        self.i = j
        return n

    def expr(self):
        c = self.peek()
        if c.isdigit():
            j = self.i
            while j < len(self.s) and self.s[j].isdigit():
                j += 1
            v = int(self.s[self.i:j])
            self.i = j
            return ("int", v)
        if c in "\"'":
            q = c
            j = self.i + 1
            out = []
            while j < len(self.s):
                if self.s[j] == "\\" and j + 1 < len(self.s) and self.s[j + 1] == q:
                    out.append(q)
                    j += 2
                    continue
                if self.s[j] == q:
                    break
                out.append(self.s[j])
                j += 1
            if j >= len(self.s):
                if getattr(self, "lenient_strings", False) and j - self.i >= 2 and self.s[-1] == q:
                    # `"ab\"` at the very end of a statement: by the rule "a backslash escapes the quote" this string is not
                    # terminated, yet QString takes the escaped quote for the closing one.  Whether that is malformed is a
                    # matter of taste (there is no other way to write a string ending in a backslash): no verdict from it
                    self.i = len(self.s)
                    return ("str", "".join(out))
                raise RefError("unterminated string")
            self.i = j + 1
            return ("str", "".join(out))
        if c == "[":
            self.i += 1
            items = []
            while self.peek() != "]":
                items.append(self.expr())
                if self.peek() == ",":
                    self.i += 1
            self.i += 1
            return ("list", items)
        if c == "{":
            self.i += 1
            pairs = []
            while self.peek() != "}":
                k = self.expr()
                if k[0] != "str":
                    raise RefError("dict key")
                self.expect(":")
                pairs.append((k[1], self.expr()))
                if self.peek() == ",":
                    self.i += 1
            self.i += 1
            return ("dict", pairs)
        n = self.name()
        if self.peek() == "(":
            self.i += 1
            args = []
            while self.peek() != ")":
                args.append(self.expr())
                if self.peek() == ",":
                    self.i += 1
            self.i += 1
            return ("call", n, args)
        return ("var", n)


def split_statements(text):
    """statements: split at ';' outside strings"""
    stmts, cur, q, prev = [], [], None, ""
    for ch in text:
        if q:
            cur.append(ch)
            if ch == q and prev != "\\":
                q = None
        elif ch in "\"'":
            q = ch
            cur.append(ch)
        elif ch == ";":
            stmts.append("".join(cur))
            cur = []
        else:
            cur.append(ch)
        prev = ch
    stmts.append("".join(cur))
    return stmts


def ref_parse(text):
    """Syntax only: raises RefError for a text the reference grammar does not derive."""
    for s in text.split(";"):         # (the statement splitter of query(): every ';' separates, also one inside quotes)
        if not s.strip():
            continue
        p = RefParser(s.strip())
        p.lenient_strings = True
        p.name()
        p.expect("=")
        p.expr()
        p.ws()
        if p.i != len(p.s):
            raise RefError("trailing text")


def ref_eval(text, ds):
    from aw_query.functions import functions
    ns = {"True": True, "False": False, "true": True, "false": False, "NAME": "q",
          "STARTTIME": NOW.isoformat(), "ENDTIME": (NOW + timedelta(hours=1)).isoformat()}

    def ev(t):
        k = t[0]
        if k in ("int", "str"):
            return t[1]
        if k == "list":
            return [ev(x) for x in t[1]]
        if k == "dict":
            return {kk: ev(v) for kk, v in t[1]}
        if k == "var":
            return ns[t[1]]
        if k == "call":
            return functions[t[1]](ds, ns, *[ev(a) for a in t[2]])
        raise RefError(k)
    # statements: split at ';' outside strings
    stmts, cur, q, prev = [], [], None, ""
    for ch in text:
        if q:
            cur.append(ch)
            if ch == q and prev != "\\":
                q = None
        elif ch in "\"'":
            q = ch
            cur.append(ch)
        elif ch == ";":
            stmts.append("".join(cur))
            cur = []
        else:
            cur.append(ch)
        prev = ch
    stmts.append("".join(cur))
    for s in stmts:
        if not s.strip():
            continue
        p = RefParser(s)
        n = p.name()
        p.expect("=")
        val = ev(p.expr())
        p.ws()
        if p.i != len(p.s):
            raise RefError("trailing text")
        ns[n] = val
    return ns["RETURN"]


class ProgGen:
    FUNCS = [("nop", 0), ("concat", 2), ("limit_events", 2), ("sort_by_timestamp", 1), ("sort_by_duration", 1), ("query_bucket", 1),
             ("filter_keyvals", 3), ("exclude_keyvals", 3), ("merge_events_by_keys", 2), ("sum_durations", 1), ("flood", 1),
             ("period_union", 2), ("filter_period_intersect", 2), ("query_bucket_eventcount", 1), ("chunk_events_by_key", 2)]

    def __init__(self, rng):
        self.rng = rng
        self.sprng = random.Random(rng.random())     # spacing has its own generator: structure is identical with and without
        self.vars = []

    def sp(self):
        return self.sprng.choice(["", "", " ", "  ", "\n", "\t"]) if self.spacing else ""

    def lit(self, depth):
        r = self.rng
        x = r.random()
        if x < 0.3 or depth <= 0:
            return str(r.choice([0, 1, 2, 10, 123]))
        if x < 0.55:
            q = r.choice(['"', "'"])
            # (unbalanced brackets of every kind, separators, the other kind of quote, an escaped quote of the same kind:
            #  everything a string may hold except ';', which the statement splitter of query() takes for a separator)
            body = r.choice(["a", "t0", "a,b", "x(y)", "[z]", "k=v", "{}", "q'q" if q == '"' else 'q"q', "ab", "",
                             ")", "(", "]", "[", "}", "{", "a}b", "{a", "x)", "(,", "a:b", ": ", ",", " = ", "f(", "1]",
                             "e\\" + q + "e", "\\" + q])
            return q + body + q
        if x < 0.8:
            n = r.randint(0, 3)
            return "[" + ("," + self.sp()).join(self.sp() + self.expr(depth - 1) + self.sp() for _ in range(n)) + "]"
        n = r.randint(0, 3)
        keys = r.sample(["a", "b", "c", "d", "k}", "{k", "a:b", "x,y", "p)", "[q", "e=f"], n)
        kq = [r.choice(['"', "'"]) for _ in keys]
        return "{" + ("," + self.sp()).join(self.sp() + q + k + q + self.sp() + ":" + self.sp() + self.expr(depth - 1) + self.sp()
                                              for k, q in zip(keys, kq)) + "}"

    def events(self, depth):
        r = self.rng
        if depth <= 0 or r.random() < 0.4:
            return 'query_bucket(' + self.sp() + '"b1"' + self.sp() + ')'
        f = r.choice(["concat", "limit_events", "sort_by_timestamp", "sort_by_duration", "filter_keyvals", "exclude_keyvals", "flood",
                      "period_union", "filter_period_intersect"])
        if f in ("concat", "period_union", "filter_period_intersect"):
            args = [self.events(depth - 1), self.events(depth - 1)]
        elif f == "limit_events":
            args = [self.events(depth - 1), str(r.randint(0, 3))]
        elif f in ("filter_keyvals", "exclude_keyvals"):
            args = [self.events(depth - 1), '"title"', '["t0"]']
        else:
            args = [self.events(depth - 1)]
        return f + "(" + ("," + self.sp()).join(self.sp() + a + self.sp() for a in args) + ")"

    def expr(self, depth):
        r = self.rng
        x = r.random()
        if self.vars and x < 0.2:
            return r.choice(self.vars)
        if x < 0.45:
            return self.events(depth)
        if x < 0.55:
            return "nop(" + self.sp() + ")"
        if x < 0.65:
            return "concat(" + self.sp() + self.lit(depth - 1 if depth else 0).replace("{", "[").replace("}", "]") if False else self.lit(depth)
        return self.lit(depth)

    def program(self, spacing):
        self.spacing = spacing
        self.vars = []
        r = self.rng
        out = []
        for _ in range(r.randint(0, 2)):
            v = r.choice(["a", "b", "x1", "ev"])
            out.append(self.sp() + v + self.sp() + "=" + self.sp() + self.expr(2) + self.sp() + ";")
            if v not in self.vars:
                self.vars.append(v)
        if r.random() < 0.3:
            # RETURN is an ordinary variable: it may be assigned early, read, and rebound later
            out.append(self.sp() + "RETURN" + self.sp() + "=" + self.sp() + self.expr(2) + self.sp() + ";")
            self.vars.append("RETURN")
            if r.random() < 0.5:
                v = r.choice(["a", "b"])
                out.append(self.sp() + v + self.sp() + "=" + self.sp() + self.expr(1) + self.sp() + ";")
                if v not in self.vars:
                    self.vars.append(v)
        out.append(self.sp() + "RETURN" + self.sp() + "=" + self.sp() + self.expr(3) + self.sp() + ";")
        if r.random() < 0.15:
            v = r.choice(["a", "z"])
            out.append(self.sp() + v + self.sp() + "=" + self.sp() + self.expr(1) + self.sp() + ";")
        return self.sp().join(out)


def canon(v):
    from aw_core.models import Event
    if isinstance(v, Event):
        return ["E", v.id, str(v.timestamp), str(v.duration), canon(v.data)]
    if isinstance(v, (list, tuple)):
        return [canon(x) for x in v]
    if isinstance(v, dict):
        return {k: canon(x) for k, x in v.items()}
    if isinstance(v, timedelta):
        return ["td", str(v)]
    return v


def c11(seed, n):
    rng = random.Random(seed)
    bad = []
    agree = 0
    gen = ProgGen(rng)
    for k in range(n):
        st = rng.getstate()
        text = gen.program(spacing=False)
        rng.setstate(st)
        spaced = gen.program(spacing=True)
        try:
            want = ("value", canon(ref_eval(text, make_ds())))
        except Exception as e:
            want = ("raise", type(e).__name__)
        for variant, t in (("plain", text), ("spaced", spaced)):
            r = run_query(t, make_ds())
            if want[0] == "value":
                if r[0] != "value":
                    bad.append({"text": t, "problem": f"{variant}: reference evaluator gives {json.dumps(want[1], default=str)[:120]}, aw_query raised {type(r[1]).__name__ if r[0] == 'raise' else r[0]}: {r[1] if r[0] == 'raise' else ''}"})
                elif canon(r[1]) != want[1]:
                    bad.append({"text": t, "problem": f"{variant}: aw_query returned {json.dumps(canon(r[1]), default=str)[:160]}, the text denotes {json.dumps(want[1], default=str)[:160]}"})
                else:
                    agree += 1
            else:
                # the reference itself fails (a built-in rejects its arguments): only "aw_query also fails" is checked
                if r[0] == "value":
                    bad.append({"text": t, "problem": f"{variant}: reference evaluation raises {want[1]} but aw_query returned a value"})
        if len(bad) >= 6:
            break
    return bad, agree


def main():
    with open(sys.argv[1]) as f:
        spec = json.load(f)
    out = {"status": "ok", "violations": []}
    try:
        if spec.get("replay_text") is not None:
            # one text: run it, report what happens (c17: exception family / termination; c11: against the reference)
            text = spec["replay_text"]
            r = run_query(text, make_ds())
            bad = []
            if r[0] == "timeout":
                bad.append({"text": text, "problem": "did not terminate within 2 s"})
            elif r[0] == "raise" and classify(r[1], r[2]) == "escape":
                bad.append({"text": text, "problem": f"{type(r[1]).__name__}: {r[1]} escaped"})
            if spec["mode"] == "c11":
                try:
                    want = ("value", canon(ref_eval(text, make_ds())))
                except Exception as e:
                    want = ("raise", type(e).__name__)
                if want[0] == "value" and (r[0] != "value" or canon(r[1]) != want[1]):
                    bad.append({"text": text, "problem": f"aw_query: {r[0]} {str(r[1])[:160]}; the text denotes {json.dumps(want[1], default=str)[:160]}"})
            out["runs"] = 1
            out["observed"] = [r[0], str(r[1])[:300]]
        elif spec["mode"] == "c17":
            bad, stats = c17(spec.get("seed", 0), spec.get("n", 3000))
            out["stats"] = stats
            out["runs"] = sum(stats.values()) + len(bad)
        else:
            bad, agree = c11(spec.get("seed", 0), spec.get("n", 400))
            out["runs"] = agree + len(bad)
        out["violations"] = bad
    except Exception:
        out["status"] = "error"
        out["why"] = traceback.format_exc()[-2000:]
    json.dump(out, sys.stdout, default=str)


if __name__ == "__main__":
    main()
