"""sqlite3 connection / cursor objects and the specification vocabulary over table states (mix-in of Executor)."""
from __future__ import annotations
import ast
import z3
from . import sqlsem
from .sqlsem import CONN, DB, Query
from .engine import *  # noqa
from .engine import Val, Unsupported, EngineError, fresh, fresh_fn, I, B, S, R, opt, NONE_VAL
from .api import CLASSDEFS

CUR = "sqlite3.Cursor"


class SqliteMixin:
    # -- schema ------------------------------------------------------------------------------------------------
    def sql_schema(self):
        if getattr(self, "_sql_schema", None) is None:
            mod = self.world.module("aw_datastore.storages.sqlite")
            sch = {}
            for name, node in mod.constants.items():
                if isinstance(node, ast.Constant) and isinstance(node.value, str) and "CREATE TABLE" in node.value.upper():
                    t, cols = sqlsem.parse_schema(node.value)
                    sch[t] = cols
            if set(sch) != {"buckets", "events"}:
                raise Unsupported(f"CREATE TABLE statements of the sqlite storage not found (got {sorted(sch)})")
            self._sql_schema = sch
        return self._sql_schema

    def x_sqlite3_connect(self, args, kw, st, node):
        """sqlite3.connect(path): a new connection object.  What the file holds is unknown, but it is a database of this
        schema: its rows satisfy the constraints SQLite enforces (A-DBFILE: db_inv), and a new connection has no open
        transaction (nothing pending)."""
        self.trusted_used.add("A-DBFILE: the database file opened by sqlite3.connect satisfies the schema's constraints (unique bucket ids, "
                              "events reference existing buckets, row ids below the AUTOINCREMENT marks); a new connection has no open transaction")
        ref = st.new_ref()
        conn = Val(ObjT(CONN), ref)
        db = self.db(st, conn)
        for key, srt in self.sqlite_keys():
            st.write(key, srt, ref, fresh("db0_" + key.rsplit(".", 1)[-1], srt))
        db.set_scalar("committed", db.scalar("issued"))
        inv = self.x_bi_db_inv([conn], {}, st, node)
        st.assume(inv.t)
        return conn

    def x_os_path_exists(self, args, kw, st, node):
        return Val(BOOL, fresh("path_exists", B))           # the file system is not modelled: either answer

    def x_os_path_join(self, args, kw, st, node):
        return Val(STR, fresh("path", S))

    def sqlite_keys(self):
        """Every heap field of a modelled connection object: (key, element sort)."""
        sch = self.sql_schema()
        probe = DB(self, None, None, sch)
        out = []
        for table, cols in sch.items():
            pk = probe.pk(table)
            for c in cols:
                if c != pk:
                    out.append((f"{CONN}.{table}.{c}", z3.ArraySort(I, probe.colsort(table, c))))
            out.append((f"{CONN}.{table}.live", z3.ArraySort(I, B)))
            out.append((f"{CONN}.{table}.max", I))
        for name in ("issued", "committed", "ncommits"):
            out.append((f"{CONN}.{name}", I))
        return out

    def db(self, st, conn):
        return DB(self, st, conn.t if isinstance(conn, Val) else conn, self.sql_schema())

    def conn_of(self, storage, st):
        """self.conn of a SqliteStorage value."""
        return Val(ObjT(CONN), st.read("aw_datastore.storages.sqlite.SqliteStorage.conn", I, storage.t))

    # -- statements ---------------------------------------------------------------------------------------------
    def sql_text(self, v):
        t = z3.simplify(v.t)
        if not z3.is_string_value(t):
            raise Unsupported("SQL text is not a constant of the source")
        return t.as_string()

    def sql_params(self, v, st):
        if v is None:
            return []
        if v.ty.name == "Tuple":
            return list(v.t)
        if v.ty.name == "List":
            n = z3.simplify(self.list_len(v, st))
            if not z3.is_int_value(n):
                raise Unsupported("SQL parameter list of symbolic length")
            return [self.list_elem_val(v, z3.IntVal(k), st) for k in range(n.as_long())]
        raise Unsupported(f"SQL parameters of type {v.ty}")

    def ev_List_params(self, node, st):
        return None

    def sqlite_execute(self, conn, sqlv, paramsv, st, node):
        """conn.execute(sql, params) -> cursor value"""
        sql = self.sql_text(sqlv)
        stmt, nparam = sqlsem.parse(sql)
        self.trusted_used.add("T-SQLITE: SQLite implements the SQL fragment as modelled in pyvc/sqlsem.py")
        self.trusted_used.add("T-PYSQLITE: DML opens an implicit transaction that ends only at commit()")
        params = self.sql_params(paramsv, st) if paramsv is not None else []
        if stmt[0] == "ddl":
            return self.new_cursor(st, conn)
        if len(params) != nparam:
            st.raise_if(z3.BoolVal(True), "ProgrammingError", getattr(node, "lineno", None))
            return self.new_cursor(st, conn)
        db = self.db(st, conn)
        q = Query(db, params)
        k = stmt[0]
        if k == "select":
            return self.sql_select(db, q, stmt, st, conn)
        if k == "insert":
            return self.sql_insert(db, q, stmt, st, conn, node)
        if k == "update":
            return self.sql_update(db, q, stmt, st, conn)
        if k == "delete":
            return self.sql_delete(db, q, stmt, st, conn)
        raise Unsupported(k)

    def new_cursor(self, st, conn, rowcount=None, lastrowid=None, rows=None):
        ref = st.new_ref()
        st.write(CUR + ".rowcount", I, ref, rowcount if rowcount is not None else z3.IntVal(-1))
        st.write(CUR + ".lastrowid", I, ref, lastrowid if lastrowid is not None else z3.IntVal(0))
        st.write(CUR + ".conn", I, ref, conn.t)
        v = Val(ObjT(CUR), ref)
        v.x["rows"] = rows
        st.ghost = dict(st.ghost)
        st.ghost["g:cursor:" + ref.sexpr()] = rows
        return v

    def bump_issued(self, db, n):
        db.set_scalar("issued", db.scalar("issued") + n)

    def matched_enumeration(self, db, q, table, where, st, order=None, limit=None):
        """Ghost enumeration (R, n, pos) of the live rows of `table` satisfying `where`."""
        Rf = fresh_fn("sel_row", I, I)
        pos = fresh_fn("sel_pos", I, I)
        n = fresh("sel_n", I)
        j, j2, r = fresh("sj", I), fresh("sk", I), fresh("sr", I)
        P = lambda row: z3.And(db.live(table, row), q.cond(where, table, row))
        st.assume(n >= 0)
        st.assume(z3.ForAll([j], z3.Implies(z3.And(0 <= j, j < n), z3.And(P(Rf(j)), pos(Rf(j)) == j)), patterns=[Rf(j)]))
        if order:
            st.assume(z3.ForAll([j, j2], z3.Implies(z3.And(0 <= j, j < j2, j2 < n), q.order_gt(order, table, Rf(j), Rf(j2))),
                                patterns=[z3.MultiPattern(Rf(j), Rf(j2))]))
        inres = lambda row: z3.And(0 <= pos(row), pos(row) < n, Rf(pos(row)) == row)
        if limit is None:
            st.assume(z3.ForAll([r], z3.Implies(P(r), inres(r)), patterns=[db.live(table, r)]))
        else:
            # LIMIT L: negative = no limit; otherwise the first L rows in the order
            L = limit
            st.assume(z3.Implies(L >= 0, n <= L))
            omitted_ok = z3.And(L >= 0, n == L, z3.ForAll([j], z3.Implies(z3.And(0 <= j, j < n), q.order_gt(order, table, Rf(j), r)))) \
                if order else z3.And(L >= 0, n == L)
            st.assume(z3.ForAll([r], z3.Implies(P(r), z3.Or(inres(r), omitted_ok)), patterns=[db.live(table, r)]))
        return Rf, n, pos

    def sql_select(self, db, q, stmt, st, conn):
        _, cols, agg, table, alias, where, order, limit = stmt
        lim = None
        if limit is not None:
            lv, ln = q.value(limit, table, None, want_sort=I)
            lim = lv
        if agg and agg[0] == "count":
            Rf, n, pos = self.matched_enumeration(db, q, table, where, st)
            rowty = TupleT([INT])
            items = self.def_array(st, z3.Int("j!cnt"), to_sort_term(Val(rowty, [Val(INT, n)]), rowty))
            rows = self.new_list(rowty, st, z3.IntVal(1), items)
            rows.x["count_of"] = (Rf, n, pos)
            return self.new_cursor(st, conn, rows=rows)
        if agg:
            raise Unsupported("SQL aggregate " + agg[0])
        Rf, n, pos = self.matched_enumeration(db, q, table, where, st, order=order, limit=lim)
        tys = []
        for c in cols:
            srt = db.colsort(table, c)
            tys.append(INT if srt == I else FLOAT if srt == R else STR if srt == S else OptT(STR))
        rowty = TupleT(tys)
        j = z3.Int("j!row")
        comps = [Val(t, db.col(table, c, Rf(j))) for c, t in zip(cols, tys)]
        items = self.def_array(st, j, to_sort_term(Val(rowty, comps), rowty), also=[Rf(j)])
        rows = self.new_list(rowty, st, n, items)
        rows.x["enum"] = (Rf, n, pos, table)
        return self.new_cursor(st, conn, rows=rows)

    def sql_insert(self, db, q, stmt, st, conn, node, bulk=None):
        _, table, cols, vals = stmt
        line = getattr(node, "lineno", None)
        sch = db.schema[table]
        newid = db.scalar(table + ".max") + 1            # AUTOINCREMENT: above every id ever used
        r = fresh("ins_r", I)
        # constraints are checked before anything is written (a failing INSERT changes nothing)
        computed = []
        for c, e in zip(cols, vals):
            srt = db.colsort(table, c)
            want = S if srt == opt(S).sort else srt
            t, isnull = q.value(e, table, None, want_sort=want)
            if sch[c]["notnull"]:
                st.raise_if(isnull, "IntegrityError", line)
            if sch[c]["unique"] and not sch[c]["pk"]:
                st.raise_if(z3.Exists([r], z3.And(db.live(table, r), db.col(table, c, r) == t)), "IntegrityError", line)
            if srt == opt(S).sort:
                t = z3.If(isnull, opt(S).none, opt(S).some(t))
            elif t.sort() != srt:
                t = z3.ToReal(t) if srt == R else t
            computed.append((c, t))
        for c, info in sch.items():
            if c not in cols and not info["pk"] and info["notnull"]:
                st.raise_if(z3.BoolVal(True), "IntegrityError", line)
        for c, t in computed:
            db.set_arr(table, c, z3.Store(db.arr(table, c), newid, t))
        db.set_arr(table, "live", z3.Store(db.arr(table, "live"), newid, z3.BoolVal(True)))
        db.set_scalar(table + ".max", newid)
        self.bump_issued(db, 1)
        return self.new_cursor(st, conn, rowcount=z3.IntVal(1), lastrowid=newid)

    def sql_update(self, db, q, stmt, st, conn):
        _, table, sets, where = stmt
        r = z3.Int("r!upd")
        hit = z3.And(db.live(table, r), q.cond(where, table, r))
        news = []
        for c, e in sets:
            srt = db.colsort(table, c)
            want = S if srt == opt(S).sort else srt
            t, isnull = q.value(e, table, r, want_sort=want)
            if db.schema[table][c]["notnull"]:
                # NOT NULL violated only if some row is actually updated
                st.raise_if(z3.And(isnull, z3.Exists([r], hit)), "IntegrityError")
            if srt == opt(S).sort:
                t = z3.If(isnull, opt(S).none, opt(S).some(t))
            elif t.sort() != srt and srt == R:
                t = z3.ToReal(t)
            news.append((c, t))
        Rf, n, pos = self.matched_enumeration(db, q, table, where, st)
        for c, t in news:
            old = db.arr(table, c)
            db.set_arr(table, c, self.def_array(st, r, z3.If(hit, t, z3.Select(old, r))))
        self.bump_issued(db, n)
        return self.new_cursor(st, conn, rowcount=n)

    def sql_delete(self, db, q, stmt, st, conn):
        _, table, where = stmt
        r = z3.Int("r!del")
        hit = z3.And(db.live(table, r), q.cond(where, table, r))
        Rf, n, pos = self.matched_enumeration(db, q, table, where, st)
        old = db.arr(table, "live")
        db.set_arr(table, "live", self.def_array(st, r, z3.And(z3.Select(old, r), z3.Not(hit))))
        self.bump_issued(db, n)
        return self.new_cursor(st, conn, rowcount=n)

    # -- Python API -----------------------------------------------------------------------------------------------
    def sqlite_method(self, recv, name, args, kw, st, node):
        cls = recv.ty.args[0]
        if cls == CONN:
            if name == "execute":
                return self.sqlite_execute(recv, args[0], args[1] if len(args) > 1 else None, st, node)
            if name == "executemany":
                return self.sqlite_executemany(recv, args[0], args[1], st, node)
            if name == "commit":
                db = self.db(st, recv)
                db.set_scalar("committed", db.scalar("issued"))
                db.set_scalar("ncommits", db.scalar("ncommits") + 1)
                return NONE_VAL
            if name == "rollback":
                # back to the state of the last commit, which the model does not keep: every table cell of this connection
                # becomes unknown, and nothing is pending any more
                db = self.db(st, recv)
                for key, srt in self.sqlite_keys():
                    if key.rsplit(".", 1)[-1] in ("issued", "committed", "ncommits"):
                        continue
                    st.write(key, srt, db.c, fresh("rb_" + key.rsplit(".", 1)[-1], srt))
                db.set_scalar("issued", db.scalar("committed"))
                return NONE_VAL
            if name == "cursor":
                return self.new_cursor(st, recv)
            if name == "close":
                return NONE_VAL
        if cls == CUR:
            conn = Val(ObjT(CONN), st.read(CUR + ".conn", I, recv.t))
            if name == "execute":
                cur = self.sqlite_execute(conn, args[0], args[1] if len(args) > 1 else None, st, node)
                # the cursor object itself now carries the result
                st.write(CUR + ".rowcount", I, recv.t, st.read(CUR + ".rowcount", I, cur.t))
                st.write(CUR + ".lastrowid", I, recv.t, st.read(CUR + ".lastrowid", I, cur.t))
                st.ghost = dict(st.ghost)
                st.ghost["g:cursor:" + recv.t.sexpr()] = cur.x.get("rows")
                out = Val(recv.ty, recv.t)
                out.x["rows"] = cur.x.get("rows")
                return out
            if name == "fetchone":
                rows = recv.x.get("rows") or st.ghost.get("g:cursor:" + recv.t.sexpr())
                if rows is None:
                    raise Unsupported("fetchone on a cursor without a result")
                n = self.list_len(rows, st)
                first = self.list_elem_val(rows, z3.IntVal(0), st)
                oty = OptT(rows.ty.args[0])
                none = to_sort_term(NONE_VAL, oty) if False else None
                # Optional tuple: represented as (n > 0, tuple)
                v = Val(rows.ty.args[0], first.t)
                v.x["maybe_none"] = n <= 0
                return Val(Ty("OptTuple", (rows.ty.args[0],)), (n <= 0, first))
        return None

    def sqlite_executemany(self, conn, sqlv, rowsv, st, node):
        """conn.executemany(insert, rows): |rows| rows with consecutive new ids, in order."""
        sql = self.sql_text(sqlv)
        stmt, nparam = sqlsem.parse(sql)
        if stmt[0] != "insert":
            raise Unsupported("executemany of a non-INSERT")
        if rowsv.ty.name != "List":
            raise Unsupported("executemany rows")
        db = self.db(st, conn)
        _, table, cols, vals = stmt
        n = self.list_len(rowsv, st)
        if rowsv.ty.args[0] is None:
            return self.new_cursor(st, conn)
        rowty = rowsv.ty.args[0]
        if rowty.name != "Tuple" or len(rowty.args) != nparam:
            raise Unsupported("executemany row shape")
        base = db.scalar(table + ".max")
        r = z3.Int("r!many")
        inrange = z3.And(r > base, r <= base + n)
        row = self.list_elem_val(rowsv, r - base - 1, st)
        q = Query(db, list(row.t), row_var=r)
        line = getattr(node, "lineno", None)
        sch = db.schema[table]
        jq = fresh("mq", I)
        for c, e in zip(cols, vals):
            srt = db.colsort(table, c)
            want = S if srt == opt(S).sort else srt
            t, isnull = q.value(e, table, None, want_sort=want)
            if sch[c]["notnull"]:
                st.raise_if(z3.Exists([r], z3.And(inrange, isnull)), "IntegrityError", line)
            if sch[c]["unique"] and not sch[c]["pk"]:
                raise Unsupported("bulk insert into a UNIQUE column")
            if srt == opt(S).sort:
                t = z3.If(isnull, opt(S).none, opt(S).some(t))
            elif t.sort() != srt and srt == R:
                t = z3.ToReal(t)
            old = db.arr(table, c)
            db.set_arr(table, c, self.def_array(st, r, z3.If(inrange, t, z3.Select(old, r))))
        oldl = db.arr(table, "live")
        db.set_arr(table, "live", self.def_array(st, r, z3.Or(z3.Select(oldl, r), inrange)))
        st.assume(n >= 0)
        db.set_scalar(table + ".max", base + n)
        self.bump_issued(db, n)
        return self.new_cursor(st, conn, rowcount=n)

    # -- specification vocabulary over the table state of a SqliteStorage -------------------------------------
    def _rid(self, v):
        """row id argument of a specification function (an Optional[int] id is read through)"""
        if v.ty.name == "Opt":
            return self._inner(v).t
        if v.ty != INT:
            raise Unsupported(f"row id of type {v.ty}")
        return v.t

    def _sdb(self, args, st):
        storage = args[0]
        if storage.ty.name == "Obj" and storage.ty.args[0] == CONN:
            return self.db(st, storage)
        return self.db(st, self.conn_of(storage, st))

    def x_bi_ev_live(self, args, kw, st, node):
        return Val(BOOL, self._sdb(args, st).live("events", self._rid(args[1])))

    def x_bi_ev_bucketrow(self, args, kw, st, node):
        return Val(INT, self._sdb(args, st).col("events", "bucketrow", self._rid(args[1])))

    def x_bi_ev_bucket(self, args, kw, st, node):
        db = self._sdb(args, st)
        return Val(STR, db.col("buckets", "id", db.col("events", "bucketrow", self._rid(args[1]))))

    def x_bi_ev_start(self, args, kw, st, node):
        return Val(FLOAT, self._sdb(args, st).col("events", "starttime", self._rid(args[1])))

    def x_bi_ev_end(self, args, kw, st, node):
        return Val(FLOAT, self._sdb(args, st).col("events", "endtime", self._rid(args[1])))

    def x_bi_ev_data(self, args, kw, st, node):
        return Val(STR, self._sdb(args, st).col("events", "datastr", self._rid(args[1])))

    def x_bi_ev_row(self, args, kw, st, node):
        db = self._sdb(args, st)
        i = self._rid(args[1])
        items = [Val(BOOL, db.live("events", i)), Val(INT, db.col("events", "bucketrow", i)), Val(FLOAT, db.col("events", "starttime", i)),
                 Val(FLOAT, db.col("events", "endtime", i)), Val(STR, db.col("events", "datastr", i))]
        return Val(TupleT([x.ty for x in items]), items)

    def x_bi_bk_live(self, args, kw, st, node):
        return Val(BOOL, self._sdb(args, st).live("buckets", self._rid(args[1])))

    def x_bi_bk_id(self, args, kw, st, node):
        return Val(STR, self._sdb(args, st).col("buckets", "id", self._rid(args[1])))

    def x_bi_bk_row(self, args, kw, st, node):
        db = self._sdb(args, st)
        r = self._rid(args[1])
        items = [Val(BOOL, db.live("buckets", r))]
        for c in db.schema["buckets"]:
            if db.schema["buckets"][c]["pk"]:
                continue
            srt = db.colsort("buckets", c)
            items.append(Val(STR if srt == S else OptT(STR) if srt == opt(S).sort else INT, db.col("buckets", c, r)))
        return Val(TupleT([x.ty for x in items]), items)

    def x_bi_bk_col(self, args, kw, st, node):
        db = self._sdb(args, st)
        c = args[2].t.as_string()
        srt = db.colsort("buckets", c)
        return Val(STR if srt == S else OptT(STR), db.col("buckets", c, self._rid(args[1])))

    def x_bi_bucket_exists(self, args, kw, st, node):
        db = self._sdb(args, st)
        r = fresh("be_r", I)
        return Val(BOOL, z3.Exists([r], z3.And(db.live("buckets", r), db.col("buckets", "id", r) == args[1].t)))

    def x_bi_bk_max(self, args, kw, st, node):
        return Val(INT, self._sdb(args, st).scalar("buckets.max"))

    def x_bi_ev_max(self, args, kw, st, node):
        return Val(INT, self._sdb(args, st).scalar("events.max"))

    def x_bi_pending(self, args, kw, st, node):
        db = self._sdb(args, st)
        return Val(INT, db.scalar("issued") - db.scalar("committed"))

    def x_bi_issued(self, args, kw, st, node):
        return Val(INT, self._sdb(args, st).scalar("issued"))

    def x_bi_ncommits(self, args, kw, st, node):
        return Val(INT, self._sdb(args, st).scalar("ncommits"))

    def x_bi_db_inv(self, args, kw, st, node):
        """Representation invariant of the database: bucket ids unique among live bucket rows; every live event
        belongs to a live bucket row; row ids lie below the AUTOINCREMENT high-water marks; issued >= committed."""
        db = self._sdb(args, st)
        r1, r2, i = fresh("iv_r", I), fresh("iv_s", I), fresh("iv_i", I)
        bl = lambda r: db.live("buckets", r)
        inv = [
            z3.ForAll([r1, r2], z3.Implies(z3.And(bl(r1), bl(r2), db.col("buckets", "id", r1) == db.col("buckets", "id", r2)), r1 == r2),
                      patterns=[z3.MultiPattern(bl(r1), bl(r2))]),
            z3.ForAll([i], z3.Implies(db.live("events", i), z3.And(bl(db.col("events", "bucketrow", i)), i > 0, i <= db.scalar("events.max"))),
                      patterns=[db.live("events", i)]),
            z3.ForAll([r1], z3.Implies(bl(r1), z3.And(r1 > 0, r1 <= db.scalar("buckets.max"))), patterns=[bl(r1)]),
            db.scalar("issued") >= db.scalar("committed"), db.scalar("events.max") >= 0, db.scalar("buckets.max") >= 0,
        ]
        return Val(BOOL, z3.And(*inv))
