"""Relational semantics of the SQL fragment used by aw_datastore/storages/sqlite.py (DESIGN section 4).

The SQL text is taken from the AST of the real source (string constants and their concatenations), parsed here and
translated to operations on table states held as heap fields of the connection object:

    <table>.live : rowid -> Bool          one array per column : rowid -> value          <table>.max : largest rowid ever used

UPDATE / DELETE are pointwise array updates over {r | live r and p r} - every other row is *unchanged by construction*
(the frame is part of the semantics).  SELECT yields a ghost enumeration of the matching rows (ordered / limited as
written); count(*) is the length of such an enumeration; a scalar subquery is a choice among the matching rows
(NULL when there is none).  The table layout (columns, NOT NULL, UNIQUE, AUTOINCREMENT) is read from the CREATE TABLE
statements of the same source file.  Anything outside the fragment raises Unsupported (the function is then not proved).

Trusted base: T-SQLITE (SQLite implements this fragment as described), T-PYSQLITE (implicit transactions: DML opens a
transaction that ends only at commit()).
"""
from __future__ import annotations
import re
import z3
from .engine import *  # noqa
from .engine import Val, Unsupported, fresh, fresh_fn, I, B, S, R, opt

CONN = "sqlite3.Connection"

# ---------------------------------------------------------------------------------------------------------
# lexer / parser
# ---------------------------------------------------------------------------------------------------------
TOK = re.compile(r"\s*(?:(>=|<=|<>|!=|[(),=*?<>.;])|([A-Za-z_][A-Za-z_0-9]*)|(\d+)|('(?:[^'])*'))")
KEYWORDS = {"select", "from", "where", "and", "or", "order", "by", "desc", "asc", "limit", "insert", "into", "values", "update",
            "set", "delete", "in", "count", "max", "create", "table", "index", "if", "not", "exists", "pragma", "null", "on"}


def tokenize(sql):
    out = []
    pos = 0
    sql = sql.strip()
    while pos < len(sql):
        m = TOK.match(sql, pos)
        if not m:
            raise Unsupported(f"SQL text not understood at: {sql[pos:pos + 30]!r}")
        pos = m.end()
        if m.group(1):
            out.append(("op", m.group(1)))
        elif m.group(2):
            w = m.group(2)
            out.append(("kw", w.lower()) if w.lower() in KEYWORDS else ("id", w))
        elif m.group(3):
            out.append(("num", int(m.group(3))))
        else:
            out.append(("str", m.group(4)[1:-1]))
    return out


class P:
    def __init__(self, toks):
        self.t = toks
        self.i = 0
        self.nparam = 0

    def peek(self, k=0):
        return self.t[self.i + k] if self.i + k < len(self.t) else ("eof", None)

    def eat(self, kind=None, val=None):
        tk = self.peek()
        if (kind and tk[0] != kind) or (val is not None and tk[1] != val):
            raise Unsupported(f"SQL: expected {val or kind}, got {tk}")
        self.i += 1
        return tk

    def at(self, kind, val=None):
        tk = self.peek()
        return tk[0] == kind and (val is None or tk[1] == val)

    # statements ------------------------------------------------------------------------------------
    def statement(self):
        if self.at("kw", "select"):
            s = self.select()
        elif self.at("kw", "insert"):
            s = self.insert()
        elif self.at("kw", "update"):
            s = self.update()
        elif self.at("kw", "delete"):
            s = self.delete()
        elif self.at("kw", "create") or self.at("kw", "pragma"):
            return ("ddl",)
        else:
            raise Unsupported(f"SQL statement {self.peek()}")
        if self.at("op", ";"):
            self.eat()
        if not self.at("eof"):
            raise Unsupported(f"SQL: trailing tokens {self.t[self.i:self.i + 4]}")
        return s

    def select(self):
        self.eat("kw", "select")
        cols = []
        agg = None
        if self.at("kw", "count"):
            self.eat()
            self.eat("op", "(")
            self.eat("op", "*")
            self.eat("op", ")")
            agg = ("count",)
        elif self.at("kw", "max"):
            self.eat()
            self.eat("op", "(")
            agg = ("max", self.colref())
            self.eat("op", ")")
        else:
            cols.append(self.colref())
            while self.at("op", ","):
                self.eat()
                cols.append(self.colref())
        self.eat("kw", "from")
        table = self.eat("id")[1]
        alias = None
        if self.at("id"):
            alias = self.eat("id")[1]
        where = None
        if self.at("kw", "where"):
            self.eat()
            where = self.cond()
        order = []
        if self.at("kw", "order"):
            self.eat()
            self.eat("kw", "by")
            while True:
                c = self.colref()
                d = "asc"
                if self.at("kw", "desc") or self.at("kw", "asc"):
                    d = self.eat()[1]
                order.append((c, d))
                if self.at("op", ","):
                    self.eat()
                    continue
                break
        limit = None
        if self.at("kw", "limit"):
            self.eat()
            limit = self.value()
        return ("select", cols, agg, table, alias, where, order, limit)

    def colref(self):
        a = self.eat("id")[1]
        if self.at("op", "."):
            self.eat()
            return self.eat("id")[1]
        return a

    def value(self):
        if self.at("op", "?"):
            self.eat()
            self.nparam += 1
            return ("param", self.nparam - 1)
        if self.at("num"):
            return ("num", self.eat()[1])
        if self.at("str"):
            return ("str", self.eat()[1])
        if self.at("op", "("):
            self.eat()
            if self.at("kw", "select"):
                s = self.select()
                self.eat("op", ")")
                return ("subq", s)
            v = self.value()
            self.eat("op", ")")
            return v
        if self.at("id"):
            return ("col", self.colref())
        raise Unsupported(f"SQL value {self.peek()}")

    def cond(self):
        c = self.atom()
        while self.at("kw", "and"):
            self.eat()
            c = ("and", c, self.atom())
        return c

    def atom(self):
        left = self.value()
        if self.at("kw", "in"):
            self.eat()
            self.eat("op", "(")
            s = self.select()
            self.eat("op", ")")
            return ("in", left, s)
        op = self.eat("op")[1]
        if op not in ("=", ">=", "<=", "<", ">"):
            raise Unsupported(f"SQL operator {op}")
        return ("cmp", op, left, self.value())

    def insert(self):
        self.eat("kw", "insert")
        self.eat("kw", "into")
        table = self.eat("id")[1]
        self.eat("op", "(")
        cols = [self.eat("id")[1]]
        while self.at("op", ","):
            self.eat()
            cols.append(self.eat("id")[1])
        self.eat("op", ")")
        self.eat("kw", "values")
        self.eat("op", "(")
        vals = [self.value()]
        while self.at("op", ","):
            self.eat()
            vals.append(self.value())
        self.eat("op", ")")
        if len(cols) != len(vals):
            raise Unsupported("SQL insert arity")
        return ("insert", table, cols, vals)

    def update(self):
        self.eat("kw", "update")
        table = self.eat("id")[1]
        self.eat("kw", "set")
        sets = []
        while True:
            c = self.eat("id")[1]
            self.eat("op", "=")
            sets.append((c, self.value()))
            if self.at("op", ","):
                self.eat()
                continue
            break
        where = None
        if self.at("kw", "where"):
            self.eat()
            where = self.cond()
        return ("update", table, sets, where)

    def delete(self):
        self.eat("kw", "delete")
        self.eat("kw", "from")
        table = self.eat("id")[1]
        where = None
        if self.at("kw", "where"):
            self.eat()
            where = self.cond()
        return ("delete", table, where)


def parse(sql):
    p = P(tokenize(sql))
    return p.statement(), p.nparam


def parse_schema(create_sql):
    """CREATE TABLE text -> (name, {col: dict(type, notnull, unique, pk, autoinc)})"""
    m = re.search(r"CREATE\s+TABLE\s+(?:IF\s+NOT\s+EXISTS\s+)?(\w+)\s*\((.*)\)\s*$", create_sql.strip(), re.S | re.I)
    if not m:
        raise Unsupported("CREATE TABLE text not understood")
    name, body = m.group(1), m.group(2)
    cols = {}
    depth = 0
    cur = ""
    parts = []
    for ch in body:
        if ch == "(":
            depth += 1
        if ch == ")":
            depth -= 1
        if ch == "," and depth == 0:
            parts.append(cur)
            cur = ""
        else:
            cur += ch
    parts.append(cur)
    for part in parts:
        w = part.split()
        if not w or w[0].upper() in ("FOREIGN", "PRIMARY", "UNIQUE", "CHECK", "CONSTRAINT"):
            continue
        up = part.upper()
        cols[w[0]] = {"type": w[1].upper() if len(w) > 1 else "", "notnull": "NOT NULL" in up or "PRIMARY KEY" in up,
                      "unique": "UNIQUE" in up or "PRIMARY KEY" in up, "pk": "PRIMARY KEY" in up, "autoinc": "AUTOINCREMENT" in up}
    return name, cols


# ---------------------------------------------------------------------------------------------------------
# table state
# ---------------------------------------------------------------------------------------------------------
class DB:
    """View of the tables of one connection inside a State."""

    def __init__(self, ex, st, conn_ref, schema):
        self.ex = ex
        self.st = st
        self.c = conn_ref
        self.schema = schema

    def colsort(self, table, col):
        if col in ("rowid",) and col not in self.schema[table]:
            return I
        info = self.schema[table][col]
        t = info["type"]
        if col in ("starttime", "endtime"):
            return R                      # floats are stored there (INTEGER affinity keeps integral REALs integral)
        if t == "INTEGER":
            return I
        return S if info["notnull"] else opt(S).sort

    def pk(self, table):
        for c, info in self.schema[table].items():
            if info["pk"]:
                return c
        return "rowid"

    def arr(self, table, col):
        key = f"{CONN}.{table}.{col}"
        if col == "live":
            return self.st.read(key, z3.ArraySort(I, B), self.c)
        return self.st.read(key, z3.ArraySort(I, self.colsort(table, col)), self.c)

    def set_arr(self, table, col, arr):
        key = f"{CONN}.{table}.{col}"
        srt = z3.ArraySort(I, B) if col == "live" else z3.ArraySort(I, self.colsort(table, col))
        self.st.write(key, srt, self.c, arr)
        if self.ex.write_log is not None:
            self.ex.write_log.add(key)

    def scalar(self, name):
        return self.st.read(f"{CONN}.{name}", I, self.c)

    def set_scalar(self, name, v):
        self.st.write(f"{CONN}.{name}", I, self.c, v)

    def col(self, table, col, r):
        pk = self.pk(table)
        if col == pk or col == "rowid":
            return r
        return z3.Select(self.arr(table, col), r)

    def live(self, table, r):
        return z3.Select(self.arr(table, "live"), r)


class Query:
    """Evaluation of one statement against a DB with bound parameters."""

    def __init__(self, db, params, row_var=None):
        self.db = db
        self.params = params          # list of Val
        self.ex = db.ex
        self.st = db.st
        self.row_var = row_var        # bulk statements: the parameters are functions of this row index

    def pval(self, k, want_sort):
        v = self.params[k]
        return sql_value(self.ex, self.st, v, want_sort)

    # value of an expression at row r of table (None row for parameter-only contexts) -> (term, isnull Bool)
    def value(self, e, table, r, want_sort=None):
        k = e[0]
        if k == "param":
            return self.pval(e[1], want_sort)
        if k == "num":
            return (z3.IntVal(e[1]) if want_sort != R else z3.RealVal(e[1])), z3.BoolVal(False)
        if k == "str":
            return z3.StringVal(e[1]), z3.BoolVal(False)
        if k == "col":
            srt = self.db.colsort(table, e[1])
            t = self.db.col(table, e[1], r)
            if srt == opt(S).sort:
                return opt(S).val(t), opt(S).is_none(t)
            return t, z3.BoolVal(False)
        if k == "subq":
            return self.scalar_subquery(e[1])
        raise Unsupported(f"SQL expression {k}")

    def cond(self, c, table, r):
        if c is None:
            return z3.BoolVal(True)
        if c[0] == "and":
            return z3.And(self.cond(c[1], table, r), self.cond(c[2], table, r))
        if c[0] == "cmp":
            op, l, rr = c[1], c[2], c[3]
            lsort = self.db.colsort(table, l[1]) if l[0] == "col" else None
            if lsort == opt(S).sort:
                lsort = S
            lv, ln = self.value(l, table, r)
            rv, rn = self.value(rr, table, r, want_sort=lsort if lsort is not None else lv.sort())
            if lv.sort() != rv.sort():
                if lv.sort() == R and rv.sort() == I:
                    rv = z3.ToReal(rv)
                elif lv.sort() == I and rv.sort() == R:
                    lv = z3.ToReal(lv)
                else:
                    raise Unsupported(f"SQL comparison between {lv.sort()} and {rv.sort()}")
            cmp_ = {"=": lv == rv, ">=": lv >= rv, "<=": lv <= rv, "<": lv < rv, ">": lv > rv}[op]
            return z3.And(z3.Not(ln), z3.Not(rn), cmp_)          # comparisons with NULL are not true
        if c[0] == "in":
            lv, ln = self.value(c[1], table, r)
            sub = c[2]
            _, cols, agg, t2, alias, where, order, limit = sub
            if agg or len(cols) != 1 or order or limit:
                raise Unsupported("SQL IN subquery shape")
            r2 = fresh("sq_r", I)
            body = z3.And(self.db.live(t2, r2), self.cond(where, t2, r2), self.db.col(t2, cols[0], r2) == lv)
            return z3.And(z3.Not(ln), z3.Exists([r2], body))
        raise Unsupported(f"SQL condition {c[0]}")

    def order_gt(self, order, table, a, b):
        """row a comes strictly before row b under ORDER BY (lexicographic)."""
        res = z3.BoolVal(False)
        for colname, d in reversed(order):
            ka, kb = self.db.col(table, colname, a), self.db.col(table, colname, b)
            before = (ka > kb) if d == "desc" else (ka < kb)
            res = z3.Or(before, z3.And(ka == kb, res))
        return res

    def scalar_subquery(self, sel):
        """(SELECT col FROM t WHERE p [ORDER BY .. LIMIT 1]) -> (value, isnull): a choice among the matching rows."""
        _, cols, agg, table, alias, where, order, limit = sel
        if agg:
            raise Unsupported("aggregate scalar subquery")
        if len(cols) != 1:
            raise Unsupported("scalar subquery with several columns")
        r = fresh("sq_r", I)
        if self.row_var is not None:
            # bulk statement: one choice per parameter row
            chf = z3.Function(fresh("sq_choice", I).decl().name(), I, I)
            ch = chf(self.row_var)
            qv = [self.row_var, r]
        else:
            ch = fresh("sq_choice", I)
            qv = [r]
        pr = z3.And(self.db.live(table, r), self.cond(where, table, r))
        pch = z3.And(self.db.live(table, ch), self.cond(where, table, ch))
        if order:
            # the first row in the given order (total when it ends in the primary key)
            body = z3.Implies(pr, z3.And(pch, z3.Or(r == ch, self.order_gt(order, table, ch, r))))
        else:
            body = z3.Implies(pr, pch)
        if self.row_var is not None:
            self.st.assume(z3.ForAll(qv, body, patterns=[z3.MultiPattern(ch, self.db.live(table, r))]))
        else:
            self.st.assume(z3.ForAll(qv, body))
        return self.db.col(table, cols[0], ch), z3.Not(pch)


def sql_value(ex, st, v, want_sort):
    """Python value bound to a `?` -> (term, isnull)."""
    ty = v.ty
    if ty == NONE:
        dummy = {S: z3.StringVal(""), I: z3.IntVal(0), R: z3.RealVal(0)}.get(want_sort, z3.IntVal(0))
        return dummy, z3.BoolVal(True)
    if ty.name == "Opt":
        inner = ex._inner(v)
        t, _ = sql_value(ex, st, inner, want_sort)
        return t, ex.is_none(v, st)
    if ty == STR:
        return v.t, z3.BoolVal(False)
    if ty == INT:
        return (z3.ToReal(v.t) if want_sort == R else v.t), z3.BoolVal(False)
    if ty == FLOAT:
        return v.t, z3.BoolVal(False)
    if ty == BOOL:
        return z3.If(v.t, 1, 0), z3.BoolVal(False)
    raise Unsupported(f"SQL parameter of type {ty}")
