"""Loops: cut by invariants (deductive) or unrolled (bounded mode).  Mix-in of Executor."""
from __future__ import annotations
import ast
import z3

from . import front
from .api import CONTRACTS
from .engine import *  # noqa
from .engine import Val, Unsupported, EngineError, fresh, I, B, S, R, NONE_VAL


def assigned_names(stmts):
    out = set()
    for s in stmts:
        for n in ast.walk(s):
            if isinstance(n, ast.Name) and isinstance(n.ctx, (ast.Store, ast.Del)):
                out.add(n.id)
    return out


class IterDesc:
    """Abstract iteration protocol: length(state) and element(state, k)."""

    def __init__(self, length, elem):
        self.length = length
        self.elem = elem


class LoopMixin:
    def loop_ordinal(self, fi, node):
        key = fi.qualname
        if key not in self.loop_ord_cache:
            self.loop_ord_cache[key] = {id(n): i for i, n in enumerate(front.loop_nodes(fi.node))}
        return self.loop_ord_cache[key].get(id(node))

    def loop_contract(self, st, node):
        fi = st.frame
        c = self.contract_of(fi.qualname)
        if c is None:
            return None, None
        o = self.loop_ordinal(fi, node)
        lc = c["loops"].get(o)
        return lc, o

    # -- iteration descriptors -----------------------------------------------------------------
    def iter_desc(self, it_node, st):
        """-> IterDesc for the iterable expression (evaluated once, now)."""
        if isinstance(it_node, ast.Call) and isinstance(it_node.func, ast.Name):
            fn = it_node.func.id
            if fn == "range" and fn not in st.env:
                ra = [self.eval(a, st) for a in it_node.args]
                if len(ra) == 1:
                    lo, hi = z3.IntVal(0), ra[0].t
                elif len(ra) == 2:
                    lo, hi = ra[0].t, ra[1].t
                else:
                    raise Unsupported("range with step")
                return IterDesc(lambda s: z3.If(hi > lo, hi - lo, 0), lambda s, k: Val(INT, lo + k))
            if fn == "zip" and fn not in st.env:
                subs = [self.iter_desc(a, st) for a in it_node.args]

                def length(s, subs=subs):
                    n = subs[0].length(s)
                    for d in subs[1:]:
                        m = d.length(s)
                        n = z3.If(m < n, m, n)
                    return n

                def elem(s, k, subs=subs):
                    items = [d.elem(s, k) for d in subs]
                    return Val(TupleT([x.ty for x in items]), items)
                return IterDesc(length, elem)
            if fn == "enumerate" and fn not in st.env:
                sub = self.iter_desc(it_node.args[0], st)

                def elem(s, k, sub=sub):
                    x = sub.elem(s, k)
                    return Val(TupleT([INT, x.ty]), [Val(INT, k), x])
                return IterDesc(sub.length, elem)
        v = self.eval(it_node, st)
        return self.iter_desc_val(v, st)

    def iter_desc_val(self, v, st):
        if v.ty.name == "List":
            if v.ty.args[0] is None:
                return IterDesc(lambda s: z3.IntVal(0), lambda s, k: NONE_VAL)
            return IterDesc(lambda s: self.list_len(v, s), lambda s, k: self.list_elem_val(v, k, s))
        if v.ty.name == "Tuple":
            items = v.t

            def elem(s, k):
                if z3.is_int_value(k):
                    return items[k.as_long()]
                res = items[-1]
                for i in range(len(items) - 2, -1, -1):
                    res = self.merge_vals(k == i, items[i], res)
                return res
            return IterDesc(lambda s: z3.IntVal(len(items)), elem)
        if v.ty == STR:
            return IterDesc(lambda s: z3.Length(v.t), lambda s, k: Val(STR, z3.SubString(v.t, k, 1)))
        if v.ty.name == "Dict":
            return self.dict_iter_desc(v, st)
        raise Unsupported(f"iteration over {v.ty}")

    def dict_iter_desc(self, v, st):
        """Keys of a dict in insertion order: a ghost sequence of pairwise distinct keys (A-DICT)."""
        self.used_assumptions.add("A-DICT")
        m0 = self.dict_map(v, st)
        vty = self.dict_vty(v) or JV
        os_ = opt_sort(sort_of(vty))
        n = fresh("nkeys", I)
        keyseq = fresh("keyseq", z3.ArraySort(I, S))
        pos = fresh_fn("keypos", S, I)
        k = fresh("qk", S)
        a = fresh("qa", I)
        st.assume(n >= 0)
        st.assume(z3.ForAll([a], z3.Implies(z3.And(0 <= a, a < n),
                                            z3.And(os_.is_some(z3.Select(m0, z3.Select(keyseq, a))),
                                                   pos(z3.Select(keyseq, a)) == a))))
        st.assume(z3.ForAll([k], z3.Implies(os_.is_some(z3.Select(m0, k)),
                                            z3.And(0 <= pos(k), pos(k) < n, z3.Select(keyseq, pos(k)) == k))))
        d = IterDesc(lambda s: n, lambda s, i: Val(STR, z3.Select(keyseq, i)))
        d.keyseq, d.n, d.pos = keyseq, n, pos
        return d

    # -- for -----------------------------------------------------------------------------------
    def st_For(self, node, st):
        if node.orelse:
            raise Unsupported("for-else")
        lc, o = self.loop_contract(st, node)
        desc = self.iter_desc(node.iter, st)
        pre = self.flush(st)
        if self.bounded is not None and lc is None or (lc is not None and lc.get("unroll")):
            return self.unroll_for(node, desc, st) + pre[1:]
        if lc is None:
            n = z3.simplify(desc.length(st))
            if z3.is_int_value(n) and n.as_long() <= 8:
                return self.unroll_for(node, desc, st, bound=n.as_long()) + pre[1:]
            raise Unsupported(f"loop #{o} of {st.frame.qualname} (line {node.lineno}) has no invariant")
        return self.cut_loop(node, st, lc, o, desc=desc) + pre[1:]

    def unroll_for(self, node, desc, st, bound=None):
        bound = self.bounded if bound is None else bound
        results = []
        live = [st]
        for k in range(bound + 1):
            nxt = []
            for s in live:
                n = desc.length(s)
                more = z3.simplify(z3.IntVal(k) < n)
                if z3.is_false(more):
                    results.append(s)
                    continue
                if not z3.is_true(more):
                    done = s.copy()
                    done.pc.append(z3.Not(more))
                    results.append(done)
                    s.pc.append(more)
                if k == bound:
                    # unwinding bound reached: drop the path (bounded mode is a refuter, not a proof)
                    continue
                self.assign(node.target, desc.elem(s, z3.IntVal(k)), s)
                for o in self.exec_block(node.body, s):
                    if o.status in ("run", "continue"):
                        o.status = "run"
                        nxt.append(o)
                    elif o.status == "break":
                        o.status = "run"
                        results.append(o)
                    else:
                        results.append(o)
            live = nxt
            if not live:
                break
        return results

    # -- while ---------------------------------------------------------------------------------
    def st_While(self, node, st):
        if node.orelse:
            raise Unsupported("while-else")
        lc, o = self.loop_contract(st, node)
        if self.bounded is not None and lc is None or (lc is not None and lc.get("unroll")):
            return self.unroll_while(node, st)
        if lc is None:
            raise Unsupported(f"loop #{o} of {st.frame.qualname} (line {node.lineno}) has no invariant")
        return self.cut_loop(node, st, lc, o, desc=None)

    def unroll_while(self, node, st):
        results = []
        live = [st]
        for k in range(self.bounded + 1):
            nxt = []
            for s in live:
                c = self.truth(self.eval(node.test, s), s)
                sp = self.flush(s)[1:]
                results.extend(sp)
                cs = z3.simplify(c)
                if z3.is_false(cs):
                    results.append(s)
                    continue
                if not z3.is_true(cs):
                    done = s.copy()
                    done.pc.append(z3.Not(c))
                    results.append(done)
                    s.pc.append(c)
                if k == self.bounded:
                    continue
                for o in self.exec_block(node.body, s):
                    if o.status in ("run", "continue"):
                        o.status = "run"
                        nxt.append(o)
                    elif o.status == "break":
                        o.status = "run"
                        results.append(o)
                    else:
                        results.append(o)
            live = nxt
            if not live:
                break
        return results

    # -- cutting a loop by its invariant -----------------------------------------------------------
    def cut_loop(self, node, st, lc, o, desc):
        fi = st.frame
        is_for = desc is not None
        idx = lc.get("index", f"_i{o}")
        invs = list(lc.get("invariant", []))
        tag = f"loop#{o}"
        body_names = assigned_names(node.body)
        if is_for:
            body_names |= assigned_names([ast.Expr(node.target)]) | {n.id for n in ast.walk(node.target)
                                                                     if isinstance(n, ast.Name)}
        # ghost state introduced by the loop contract
        for gname, (gty, ginit) in lc.get("ghost", {}).items():
            gv = self.eval(ast.parse(ginit, mode="eval").body, st)
            gt = parse_type(gty)
            if gv.ty.name == "List" and gv.ty.args[0] is None:
                gv = Val(gt, gv.t)
            st.env[gname] = gv

        # 1. invariant holds on entry
        if is_for:
            st.env[idx] = mk_int(0)
        for k, inv in enumerate(invs):
            self.oblige(st, f"{tag}/init#{k}", self.spec_truth(inv, st.env, st), clause=inv, site=node.lineno)

        # 2. discover what the body modifies (dry run), then havoc it
        mod_keys, allocates = self.dry_run(node, st, desc, idx, is_for)
        for extra in lc.get("modifies", []):
            mod_keys.add(extra)
        h = st.copy()
        if lc.get("ghost_update"):
            body_names |= assigned_names(self.ghost_stmts(lc))
        for name in sorted(body_names | ({idx} if is_for else set())):
            if name in h.env:
                h.env[name] = self.havoc_val(name, h.env[name], h)
            # names first assigned inside the loop stay unbound until assigned
        for key in sorted(mod_keys):
            arr = h.heap.get(key, self.init_heap.get(key))
            if arr is None:
                continue
            h.heap[key] = fresh("lh_" + key, arr.sort())
        if allocates:
            na = fresh("alloc", I)
            h.assume(na >= st.alloc)
            h.alloc = na
        # refs held in havocked locals are allocated
        for name in body_names:
            if name in h.env:
                self.assume_ref_range(h.env[name], h)
        if is_for:
            k_t = h.env[idx].t
            h.assume(k_t >= 0)
        for inv in invs:
            h.assume(self.spec_truth(inv, h.env, h))
        if is_for:
            h.assume(k_t <= desc.length(h))

        results = []
        # 3. one arbitrary iteration
        it = h.copy()
        if is_for:
            it.pc.append(k_t < desc.length(it))
            self.assign(node.target, desc.elem(it, k_t), it)
            sp = []
        else:
            c = self.truth(self.eval(node.test, it), it)
            sp = self.flush(it)[1:]
            it.pc.append(c)
        results.extend(sp)
        dec0 = None
        if lc.get("decreases"):
            dec0 = self.spec_val(lc["decreases"], it.env, it)
        body_outs = []
        for out in self.exec_block(node.body, it):
            if out.status in ("run", "continue") and lc.get("ghost_update"):
                out.status = "run"
                body_outs.extend(self.exec_block(self.ghost_stmts(lc), out))
            else:
                body_outs.append(out)
        for out in body_outs:
            if out.status in ("run", "continue"):
                out.status = "run"
                if is_for:
                    out.env[idx] = Val(INT, k_t + 1)
                for k, inv in enumerate(invs):
                    self.oblige(out, f"{tag}/preserve#{k}", self.spec_truth(inv, out.env, out), clause=inv,
                                site=node.lineno)
                if dec0 is not None:
                    dec1 = self.spec_val(lc["decreases"], out.env, out)
                    self.oblige(out, f"{tag}/decreases", z3.And(dec0.t >= 0, dec1.t < dec0.t),
                                clause=lc["decreases"], site=node.lineno)
            elif out.status == "break":
                out.status = "run"
                results.append(out)
            else:
                results.append(out)
        # 4. exit
        ex = h.copy()
        if is_for:
            ex.pc.append(k_t >= desc.length(ex))
        else:
            c = self.truth(self.eval(node.test, ex), ex)
            results.extend(self.flush(ex)[1:])
            ex.pc.append(z3.Not(c))
        results.append(ex)
        return results

    def ghost_stmts(self, lc):
        if "_ghost_ast" not in lc:
            lc["_ghost_ast"] = ast.parse("\n".join(lc["ghost_update"])).body
        return lc["_ghost_ast"]

    def havoc_val(self, name, v, st):
        ty = v.ty
        if ty == NONE or ty == FN:
            return v
        if ty.name == "Tuple":
            return Val(ty, [self.havoc_val(f"{name}_{i}", x, st) for i, x in enumerate(v.t)])
        if ty.name == "List" and ty.args[0] is None:
            raise Unsupported(f"loop-modified list {name} has unknown element type (declare it in contract locals)")
        return Val(ty, fresh("lv_" + name, sort_of(ty)), **{k: v_ for k, v_ in v.x.items() if k in ("perm", "pinv")})

    def dry_run(self, node, st, desc, idx, is_for):
        """Execute the body once with obligations off to learn which heap fields it writes."""
        s = st.copy()
        saved = (self.collect, self.write_log)
        self.collect = False
        keys = set()
        self.write_log = keys
        before = dict(s.heap)
        alloc0 = s.alloc
        allocates = False
        try:
            if is_for:
                k = fresh("dry_k", I)
                s.env[idx] = Val(INT, k)
                self.assign(node.target, desc.elem(s, k), s)
            else:
                self.eval(node.test, s)
                s.spawned = []
            outs = self.exec_block(node.body, s)
            lc_, _ = self.loop_contract(st, node)
            if lc_ and lc_.get("ghost_update"):
                outs2 = []
                for o in outs:
                    if o.status in ("run", "continue"):
                        o.status = "run"
                        outs2.extend(self.exec_block(self.ghost_stmts(lc_), o))
                    else:
                        outs2.append(o)
                outs = outs2
            for o in outs:
                for key, arr in o.heap.items():
                    if before.get(key) is not arr and not (key in before and before[key].eq(arr)):
                        keys.add(key)
                if o.alloc is not alloc0 and not o.alloc.eq(alloc0):
                    allocates = True
        finally:
            self.collect, self.write_log = saved
        if saved[1] is not None:
            saved[1].update(keys)
        return keys, allocates

    # -- generators ----------------------------------------------------------------------------
    def exec_yield(self, y, st):
        v = self.eval(y.value, st) if y.value is not None else NONE_VAL
        ys = st.env.get("__yield__")
        if ys is None:
            raise Unsupported("yield outside generator context")
        ys2 = self.with_elem(ys, v, st)
        st.env["__yield__"] = ys2
        self.list_append(ys2, v, st)
        return self.flush(st)

    def inline_generator(self, fi, env, st):
        """A generator consumed eagerly: its yields are collected into a ghost list (A-GEN)."""
        self.used_assumptions.add("A-GEN")
        c = self.contract_of(fi.qualname)
        yty = parse_type(c["returns"]).args[0] if c and c.get("returns") else None
        env = dict(env)
        env["__yield__"] = self.new_list(yty, st)
        base = st.copy()
        base.env = env
        base.frame = fi
        n0 = len(base.pc)
        self.depth += 1
        try:
            outs = self.exec_block(fi.body, base)
        finally:
            self.depth -= 1
        normal = []
        for o in outs:
            if o.status == "raise":
                o.env, o.frame = st.env, st.frame
                st.spawned.append(o)
            else:
                o.ret = o.env["__yield__"]
                normal.append(o)
        if not normal:
            st.assume(z3.BoolVal(False))
            return NONE_VAL
        self.merge_into(st, normal, n0)
        return st.ret_tmp
