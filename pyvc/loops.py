"""Loops: cut by invariants (deductive) or unrolled (bounded mode).  Mix-in of Executor."""
from __future__ import annotations
import ast
import z3

from . import front
from .api import CONTRACTS
from .engine import *  # noqa
from .engine import Val, Unsupported, EngineError, fresh, I, B, S, R, NONE_VAL


def assigned_names(stmts):
    out = set()
    for s in stmts:
        for n in ast.walk(s):
            if isinstance(n, ast.Name) and isinstance(n.ctx, (ast.Store, ast.Del)):
                out.add(n.id)
    return out


def _consts_of(t):
    """ids of the uninterpreted constants (incl. array constants) occurring in a term"""
    out, todo, seen = set(), [t], set()
    while todo:
        x = todo.pop()
        if x.get_id() in seen:
            continue
        seen.add(x.get_id())
        if z3.is_const(x) and x.decl().kind() == z3.Z3_OP_UNINTERPRETED:
            out.add(x.get_id())
        todo.extend(x.children())
    return out


def _has_symbol_since(t, watermark):
    """does the term mention a constant or function created (engine.fresh / fresh_fn: name!N) at or after `watermark`?"""
    todo, seen = [t], set()
    while todo:
        x = todo.pop()
        if x.get_id() in seen:
            continue
        seen.add(x.get_id())
        if z3.is_app(x) and x.decl().kind() == z3.Z3_OP_UNINTERPRETED:
            nm = x.decl().name()
            if "!" in nm:
                try:
                    if int(nm.rsplit("!", 1)[1]) >= watermark:
                        return True
                except ValueError:
                    pass
        todo.extend(x.children())
    return False


class IterDesc:
    """Abstract iteration protocol: length(state) and element(state, k)."""

    def __init__(self, length, elem):
        self.length = length
        self.elem = elem


class LoopMixin:
    def loop_ordinal(self, fi, node):
        key = fi.qualname
        if key not in self.loop_ord_cache:
            self.loop_ord_cache[key] = {id(n): i for i, n in enumerate(front.loop_nodes(fi.node))}
        return self.loop_ord_cache[key].get(id(node))

    def loop_contract(self, st, node):
        fi = st.frame
        c = self.contract_of(fi.qualname)
        if c is None:
            return None, None
        o = self.loop_ordinal(fi, node)
        lc = c["loops"].get(o)
        return lc, o

    # -- iteration descriptors -----------------------------------------------------------------
    def iter_desc(self, it_node, st):
        """-> IterDesc for the iterable expression (evaluated once, now)."""
        if isinstance(it_node, ast.Call) and isinstance(it_node.func, ast.Name):
            fn = it_node.func.id
            if fn == "range" and fn not in st.env:
                ra = [self.eval(a, st) for a in it_node.args]
                if len(ra) == 1:
                    lo, hi = z3.IntVal(0), ra[0].t
                elif len(ra) == 2:
                    lo, hi = ra[0].t, ra[1].t
                else:
                    raise Unsupported("range with step")
                return IterDesc(lambda s: z3.If(hi > lo, hi - lo, 0), lambda s, k: Val(INT, lo + k))
            if fn == "zip" and fn not in st.env:
                subs = [self.iter_desc(a, st) for a in it_node.args]

                def length(s, subs=subs):
                    n = subs[0].length(s)
                    for d in subs[1:]:
                        m = d.length(s)
                        n = z3.If(m < n, m, n)
                    return n

                def elem(s, k, subs=subs):
                    items = [d.elem(s, k) for d in subs]
                    return Val(TupleT([x.ty for x in items]), items)
                return IterDesc(length, elem)
            if fn == "reversed" and fn not in st.env and len(it_node.args) == 1:
                sub = self.iter_desc(it_node.args[0], st)
                # position k of the reversed sequence is position rev(k) = n-1-k of the sequence; rev is its own inverse.
                # (a named function instead of the arithmetic term keeps quantifier triggers usable in both directions)
                rev = fresh_fn("rev", I, I)
                n0 = sub.length(st)
                k0 = fresh("rv", I)
                st.assume(z3.ForAll([k0], z3.And(rev(k0) == n0 - 1 - k0, rev(rev(k0)) == k0), patterns=[rev(k0)]))
                # a read of the j-th element of the sequence itself brings its position in the reversed sequence into play
                try:
                    e0 = sub.elem(st, k0)
                    terms = [x.t for x in (e0.t if isinstance(e0.t, (list, tuple)) else [e0])]
                    sel = None
                    for t0 in terms:
                        while z3.is_expr(t0) and z3.is_app(t0) and t0.num_args() == 1 and not z3.is_select(t0):
                            t0 = t0.arg(0)
                        if z3.is_expr(t0) and z3.is_select(t0) and t0.arg(1).eq(k0):
                            sel = t0
                            break
                    if sel is not None:
                        st.assume(z3.ForAll([k0], rev(rev(k0)) == k0, patterns=[sel]))
                except Exception:
                    pass
                d = IterDesc(sub.length, lambda s, k, sub=sub, rev=rev: sub.elem(s, rev(k)))
                d.rev = rev
                return d
            if fn == "list" and fn not in st.env and len(it_node.args) == 1 and isinstance(it_node.args[0], ast.Call):
                # list(<iterable expression>): a snapshot of the sequence as it is now
                sub = self.iter_desc(it_node.args[0], st)
                snap = st.copy()
                return IterDesc(lambda s, sub=sub, snap=snap: sub.length(snap), lambda s, k, sub=sub, snap=snap: sub.elem(snap, k))
            if fn == "enumerate" and fn not in st.env:
                sub = self.iter_desc(it_node.args[0], st)

                def elem(s, k, sub=sub):
                    x = sub.elem(s, k)
                    return Val(TupleT([INT, x.ty]), [Val(INT, k), x])
                return IterDesc(sub.length, elem)
        v = self.eval(it_node, st)
        return self.iter_desc_val(v, st)

    def iter_desc_val(self, v, st):
        if v.ty.name == "Opt":
            v = self.unopt(v, st, None, "TypeError")
        if v.ty.name == "Obj" and v.ty.args[0] == "sqlite3.Cursor":
            rows = v.x.get("rows") or st.ghost.get("g:cursor:" + v.t.sexpr())
            if rows is None:
                raise Unsupported("iteration over a cursor without a result")
            v = rows
        if v.ty.name == "List":
            if v.ty.args[0] is None:
                return IterDesc(lambda s: z3.IntVal(0), lambda s, k: NONE_VAL)
            d = IterDesc(lambda s: self.list_len(v, s), lambda s, k: self.list_elem_val(v, k, s))
            d.seq = v
            return d
        if v.ty.name == "Tuple":
            items = v.t

            def elem(s, k):
                if z3.is_int_value(k):
                    return items[k.as_long()]
                res = items[-1]
                for i in range(len(items) - 2, -1, -1):
                    res = self.merge_vals(k == i, items[i], res)
                return res
            return IterDesc(lambda s: z3.IntVal(len(items)), elem)
        if v.ty == STR:
            return IterDesc(lambda s: z3.Length(v.t), lambda s, k: Val(STR, z3.SubString(v.t, k, 1)))
        if v.ty.name == "Dict":
            return self.dict_iter_desc(v, st)
        raise Unsupported(f"iteration over {v.ty}")

    def dict_iter_desc(self, v, st):
        """Keys of a dict in insertion order: a ghost sequence of pairwise distinct keys (A-DICT)."""
        self.used_assumptions.add("A-DICT")
        m0 = self.dict_map(v, st)
        vty = self.dict_vty(v) or JV
        os_ = opt_sort(sort_of(vty))
        n = fresh("nkeys", I)
        keyseq = fresh("keyseq", z3.ArraySort(I, S))
        pos = fresh_fn("keypos", S, I)
        k = fresh("qk", S)
        a = fresh("qa", I)
        st.assume(n >= 0)
        st.assume(z3.ForAll([a], z3.Implies(z3.And(0 <= a, a < n),
                                            z3.And(os_.is_some(z3.Select(m0, z3.Select(keyseq, a))),
                                                   pos(z3.Select(keyseq, a)) == a))))
        st.assume(z3.ForAll([k], z3.Implies(os_.is_some(z3.Select(m0, k)),
                                            z3.And(0 <= pos(k), pos(k) < n, z3.Select(keyseq, pos(k)) == k))))
        d = IterDesc(lambda s: n, lambda s, i: Val(STR, z3.Select(keyseq, i)))
        d.keyseq, d.n, d.pos = keyseq, n, pos
        st.ghost = dict(st.ghost)
        st.ghost["g:keyiter:" + v.t.sexpr()] = pos
        return d

    # -- for -----------------------------------------------------------------------------------
    def desugar_genexp_for(self, node, st):
        """for T in (E for V in ITER if C): BODY   ==   for V' in ITER: if C': T = E'; BODY
        (V' = the generator's own variables, renamed: they live in the generator's scope, not in the function's)."""
        g = node.iter.generators[0]
        names = {n.id for n in ast.walk(g.target) if isinstance(n, ast.Name)}
        ren = {n: f"__g{node.lineno}_{n}" for n in names}

        class R(ast.NodeTransformer):
            def visit_Name(self, n):
                return ast.copy_location(ast.Name(id=ren.get(n.id, n.id), ctx=n.ctx), n)
        import copy as _copy
        tgt = R().visit(_copy.deepcopy(g.target))
        ifs = [R().visit(_copy.deepcopy(c)) for c in g.ifs]
        elt = R().visit(_copy.deepcopy(node.iter.elt))
        assign = ast.Assign(targets=[node.target], value=elt, lineno=node.lineno, col_offset=0)
        inner = [assign] + list(node.body)
        if ifs:
            test = ifs[0] if len(ifs) == 1 else ast.BoolOp(op=ast.And(), values=ifs)
            inner = [ast.If(test=test, body=inner, orelse=[], lineno=node.lineno, col_offset=0)]
        new = ast.For(target=tgt, iter=g.iter, body=inner, orelse=[], lineno=node.lineno, col_offset=node.col_offset)
        ast.fix_missing_locations(new)
        # the rewritten loop is the same loop of the function (same ordinal in the contract)
        o = self.loop_ordinal(st.frame, node)
        self.loop_ord_cache[st.frame.qualname][id(new)] = o
        self._desugared = getattr(self, "_desugared", [])
        self._desugared.append(new)         # keep alive (ids are used as keys)
        return new

    def st_For(self, node, st):
        if node.orelse:
            raise Unsupported("for-else")
        if isinstance(node.iter, ast.GeneratorExp) and len(node.iter.generators) == 1:
            cache = self.__dict__.setdefault("_desugar_cache", {})
            if id(node) not in cache:
                cache[id(node)] = self.desugar_genexp_for(node, st)
            node = cache[id(node)]
        lc, o = self.loop_contract(st, node)
        desc = self.iter_desc(node.iter, st)
        pre = self.flush(st)
        if self.bounded is not None and lc is None or (lc is not None and lc.get("unroll")):
            return self.unroll_for(node, desc, st) + pre[1:]
        if lc is None:
            n = z3.simplify(desc.length(st))
            if z3.is_int_value(n) and n.as_long() <= 8:
                return self.unroll_for(node, desc, st, bound=n.as_long()) + pre[1:]
            raise Unsupported(f"loop #{o} of {st.frame.qualname} (line {node.lineno}) has no invariant")
        return self.cut_loop(node, st, lc, o, desc=desc) + pre[1:]

    def unroll_for(self, node, desc, st, bound=None):
        bound = self.bounded if bound is None else bound
        results = []
        live = [st]
        for k in range(bound + 1):
            nxt = []
            for s in live:
                n = desc.length(s)
                more = z3.simplify(z3.IntVal(k) < n)
                if z3.is_false(more):
                    results.append(s)
                    continue
                if not z3.is_true(more):
                    done = s.copy()
                    done.pc.append(z3.Not(more))
                    results.append(done)
                    s.pc.append(more)
                if k == bound:
                    # unwinding bound reached: drop the path (bounded mode is a refuter, not a proof)
                    continue
                self.assign(node.target, desc.elem(s, z3.IntVal(k)), s)
                for o in self.exec_block(node.body, s):
                    if o.status in ("run", "continue"):
                        o.status = "run"
                        nxt.append(o)
                    elif o.status == "break":
                        o.status = "run"
                        results.append(o)
                    else:
                        results.append(o)
            live = nxt
            if not live:
                break
        return results

    # -- while ---------------------------------------------------------------------------------
    def st_While(self, node, st):
        if node.orelse:
            raise Unsupported("while-else")
        lc, o = self.loop_contract(st, node)
        if self.bounded is not None and lc is None or (lc is not None and lc.get("unroll")):
            return self.unroll_while(node, st)
        if lc is None:
            raise Unsupported(f"loop #{o} of {st.frame.qualname} (line {node.lineno}) has no invariant")
        return self.cut_loop(node, st, lc, o, desc=None)

    def unroll_while(self, node, st):
        results = []
        live = [st]
        for k in range(self.bounded + 1):
            nxt = []
            for s in live:
                c = self.truth(self.eval(node.test, s), s)
                sp = self.flush(s)[1:]
                results.extend(sp)
                cs = z3.simplify(c)
                if z3.is_false(cs):
                    results.append(s)
                    continue
                if not z3.is_true(cs):
                    done = s.copy()
                    done.pc.append(z3.Not(c))
                    results.append(done)
                    s.pc.append(c)
                if k == self.bounded:
                    continue
                for o in self.exec_block(node.body, s):
                    if o.status in ("run", "continue"):
                        o.status = "run"
                        nxt.append(o)
                    elif o.status == "break":
                        o.status = "run"
                        results.append(o)
                    else:
                        results.append(o)
            live = nxt
            if not live:
                break
        return results

    # -- cutting a loop by its invariant -----------------------------------------------------------
    def cut_loop(self, node, st, lc, o, desc):
        fi = st.frame
        is_for = desc is not None
        idx = lc.get("index", f"_i{o}")
        invs = list(lc.get("invariant", []))
        tag = f"loop#{o}"
        body_names = assigned_names(node.body)
        if is_for:
            body_names |= assigned_names([ast.Expr(node.target)]) | {n.id for n in ast.walk(node.target)
                                                                     if isinstance(n, ast.Name)}
        # ghost state introduced by the loop contract
        for gname, (gty, ginit) in lc.get("ghost", {}).items():
            gv = self.eval(ast.parse(ginit, mode="eval").body, st)
            gt = parse_type(gty)
            if gv.ty.name == "List" and gv.ty.args[0] is None:
                gv = Val(gt, gv.t)
            st.env[gname] = gv

        # 1. invariant holds on entry
        if is_for:
            st.env[idx] = mk_int(0)
            if getattr(desc, "seq", None) is not None:
                st.env["__seq"] = desc.seq          # the sequence iterated over (invariants may name it)
        st.ghost = dict(st.ghost)
        st.ghost["__loop_entry__"] = st.copy()
        for k, inv in enumerate(invs):
            self.oblige(st, f"{tag}/init#{k}", self.spec_truth(inv, st.env, st), clause=inv, site=node.lineno)

        # 2. discover what the body modifies (dry run), then havoc it
        from . import engine as _engine
        watermark = next(_engine._fresh_counter)        # every symbol created from here on belongs to the dry run / the iteration
        mod_keys, allocates = self.dry_run(node, st, desc, idx, is_for)
        for extra in lc.get("modifies", []):
            mod_keys.add(extra)
        h = st.copy()
        h.ghost = dict(h.ghost)
        h.ghost["__loop_entry__"] = st.copy()
        if lc.get("ghost_update"):
            body_names |= assigned_names(self.ghost_stmts(lc))
        for name in sorted(body_names | ({idx} if is_for else set())):
            if name in h.env:
                h.env[name] = self.havoc_val(name, h.env[name], h)
            # names first assigned inside the loop stay unbound until assigned
        # references held by locals that the loop never rebinds are loop-invariant terms
        stable_refs = [v.t for nm, v in st.env.items()
                       if nm not in body_names and nm != idx and (is_reflike(v.ty)) and z3.is_expr(v.t)]
        tainted = set()
        for k2 in mod_keys:
            a2 = st.heap.get(k2, self.init_heap.get(k2))
            if a2 is not None:
                tainted |= _consts_of(a2)
        for nm in body_names | ({idx} if is_for else set()):
            v2 = st.env.get(nm)
            if v2 is not None:
                for t2 in (v2.t if isinstance(v2.t, (list, tuple)) else [v2.t]):
                    if z3.is_expr(t2):
                        tainted |= _consts_of(t2)
        by_key = {}
        closed_later = []
        for key, ref in self.last_dry_refs:
            by_key.setdefault(key, []).append(ref)
        for key in sorted(mod_keys):
            arr = h.heap.get(key, self.init_heap.get(key))
            if arr is None:
                continue
            refs = by_key.get(key)
            def is_stable(r, depth=0):
                if not z3.is_expr(r):
                    return False
                if any(r.eq(sr) for sr in stable_refs):
                    return True
                # a field, not written by the loop, of a loop-invariant reference (e.g. self.conn)
                if depth < 3 and z3.is_select(r) and is_stable(r.arg(1), depth + 1):
                    for k2, a2 in list(st.heap.items()):
                        if k2 not in mod_keys and a2.eq(r.arg(0)):
                            return True
                # in general: a term built only from things the loop cannot change (no heap field the loop writes, no local
                # the loop assigns), e.g. self.db[bucket_id]
                return not (_consts_of(r) & tainted) and not _has_symbol_since(r, watermark)
            is_fresh = lambda r: (isinstance(r, str) and r == "fresh") or (z3.is_expr(r) and self.allocated_after(r, st))
            if refs and key not in lc.get("modifies", []) and all(r is not None and (is_stable(r) or is_fresh(r)) for r in refs) \
                    and any(is_fresh(r) for r in refs):
                # only objects allocated inside the loop (and loop-invariant references) are written:
                # everything allocated before the loop keeps its value (frame)
                new = fresh("lh_" + key, arr.sort())
                rr = fresh("r", I)
                keep = [rr < st.alloc] + [rr != sr for sr in stable_refs if any(z3.is_expr(r) and r.eq(sr) for r in refs)]
                h.assume(z3.ForAll([rr], z3.Implies(z3.And(*keep), z3.Select(new, rr) == z3.Select(arr, rr)),
                                   patterns=[z3.Select(new, rr)]))
                if key == "List.len":
                    h.assume(z3.ForAll([rr], z3.Select(new, rr) >= 0, patterns=[z3.Select(new, rr)]))
                if len(keep) == 1:
                    self.region_havoc[new.get_id()] = (arr, st.alloc)
                h.heap[key] = new
                closed_later.append((key, new))
            elif refs and key not in lc.get("modifies", []) and all(
                    r is not None and is_stable(r) for r in refs):
                # pointwise havoc: only the cells of loop-invariant references change
                new = arr
                seen = []
                for r in refs:
                    if any(r.eq(x) for x in seen):
                        continue
                    seen.append(r)
                    cell = fresh("lc_" + key, arr.sort().range())
                    if key == "List.len":
                        h.assume(cell >= 0)           # type invariant: lengths are non-negative
                    new = z3.Store(new, r, cell)
                h.heap[key] = new
            else:
                h.heap[key] = fresh("lh_" + key, arr.sort())
                closed_later.append((key, h.heap[key]))
                if key == "List.len":
                    rr = fresh("r", I)
                    h.assume(z3.ForAll([rr], z3.Select(h.heap[key], rr) >= 0, patterns=[z3.Select(h.heap[key], rr)]))
        if allocates:
            h.new_epoch_at_least(st.alloc)
        for key, arr_ in closed_later:
            self.assume_closed(h, key, arr_)
        # refs held in havocked locals are allocated
        for name in body_names:
            if name in h.env:
                self.assume_ref_range(h.env[name], h)
        if is_for:
            k_t = h.env[idx].t
            h.assume(k_t >= 0)
        for inv in invs:
            h.assume(self.spec_truth(inv, h.env, h))
        if is_for:
            h.assume(k_t <= desc.length(h))

        results = []
        # 3. one arbitrary iteration
        it = h.copy()
        if is_for:
            it.pc.append(k_t < desc.length(it))
            self.assign(node.target, desc.elem(it, k_t), it)
            sp = []
        else:
            c = self.truth(self.eval(node.test, it), it)
            sp = self.flush(it)[1:]
            it.pc.append(c)
        results.extend(sp)
        it.ghost = dict(it.ghost)
        it.ghost["__iter_start__"] = it.copy()
        dec0 = None
        if lc.get("decreases"):
            dec0 = self.spec_val(lc["decreases"], it.env, it)
        body_outs = []
        for out in self.exec_block(node.body, it):
            if out.status in ("run", "continue") and lc.get("ghost_update"):
                out.status = "run"
                body_outs.extend(self.exec_block(self.ghost_stmts(lc), out))
            else:
                body_outs.append(out)
        for out in body_outs:
            if out.status in ("run", "continue"):
                out.status = "run"
                if is_for:
                    out.env[idx] = Val(INT, k_t + 1)
                # proof hints: proved first, then available to the preservation obligations
                for k, hint in enumerate(lc.get("hints", [])):
                    hg = self.spec_truth(hint, out.env, out)
                    self.oblige(out, f"{tag}/hint#{k}", hg, clause=hint, site=node.lineno)
                    out.assume(hg)
                for k, inv in enumerate(invs):
                    g = self.spec_truth(inv, out.env, out)
                    self.oblige(out, f"{tag}/preserve#{k}", g, clause=inv, site=node.lineno)
                    if lc.get("cut"):
                        # cut rule: a clause proved for the state after the body may be used for the later clauses
                        out.assume(g)
                if dec0 is not None:
                    dec1 = self.spec_val(lc["decreases"], out.env, out)
                    self.oblige(out, f"{tag}/decreases", z3.And(dec0.t >= 0, dec1.t < dec0.t),
                                clause=lc["decreases"], site=node.lineno)
            elif out.status == "break":
                out.status = "run"
                results.append(out)
            else:
                results.append(out)
        # 4. exit
        ex = h.copy()
        if is_for:
            ex.pc.append(k_t >= desc.length(ex))
        else:
            c = self.truth(self.eval(node.test, ex), ex)
            results.extend(self.flush(ex)[1:])
            ex.pc.append(z3.Not(c))
        results.append(ex)
        return results

    def allocated_after(self, ref, st):
        """ref is (syntactically) a reference allocated at or after the current allocation point of st."""
        b, c = st._decomp(ref)
        if st.alloc_base is None:
            return False
        if b.eq(st.alloc_base):
            return c >= st.alloc_off
        cur = b.get_id()
        ep = self.epochs
        seen = 0
        while cur in ep and seen < 50:
            prev, used = ep[cur]
            if prev == st.alloc_base.get_id():
                return used >= st.alloc_off and c >= 0
            cur = prev
            seen += 1
        return False

    def ghost_stmts(self, lc):
        if "_ghost_ast" not in lc:
            lc["_ghost_ast"] = ast.parse("\n".join(lc["ghost_update"])).body
        return lc["_ghost_ast"]

    def havoc_val(self, name, v, st):
        ty = v.ty
        if ty == NONE or ty == FN:
            return v
        if ty.name == "Tuple":
            return Val(ty, [self.havoc_val(f"{name}_{i}", x, st) for i, x in enumerate(v.t)])
        if ty.name == "List" and ty.args[0] is None:
            raise Unsupported(f"loop-modified list {name} has unknown element type (declare it in contract locals)")
        return Val(ty, fresh("lv_" + name, sort_of(ty)), **{k: v_ for k, v_ in v.x.items() if k in ("perm", "pinv")})

    def dry_run(self, node, st, desc, idx, is_for):
        """Execute the body once with obligations off to learn which heap fields it writes."""
        s = st.copy()
        saved = (self.collect, self.write_log, self.write_refs)
        self.collect = False
        keys = set()
        self.write_log = keys
        refs = []
        self.write_refs = refs
        before = dict(s.heap)
        alloc0 = s.alloc
        allocates = False
        try:
            if is_for:
                k = fresh("dry_k", I)
                s.env[idx] = Val(INT, k)
                self.assign(node.target, desc.elem(s, k), s)
            else:
                self.eval(node.test, s)
                s.spawned = []
            outs = self.exec_block(node.body, s)
            lc_, _ = self.loop_contract(st, node)
            if lc_ and lc_.get("ghost_update"):
                outs2 = []
                for o in outs:
                    if o.status in ("run", "continue"):
                        o.status = "run"
                        outs2.extend(self.exec_block(self.ghost_stmts(lc_), o))
                    else:
                        outs2.append(o)
                outs = outs2
            for o in outs:
                for key, arr in o.heap.items():
                    b0 = before.get(key, self.init_heap.get(key))      # a field first *read* in the body is not a write
                    if b0 is not arr and not (b0 is not None and b0.eq(arr)):
                        keys.add(key)
                if o.alloc is not alloc0 and not o.alloc.eq(alloc0):
                    allocates = True
        finally:
            self.collect, self.write_log, self.write_refs = saved
        if saved[1] is not None:
            saved[1].update(keys)
        if saved[2] is not None:
            saved[2].extend(refs)
        self.last_dry_refs = refs
        return keys, allocates

    # -- generators ----------------------------------------------------------------------------
    def exec_yield(self, y, st):
        v = self.eval(y.value, st) if y.value is not None else NONE_VAL
        ys = st.env.get("__yield__")
        if ys is None:
            raise Unsupported("yield outside generator context")
        ys2 = self.with_elem(ys, v, st)
        st.env["__yield__"] = ys2
        self.list_append(ys2, v, st)
        outs = self.flush(st)
        c = getattr(self, "active", {}).get(st.frame.qualname)
        if c:
            code = []
            for k, g in enumerate(c.get("ghost_code", [])):
                if g.get("at_yield"):
                    self.ghost_hit.add(k)
                    code.extend(ast.parse(g["code"]).body)
            if code:
                return self.exec_block(code, st) + outs[1:]
        return outs

    def inline_generator(self, fi, env, st):
        """A generator consumed eagerly: its yields are collected into a ghost list (A-GEN)."""
        self.used_assumptions.add("A-GEN")
        c = self.contract_of(fi.qualname)
        yty = parse_type(c["returns"]).args[0] if c and c.get("returns") else None
        env = dict(env)
        env["__yield__"] = self.new_list(yty, st)
        base = st.copy()
        base.env = env
        base.frame = fi
        n0 = len(base.pc)
        self.depth += 1
        try:
            outs = self.exec_block(fi.body, base)
        finally:
            self.depth -= 1
        normal = []
        for o in outs:
            if o.status == "raise":
                o.env, o.frame = st.env, st.frame
                st.spawned.append(o)
            else:
                o.ret = o.env["__yield__"]
                normal.append(o)
        if not normal:
            st.assume(z3.BoolVal(False))
            return NONE_VAL
        self.merge_into(st, normal, n0)
        return st.ret_tmp


class CompMixin:
    """List comprehensions.

    map   [f(x) for x in xs]            f pure  -> pointwise-defined fresh list
                                        f under contract (allocating, otherwise pure) -> the callee's
                                        postcondition holds for every index (quantified contract application)
    filter [x for x in xs if p(x)]      p pure  -> sub-sequence with a monotone ghost index map
    """

    def ev_GeneratorExp(self, e, st):
        """A generator expression handed to a consumer that exhausts it (max, min, sum, list, ...): evaluated eagerly, in
        order, as the list of its elements (A-GEN)."""
        self.used_assumptions.add("A-GEN")
        return self.ev_ListComp(e, st)

    def comp_static(self, e, g, st):
        """A comprehension over a static sequence (a literal list of tuples) whose conditions are decided for every element:
        the static sequence of the selected elements.  None when it does not apply."""
        if not isinstance(g.iter, ast.Name):
            return None
        src = st.env.get(g.iter.id)
        if src is None or src.ty.name != "Tuple":
            return None
        out = []
        for item in src.t:
            sub = st.copy()
            sub.env = dict(st.env)
            sub.spec = True
            self.assign(g.target, item, sub)
            keep = True
            for c in g.ifs:
                t = z3.simplify(self.truth(self.eval(c, sub), sub))
                if z3.is_true(t):
                    continue
                if z3.is_false(t):
                    keep = False
                    break
                return None
            if keep:
                out.append(self.eval(e.elt, sub))
        return Val(TupleT([v.ty for v in out]), out, was_list=True)

    def ev_ListComp(self, e, st):
        if len(e.generators) != 1 or e.generators[0].is_async:
            raise Unsupported("nested comprehension")
        g = e.generators[0]
        static = self.comp_static(e, g, st)
        if static is not None:
            return static
        desc = self.iter_desc(g.iter, st)
        n = desc.length(st)
        ns = z3.simplify(n)
        if z3.is_int_value(ns) and ns.as_long() <= 6 and (self.bounded is not None or ns.as_long() <= 4):
            return self.comp_unrolled(e, g, desc, ns.as_long(), st)
        if g.ifs:
            return self.comp_filter(e, g, desc, st)
        return self.comp_map(e, g, desc, st)

    def comp_unrolled(self, e, g, desc, n, st):
        out = self.new_list(None, st)
        s_env = st.env
        st.env = dict(st.env)
        try:
            for k in range(n):
                self.assign(g.target, desc.elem(st, z3.IntVal(k)), st)
                conds = [self.truth(self.eval(c, st), st) for c in g.ifs]
                if conds:
                    c = z3.And(*conds)
                    st.guards.append(c)
                    try:
                        v = self.eval(e.elt, st)
                        out2 = self.with_elem(out, v, st)
                        self.list_append(out2, v, st)
                        out = out2
                    finally:
                        st.guards.pop()
                else:
                    v = self.eval(e.elt, st)
                    out = self.with_elem(out, v, st)
                    self.list_append(out, v, st)
        finally:
            st.env = s_env
        return out

    def _pure_eval(self, node, st):
        """Evaluate node; returns (value, pure?) where pure = no heap write, no allocation."""
        h0 = dict(st.heap)
        a0 = st.alloc
        v = self.eval(node, st)
        pure = st.alloc is a0 or st.alloc.eq(a0)
        if pure:
            for k, arr in st.heap.items():
                if k in h0 and h0[k] is not arr and not h0[k].eq(arr):
                    pure = False
                    break
        return v, pure

    def comp_map(self, e, g, desc, st):
        n = desc.length(st)
        j = fresh("lc_j", I)
        # contract-call element?
        elt = e.elt
        if isinstance(elt, ast.Call):
            s2 = st.copy()
            s2.spec = True
            try:
                f = self.eval(elt.func, s2)
            except Unsupported:
                f = None
            if f is not None and f.ty == FN and f.t[0] in ("func", "bound"):
                fi = f.t[1]
                c = self.contract_of(fi.qualname)
                if c is not None and set(c["modifies"]) <= {"alloc"}:
                    return self.comp_map_contract(e, g, desc, fi, c, f, st)
                if c is not None and self.own_element_effects(c, fi, f, elt, g) is not None:
                    return self.comp_map_contract(e, g, desc, fi, c, f, st, own=self.own_element_effects(c, fi, f, elt, g))
        sub = st.copy()
        sub.env = dict(st.env)
        sub.guards = list(st.guards) + [z3.And(0 <= j, j < n)]
        self.assign(g.target, desc.elem(sub, j), sub)
        v, pure = self._pure_eval(elt, sub)
        if not pure:
            raise Unsupported("comprehension element with side effects and no contract")
        for r in sub.spawned:
            # an element evaluation that may raise: raise condition exists for some index
            cond = z3.And(*r.pc[len(st.pc):]) if len(r.pc) > len(st.pc) else z3.BoolVal(True)
            st.raise_if(z3.Exists([j], cond), r.exc, r.exc_site)
        # facts assumed while evaluating the element (e.g. ranges) hold for every index
        extra = sub.pc[len(st.pc):]
        if extra:
            st.assume(z3.ForAll([j], z3.And(*extra)))
        src = desc.elem(sub, j)
        items = self.def_array(st, j, to_sort_term(v, v.ty), also=[src.t] if not isinstance(src.t, (list, tuple)) else [])
        return self.new_list(v.ty, st, n, items)

    def own_element_effects(self, c, fi, f, call, g):
        """modifies of the callee limited to `alloc` and the data dict of the comprehension's own element:
        returns the list of (param, field) pairs, or None."""
        if not isinstance(g.target, ast.Name):
            return None
        params = list(fi.params)
        if f.t[0] == "bound":
            params = params[1:]
        own = []
        for m in c["modifies"]:
            if m == "alloc":
                continue
            if "." not in m:
                return None
            p, fld = m.split(".", 1)
            if p not in params or fld != "data[]":
                return None
            k = params.index(p)
            if k >= len(call.args) or not (isinstance(call.args[k], ast.Name) and call.args[k].id == g.target.id):
                return None
            own.append((p, "data"))
        return own

    def comp_map_contract(self, e, g, desc, fi, c, f, st, own=()):
        n = desc.length(st)
        j = fresh("lc_j", I)
        rng = z3.And(0 <= j, j < n)
        pre = st.copy()
        sub = st.copy()
        sub.env = dict(st.env)
        sub.spec = True
        self.assign(g.target, desc.elem(sub, j), sub)
        args = [self.eval(a, sub) for a in e.elt.args]
        kwargs = {k.arg: self.eval(k.value, sub) for k in e.elt.keywords}
        if f.t[0] == "bound":
            args = [f.t[2]] + args
        penv = self.bind(fi, args, kwargs, sub)
        short = fi.qualname.split(".")[-1]
        for k, r in enumerate(c["requires"]):
            goal = self.spec_truth(r, penv, st, old=st)
            self.oblige(st, f"call:{short}/requires#{k}", z3.ForAll([j], z3.Implies(rng, goal)), clause=r)
        alloc0 = st.alloc
        st.new_epoch_at_least(alloc0)
        na = st.alloc
        for wf in c.get("writes_fresh", []):
            self.havoc_fresh_region(wf, alloc0, st)
        if own:
            # "parallel map": every call writes only the data dict of its own element.  With pairwise distinct
            # dicts (obligation) each call sees its own dict in the initial state, so the callee's postcondition,
            # read against the state before the comprehension, holds for every index (assumption A-PARMAP: the
            # callee's postcondition depends on no other dict).
            self.used_assumptions.add("A-PARMAP")
            j2 = fresh("lc_k", I)
            el = desc.elem(pre, j)
            el2 = desc.elem(pre, j2)
            d1 = pre.read(f"{el.ty.args[0]}.data", I, el.t)
            d2 = pre.read(f"{el.ty.args[0]}.data", I, el2.t)
            self.oblige(st, f"call:{short}/distinct-elements",
                        z3.ForAll([j, j2], z3.Implies(z3.And(0 <= j, j < j2, j2 < n), d1 != d2)),
                        clause="the data dicts of the elements are pairwise distinct")
            mkey = self._map_key(JV)
            marr = st.field(mkey, z3.ArraySort(S, opt_sort(JVSort).sort))
            st.set_field_array(mkey, fresh("pm_map", marr.sort()))
        rty = parse_type(c["returns"])
        R = fresh("lc_items", z3.ArraySort(I, sort_of(rty)))
        # the result list object is allocated before the per-element facts are stated, so that they are read
        # against the same heap as later specifications
        out_list = self.new_list(rty, st, n, R)
        res = from_sort_term(z3.Select(R, j), rty)
        qenv = dict(penv)
        qenv["result"] = res
        facts = [z3.And(z3.Select(R, j) >= alloc0, z3.Select(R, j) < na)] if (is_reflike(rty) and not own) else []
        for k_, en in enumerate(c["ensures"]):
            if k_ in c.get("internal_ensures", ()):
                continue
            facts.append(self.spec_truth(en, qenv, st, old=pre))
        pats = [z3.Select(R, j)]
        try:
            el = desc.elem(pre, j)
            et = el.t if z3.is_expr(el.t) else None
            if et is not None and z3.is_select(et):
                pats.append(et)          # also trigger on a read of the j-th source element
        except Exception:
            pass
        st.assume(z3.ForAll([j], z3.Implies(rng, z3.And(*facts)), patterns=pats))
        if is_reflike(rty) and not own:
            j2 = fresh("lc_k", I)
            st.assume(z3.ForAll([j, j2], z3.Implies(z3.And(0 <= j, j < j2, j2 < n), z3.Select(R, j) != z3.Select(R, j2))))
        st.assume(n >= 0)
        return out_list

    def comp_filter(self, e, g, desc, st):
        """[elt for x in xs if p]: ghost strictly increasing index map m with
        (1) every selected index satisfies p, (2) every index satisfying p is selected."""
        n = desc.length(st)
        j = fresh("lc_j", I)
        i = fresh("lc_i", I)
        m = fresh_fn("lc_sel", I, I)       # position in result -> source index
        minv = fresh_fn("lc_pos", I, I)    # source index -> position in result
        cnt = fresh("lc_n", I)

        def at(idx):
            sub = st.copy()
            sub.env = dict(st.env)
            sub.ghost = dict(sub.ghost)
            sub.ghost["__pure_ctx__"] = True     # calls to functional contracts are replaced by their value
            self.assign(g.target, desc.elem(sub, idx), sub)
            conds = [self.truth(self.eval(c, sub), sub) for c in g.ifs]
            v, pure = self._pure_eval(e.elt, sub)
            if not pure:
                raise Unsupported("filter comprehension element with side effects")
            return z3.And(*conds), v
        p_m, v_m = at(m(j))
        p_i, _ = at(i)
        st.assume(z3.And(cnt >= 0, cnt <= n))
        st.assume(z3.ForAll([j], z3.Implies(z3.And(0 <= j, j < cnt),
                                            z3.And(0 <= m(j), m(j) < n, p_m, minv(m(j)) == j)), patterns=[m(j)]))
        j2 = fresh("lc_k", I)
        st.assume(z3.ForAll([j, j2], z3.Implies(z3.And(0 <= j, j < j2, j2 < cnt), m(j) < m(j2)), patterns=[z3.MultiPattern(m(j), m(j2))]))
        pats = [minv(i)]
        try:
            el = desc.elem(st, i)
            et = el.t if z3.is_expr(el.t) else (el.t[0].t if el.ty.name == "Tuple" and el.t and z3.is_expr(el.t[0].t) else None)
            if et is not None and z3.is_app(et) and et.num_args() > 0:
                # also trigger on a read of the i-th source element
                while z3.is_app(et) and et.num_args() == 1 and not z3.is_select(et):
                    et = et.arg(0)
                if z3.is_select(et):
                    pats.append(et)
        except Exception:
            pass
        st.assume(z3.ForAll([i], z3.Implies(z3.And(0 <= i, i < n, p_i),
                                            z3.And(0 <= minv(i), minv(i) < cnt, m(minv(i)) == i)), patterns=pats))
        items = self.def_array(st, j, to_sort_term(v_m, v_m.ty))
        out = self.new_list(v_m.ty, st, cnt, items)
        out.x["sel"] = m
        out.x["pos"] = minv
        st.ghost = dict(st.ghost)
        st.ghost["g:lastfilter"] = out
        return out
