"""Expression evaluation (mix-in of Executor)."""
from __future__ import annotations
import ast
import datetime as _dt
from fractions import Fraction
import z3

from . import front
from .api import CONTRACTS, CLASSDEFS
from .engine import *  # noqa
from .engine import Val, Unsupported, EngineError, fresh, I, B, S, R, NONE_VAL

US = 1000000


def real_of(x):
    if isinstance(x, (int, float)):
        f = Fraction(x)
        return z3.RealVal(f"{f.numerator}/{f.denominator}")
    return x


class ExprMixin:
    # ------------------------------------------------------------------------------------------
    def eval(self, e, st):
        m = getattr(self, "ev_" + type(e).__name__, None)
        if m is None:
            raise Unsupported(f"expression {type(e).__name__}: {ast.unparse(e)[:60]}")
        return m(e, st)

    def ev_Constant(self, e, st):
        v = e.value
        if v is None:
            return NONE_VAL
        if isinstance(v, bool):
            return mk_bool(v)
        if isinstance(v, int):
            return mk_int(v)
        if isinstance(v, str):
            return mk_str(v)
        if isinstance(v, float):
            return Val(FLOAT, real_of(v), const=v)
        raise Unsupported(f"constant {v!r}")

    def ev_Name(self, e, st):
        if e.id in st.env:
            return st.env[e.id]
        if e.id == "result" and st.spec:
            raise EngineError("result not bound")
        return self.lookup_global(e.id, st)

    def lookup_global(self, name, st):
        fr = st.frame
        # closure env
        mod = fr.module if hasattr(fr, "module") else None
        if mod is not None:
            q = self.world.resolve_name(mod, name)
            if q is not None:
                return self.global_val(q)
        if name == "EPOCH":
            return Val(DT, z3.IntVal(0))
        spec = self.spec_function(name)
        if spec is not None:
            return Val(FN, ("func", spec))
        return Val(FN, ("ext", "builtins." + name))

    def spec_function(self, name):
        for m in getattr(self, "spec_modules", []):
            if name in m.functions:
                return m.functions[name]
        base = self.world.module("contracts.models")
        if base is not None and name in base.functions:
            return base.functions[name]
        return None

    EXT_CONSTS = {"re.IGNORECASE": 2, "re.UNICODE": 32, "re.I": 2, "re.U": 32, "sys.maxsize": 2 ** 63 - 1}

    def global_val(self, q):
        if q in self.EXT_CONSTS:
            return mk_int(self.EXT_CONSTS[q])
        if q.startswith("pyvc.specrt."):
            name = q.split(".")[-1]
            if name == "EPOCH":
                return Val(DT, z3.IntVal(0))
            return Val(FN, ("ext", "builtins." + name))
        r = self.world.lookup(q)
        if isinstance(r, front.FuncInfo):
            return Val(FN, ("func", r))
        if isinstance(r, front.ClassInfo):
            return Val(FN, ("class", r))
        if isinstance(r, tuple) and r[0] == "const":
            return self.eval_const(r[1], r[2])
        if isinstance(r, tuple) and r[0] == "module":
            return Val(FN, ("ext", r[1].name))
        return Val(FN, ("ext", r[1]))

    def eval_const(self, mod, node):
        try:
            v = ast.literal_eval(node)
        except Exception:
            try:
                v = eval(compile(ast.Expression(node), "<const>", "eval"), {"__builtins__": {}})
            except Exception:
                # module-level expression (e.g. list of classes): evaluate symbolically in module scope
                st = State(self)
                st.frame = _ModFrame(mod)
                st.alloc = z3.IntVal(1)
                return self.eval(node, st)
        return self.const_val(v)

    def const_val(self, v):
        if v is None:
            return NONE_VAL
        if isinstance(v, bool):
            return mk_bool(v)
        if isinstance(v, int):
            return mk_int(v)
        if isinstance(v, str):
            return mk_str(v)
        if isinstance(v, float):
            return Val(FLOAT, real_of(v), const=v)
        if isinstance(v, tuple):
            return Val(TupleT([self.const_val(x).ty for x in v]), [self.const_val(x) for x in v])
        raise Unsupported(f"constant {v!r}")

    def ev_Tuple(self, e, st):
        items = []
        for x in e.elts:
            if isinstance(x, ast.Starred):
                sv = self.eval(x.value, st)
                if sv.ty.name != "Tuple":
                    raise Unsupported("starred element of unknown length in a tuple display")
                items.extend(sv.t)
            else:
                items.append(self.eval(x, st))
        return Val(TupleT([i.ty for i in items]), items)

    def ev_JoinedStr(self, e, st):
        """f-string: exact when every piece is a constant or a plain `{string value}`; any other piece (conversions, format
        specs, non-strings) makes the whole text an unknown string - f-strings here are messages, except where SQL is built."""
        parts = []
        for v in e.values:
            if isinstance(v, ast.Constant) and isinstance(v.value, str):
                parts.append(z3.StringVal(v.value))
            elif isinstance(v, ast.FormattedValue) and v.conversion == -1 and v.format_spec is None:
                try:
                    sub = st.copy()
                    sub.spec = True
                    val = self.eval(v.value, sub)
                except Unsupported:
                    return Val(STR, fresh("fstr", S))
                if val.ty != STR:
                    return Val(STR, fresh("fstr", S))
                parts.append(val.t)
            else:
                return Val(STR, fresh("fstr", S))
        if not parts:
            return Val(STR, z3.StringVal(""))
        return Val(STR, z3.simplify(z3.Concat(*parts)) if len(parts) > 1 else parts[0])

    def ev_Lambda(self, e, st):
        return Val(FN, ("lambda", e, st.env, st.frame))

    def ev_IfExp(self, e, st):
        c = z3.simplify(self.truth(self.eval(e.test, st), st))
        if z3.is_true(c):
            return self.eval(e.body, st)
        if z3.is_false(c):
            return self.eval(e.orelse, st)
        st.guards.append(c)
        try:
            a = self.eval(e.body, st)
        finally:
            st.guards.pop()
        st.guards.append(z3.Not(c))
        try:
            b = self.eval(e.orelse, st)
        finally:
            st.guards.pop()
        return self.merge_vals(c, a, b, st)

    def merge_vals(self, c, a, b, st=None):
        if st is not None and (a.x.get("frozen") is not None or b.x.get("frozen") is not None):
            # a dict *value* (specification literal / old contents) on either side: merge the contents
            da = self._inner(a) if a.ty.name == "Opt" else a
            db_ = self._inner(b) if b.ty.name == "Opt" else b
            if da.ty.name == "Dict" and db_.ty.name == "Dict":
                da = Val(da.ty, da.t, **a.x) if a.ty.name == "Opt" else da
                db_ = Val(db_.ty, db_.t, **b.x) if b.ty.name == "Opt" else db_
                return Val(da.ty, z3.If(c, da.t, db_.t), frozen=z3.If(c, self.dict_map(da, st), self.dict_map(db_, st)))
        if a.ty == b.ty:
            if a.ty == NONE:
                return a
            if a.ty.name == "Tuple":
                return Val(a.ty, [self.merge_vals(c, x, y) for x, y in zip(a.t, b.t)])
            if a.ty == FN:
                if a.t is b.t or a.t == b.t:
                    return a
                raise Unsupported("merge of different callables")
            if a.ty == DT and (a.x or b.x):
                def attr(v, k, d):
                    x = v.x.get(k, d)
                    return z3.IntVal(x) if isinstance(x, int) and not isinstance(x, bool) else (z3.BoolVal(x) if isinstance(x, bool) else x)
                return Val(DT, z3.If(c, a.t, b.t), off=z3.simplify(z3.If(c, attr(a, "off", 0), attr(b, "off", 0))),
                           aware=z3.simplify(z3.If(c, attr(a, "aware", True), attr(b, "aware", True))))
            return Val(a.ty, z3.If(c, a.t, b.t))
        # coercions
        if a.ty == NONE or b.ty == NONE:
            other = b if a.ty == NONE else a
            oty = OptT(other.ty)
            return Val(oty, z3.If(c, to_sort_term(a, oty), to_sort_term(b, oty)))
        if a.ty.name == "Opt" or b.ty.name == "Opt":
            oty = a.ty if a.ty.name == "Opt" else b.ty
            return Val(oty, z3.If(c, to_sort_term(a, oty), to_sort_term(b, oty)))
        if a.ty.name == "Tuple" and b.ty.name == "Tuple" and len(a.t) == len(b.t):
            items = [self.merge_vals(c, x, y) for x, y in zip(a.t, b.t)]
            return Val(TupleT([i.ty for i in items]), items)
        if a.ty.name == "List" and b.ty.name == "List":
            ty = a.ty if a.ty.args[0] is not None else b.ty
            return Val(ty, z3.If(c, a.t, b.t))
        if {a.ty, b.ty} == {INT, FLOAT}:
            return Val(FLOAT, z3.If(c, to_sort_term(a, FLOAT), to_sort_term(b, FLOAT)))
        if {a.ty, b.ty} == {INT, BOOL}:
            return Val(INT, z3.If(c, to_sort_term(a, INT), to_sort_term(b, INT)))
        raise Unsupported(f"merge {a.ty} / {b.ty}")

    # -- truthiness ----------------------------------------------------------------------------
    def truth(self, v, st):
        ty = v.ty
        n = ty.name
        if n == "bool":
            return v.t
        if n == "int":
            return v.t != 0
        if n == "None":
            return z3.BoolVal(False)
        if n == "str":
            return z3.Length(v.t) > 0
        if n == "timedelta":
            return v.t != 0
        if n == "datetime":
            return z3.BoolVal(True)
        if n == "float":
            return v.t != 0
        if n == "JV":
            return jv_truthy(v.t)
        if n == "List":
            return self.list_len(v, st) > 0
        if n == "Dict":
            return self.dict_nonempty(v, st)
        if n == "Obj":
            return self.obj_truth(v, st)
        if n == "Tuple":
            return z3.BoolVal(len(v.t) > 0)
        if n == "fn" or n == "Cls":
            return z3.BoolVal(True)
        if n == "OptTuple":
            return z3.Not(v.t[0])
        if n == "anyref":
            return v.t != 0
        if n == "Opt":
            inner = ty.args[0]
            if is_reflike(inner):
                st.guards.append(v.t != 0)
                try:
                    it = self.truth(Val(inner, v.t), st)
                finally:
                    st.guards.pop()
                return z3.And(v.t != 0, it)
            srt = opt_of(ty)
            return z3.And(srt.is_some(v.t), self.truth(Val(inner, srt.val(v.t)), st))
        raise Unsupported(f"truth of {ty}")

    def obj_truth(self, v, st):
        cd = CLASSDEFS.get(v.ty.args[0])
        if cd and cd.get("record"):
            if not cd.get("partial") and not self.under_construction(v, st) and cd["fields"]:
                return z3.BoolVal(True)       # record invariant: a constructed record has all of its keys (a non-empty dict)
            return z3.Or(*[st.read(f"{v.ty.args[0]}.{f}!has", B, v.t) for f in cd["fields"]])
        return z3.BoolVal(True)

    def is_none(self, v, st):
        ty = v.ty
        if ty == NONE:
            return z3.BoolVal(True)
        if ty.name == "OptTuple":
            return v.t[0]
        if ty.name == "Opt":
            if is_reflike(ty.args[0]):
                return v.t == 0
            return opt_of(ty).is_none(v.t)
        if ty == ANYREF:
            return v.t == 0
        if ty == JV:
            return v.t == jv_null       # a JSON value may be null
        return z3.BoolVal(False)

    def unopt(self, v, st, site=None, exc="TypeError"):
        """Value inside an Optional (obligation/exception if it is None)."""
        if v.ty.name != "Opt":
            return v
        inner = v.ty.args[0]
        st.raise_if(self.is_none(v, st), exc, site)
        if is_reflike(inner):
            return Val(inner, v.t)
        return Val(inner, opt_of(v.ty).val(v.t))

    # -- boolean operators ---------------------------------------------------------------------
    def ev_BoolOp(self, e, st):
        is_and = isinstance(e.op, ast.And)
        vals = []
        guards_pushed = 0
        try:
            for i, sub in enumerate(e.values):
                v = self.eval(sub, st)
                vals.append(v)
                if i < len(e.values) - 1:
                    t = self.truth(v, st)
                    ts_ = z3.simplify(t)
                    if (is_and and z3.is_false(ts_)) or (not is_and and z3.is_true(ts_)):
                        break          # statically decided: the remaining operands are never evaluated
                    st.guards.append(t if is_and else z3.Not(t))
                    guards_pushed += 1
        finally:
            for _ in range(guards_pushed):
                st.guards.pop()
        # result value: first falsy (and) / first truthy (or), else last
        res = vals[-1]
        for v in reversed(vals[:-1]):
            t = self.truth(v, st)
            if is_and:
                res = self.merge_bool_result(z3.Not(t), v, res, st)
            else:
                res = self.merge_bool_result(t, v, res, st)
        return res

    def merge_bool_result(self, c, a, b, st):
        if a.ty == BOOL and b.ty == BOOL:
            return Val(BOOL, z3.If(c, a.t, b.t))
        try:
            return self.merge_vals(c, a, b, st)
        except Unsupported:
            # only truthiness is meaningful
            return Val(BOOL, z3.If(c, self.truth(a, st), self.truth(b, st)))

    def ev_UnaryOp(self, e, st):
        v = self.eval(e.operand, st)
        if isinstance(e.op, ast.Not):
            return Val(BOOL, z3.Not(self.truth(v, st)))
        if isinstance(e.op, ast.USub):
            if v.ty in (INT, TD):
                return Val(v.ty, -v.t)
            if v.ty == FLOAT:
                return Val(FLOAT, -v.t, **({"const": -v.x["const"]} if "const" in v.x else {}))
        raise Unsupported(f"unary {type(e.op).__name__} on {v.ty}")

    # -- comparison ----------------------------------------------------------------------------
    def ev_Compare(self, e, st):
        left = self.eval(e.left, st)
        conj = []
        pushed = 0
        try:
            for op, rn in zip(e.ops, e.comparators):
                right = self.eval(rn, st)
                c = self.compare(op, left, right, st, e)
                conj.append(c)
                st.guards.append(c)
                pushed += 1
                left = right
        finally:
            for _ in range(pushed):
                st.guards.pop()
        return Val(BOOL, z3.And(*conj) if len(conj) > 1 else conj[0])

    def compare(self, op, a, b, st, node=None):
        if isinstance(op, ast.Is):
            return self.identical(a, b, st)
        if isinstance(op, ast.IsNot):
            return z3.Not(self.identical(a, b, st))
        if isinstance(op, ast.Eq):
            return self.equal(a, b, st)
        if isinstance(op, ast.NotEq):
            return z3.Not(self.equal(a, b, st))
        if isinstance(op, ast.In):
            return self.contains(b, a, st, node)
        if isinstance(op, ast.NotIn):
            return z3.Not(self.contains(b, a, st, node))
        # ordering
        a2, b2 = self.unopt(a, st), self.unopt(b, st)
        if a2.ty.name == "Obj" and b2.ty.name == "Obj":
            meth = {ast.Lt: "__lt__", ast.Gt: "__gt__", ast.LtE: "__le__", ast.GtE: "__ge__"}[type(op)]
            r = self.call_method_if_defined(a2, meth, [b2], st)
            if r is not None:
                return self.truth(r, st)
            raise Unsupported(f"ordering on {a2.ty}")
        ta, tb = self.numeric_pair(a2, b2)
        if isinstance(op, ast.Lt):
            return ta < tb
        if isinstance(op, ast.LtE):
            return ta <= tb
        if isinstance(op, ast.Gt):
            return ta > tb
        if isinstance(op, ast.GtE):
            return ta >= tb
        raise Unsupported(f"compare {type(op).__name__}")

    def numeric_pair(self, a, b):
        if a.ty == b.ty and a.ty in (INT, DT, TD, FLOAT):
            return a.t, b.t
        if a.ty == STR and b.ty == STR:
            return a.t, b.t
        if {a.ty, b.ty} <= {INT, FLOAT, BOOL}:
            return to_sort_term(a, FLOAT) if a.ty != BOOL else z3.ToReal(z3.If(a.t, 1, 0)), \
                to_sort_term(b, FLOAT) if b.ty != BOOL else z3.ToReal(z3.If(b.t, 1, 0))
        raise Unsupported(f"ordering between {a.ty} and {b.ty}")

    def _cls_view(self, v, st):
        """(is_none, tag) of a value that holds a class object (concrete, symbolic or optional), else None."""
        if v.ty == FN and v.t[0] == "class":
            return z3.BoolVal(False), z3.IntVal(class_id(v.t[1]))
        if v.ty == CLS:
            return z3.BoolVal(False), v.t
        if v.ty.name == "Opt" and v.ty.args[0] == CLS:
            return opt_of(v.ty).is_none(v.t), opt_of(v.ty).val(v.t)
        return None

    def identical(self, a, b, st):
        if a.ty == NONE:
            return self.is_none(b, st)
        if b.ty == NONE:
            return self.is_none(a, st)
        ca, cb = self._cls_view(a, st), self._cls_view(b, st)
        if ca is not None and cb is not None and not (a.ty == FN and b.ty == FN):
            return z3.And(z3.Not(ca[0]), z3.Not(cb[0]), ca[1] == cb[1])
        ra = is_reflike(a.ty) or (a.ty.name == "Opt" and is_reflike(a.ty.args[0]))
        rb = is_reflike(b.ty) or (b.ty.name == "Opt" and is_reflike(b.ty.args[0]))
        if ra and rb:
            return a.t == b.t
        if a.ty == FN and b.ty == FN:
            return z3.BoolVal(self.same_callable(a.t, b.t))
        if a.ty == BOOL and b.ty == BOOL:
            return a.t == b.t
        if a.ty == FN or b.ty == FN:
            if a.ty.name == "Opt" or b.ty.name == "Opt":
                return z3.BoolVal(False)
            return z3.BoolVal(False)
        raise Unsupported(f"`is` between {a.ty} and {b.ty}")

    def same_callable(self, x, y):
        if x[0] != y[0]:
            return False
        if x[0] in ("func", "class"):
            return x[1].qualname == y[1].qualname
        return x == y

    def equal(self, a, b, st):
        if a.ty == NONE or b.ty == NONE:
            return self.identical(a, b, st)
        if self._cls_view(a, st) is not None and self._cls_view(b, st) is not None and not (a.ty == FN and b.ty == FN):
            return self.identical(a, b, st)       # classes compare by identity
        if a.ty.name == "Opt" or b.ty.name == "Opt":
            na, nb = self.is_none(a, st), self.is_none(b, st)
            ia = self._inner(a)
            ib = self._inner(b)
            return z3.Or(z3.And(na, nb), z3.And(z3.Not(na), z3.Not(nb), self.equal(ia, ib, st)))
        if a.ty == FN and b.ty == FN:
            return z3.BoolVal(self.same_callable(a.t, b.t))
        if a.ty == FN or b.ty == FN:
            return z3.BoolVal(False)
        if a.ty.name == "Tuple" and b.ty.name == "Tuple":
            if len(a.t) != len(b.t):
                return z3.BoolVal(False)
            return z3.And(*[self.equal(x, y, st) for x, y in zip(a.t, b.t)]) if a.t else z3.BoolVal(True)
        if a.ty.name == "Dict" and b.ty.name == "Dict":
            return self.dict_map(a, st) == self.dict_map(b, st)
        if a.ty.name == "List" and b.ty.name == "List":
            return self.list_equal(a, b, st)
        if a.ty.name == "Obj" and b.ty.name == "Obj":
            r = self.call_method_if_defined(a, "__eq__", [b], st)
            if r is not None:
                return self.truth(r, st)
            return a.t == b.t
        if a.ty == b.ty:
            if a.ty == JV and getattr(self, "jv_pyeq_mode", False):
                return jv_pyeq(a.t, b.t)
            return a.t == b.t
        if {a.ty, b.ty} <= {INT, FLOAT, BOOL}:
            x, y = self.numeric_pair(a, b)
            return x == y
        if JV in (a.ty, b.ty):
            j, o = (a, b) if a.ty == JV else (b, a)
            if o.ty == STR:
                return z3.And(jv_is_str(j.t), jv_str(j.t) == o.t)
            if o.ty == NONE or o.ty.name == "Opt":
                # None is one JSON value; an Optional[str] is that or a string
                return j.t == self.to_jv(o, st).t
            raise Unsupported(f"equality between a JSON value and {o.ty}")
        return z3.BoolVal(False)

    def under_construction(self, obj, st):
        cd = CLASSDEFS.get(obj.ty.args[0]) if obj.ty.name == "Obj" else None
        if cd and cd.get("partial"):
            return True          # keys of a partial record may be absent: presence flags are always consulted
        return any(obj.t.eq(r) for r in st.ghost.get("__constructing__", ()))

    def _inner(self, v):
        if v.ty.name != "Opt":
            return v
        inner = v.ty.args[0]
        if is_reflike(inner):
            return Val(inner, v.t)
        return Val(inner, opt_of(v.ty).val(v.t))

    def contains(self, container, item, st, node=None):
        ty = container.ty
        if ty.name == "Dict":
            key = self.as_key(item)
            return self.dict_has(container, key, st)
        if ty.name == "List":
            return self.list_contains(container, item, st)
        if ty.name == "Obj":
            cd = CLASSDEFS.get(ty.args[0])
            if cd and cd.get("record") and item.ty == STR and z3.is_string_value(item.t):
                k = item.t.as_string()
                if k in cd["fields"]:
                    if not self.under_construction(container, st):
                        return z3.BoolVal(True)      # class invariant of record classes (C13)
                    return st.read(f"{ty.args[0]}.{k}!has", B, container.t)
                return z3.BoolVal(False)
            r = self.call_method_if_defined(container, "__contains__", [item], st)
            if r is not None:
                return self.truth(r, st)
        if ty.name == "SDict" and item.ty == STR and z3.is_string_value(item.t):
            return z3.BoolVal(item.t.as_string() in container.t)
        if ty == STR and item.ty == STR:
            return z3.Contains(container.t, item.t)
        if ty.name == "Tuple":
            return z3.Or(*[self.equal(x, item, st) for x in container.t]) if container.t else z3.BoolVal(False)
        raise Unsupported(f"`in` on {ty}")

    def as_key(self, v):
        if v.ty == STR:
            return v.t
        if v.ty == JV:
            return jv_str(v.t)
        raise Unsupported(f"dict key of type {v.ty}")

    # -- arithmetic ----------------------------------------------------------------------------
    def ev_BinOp(self, e, st):
        a = self.eval(e.left, st)
        b = self.eval(e.right, st)
        return self.binop(e.op, a, b, st, e)

    def binop(self, op, a, b, st, node=None):
        a = self.unopt(a, st)
        b = self.unopt(b, st)
        ta, tb = a.ty, b.ty
        if isinstance(op, ast.Add):
            if ta == DT and tb == TD:
                return Val(DT, a.t + b.t, **a.x)
            if ta == TD and tb == DT:
                return Val(DT, a.t + b.t, **b.x)
            if ta == TD and tb == TD:
                return Val(TD, a.t + b.t)
            if ta == INT and tb == INT:
                return Val(INT, a.t + b.t)
            if ta == STR and tb == STR:
                self.string_fold_facts(a.t, b.t, st)
                return Val(STR, z3.Concat(a.t, b.t))
            if ta.name == "List" and tb.name == "List":
                return self.list_concat(a, b, st)
            if ta.name == "Tuple" and tb.name == "Tuple":
                return Val(TupleT(list(ta.args) + list(tb.args)), list(a.t) + list(b.t))
            if {ta, tb} <= {INT, FLOAT}:
                return self.float_op("+", a, b, st)
        if isinstance(op, ast.Sub):
            if ta == DT and tb == DT:
                return Val(TD, a.t - b.t)
            if ta == DT and tb == TD:
                return Val(DT, a.t - b.t, **a.x)
            if ta == TD and tb == TD:
                return Val(TD, a.t - b.t)
            if ta == INT and tb == INT:
                return Val(INT, a.t - b.t)
            if {ta, tb} <= {INT, FLOAT}:
                return self.float_op("-", a, b, st)
        if isinstance(op, ast.Mult):
            if ta == INT and tb == INT:
                return Val(INT, a.t * b.t)
            if ta == INT and tb == TD:
                return Val(TD, a.t * b.t)
            if ta == TD and tb == INT:
                return Val(TD, a.t * b.t)
            if {ta, tb} <= {INT, FLOAT}:
                return self.float_op("*", a, b, st)
        if isinstance(op, ast.Div):
            if {ta, tb} <= {INT, FLOAT}:
                return self.float_op("/", a, b, st)
        if isinstance(op, ast.Mod):
            if ta == INT and tb == INT:
                st.raise_if(b.t == 0, "ZeroDivisionError")
                return Val(INT, a.t % b.t) if _is_pos_const(b.t) else Val(INT, self.py_mod(a.t, b.t))
            if ta == TD and tb == TD and _is_pos_const(z3.simplify(b.t)):
                return Val(TD, a.t % z3.simplify(b.t))
        if isinstance(op, ast.FloorDiv):
            if ta == INT and tb == INT:
                st.raise_if(b.t == 0, "ZeroDivisionError")
                if _is_pos_const(b.t):
                    return Val(INT, a.t / b.t)
        if isinstance(op, ast.Pow):
            if ta == INT and tb == INT and z3.is_int_value(a.t) and z3.is_int_value(b.t):
                return mk_int(a.t.as_long() ** b.t.as_long())
        if isinstance(op, ast.BitOr):
            if ta == INT and tb == INT:
                return Val(INT, z3.BV2Int(z3.Int2BV(a.t, 16) | z3.Int2BV(b.t, 16)))
        raise Unsupported(f"binop {type(op).__name__} on {ta}, {tb}")

    def py_mod(self, a, b):
        m = a % b       # SMT mod: result in [0, |b|)
        return z3.If(z3.And(b < 0, m != 0), m + b, m)

    def float_op(self, op, a, b, st):
        """Floating-point arithmetic.  Exactly-modelled patterns are handled in flt.py; everything
        else is an uninterpreted result (sound: nothing is assumed about it)."""
        from . import flt
        return flt.float_op(self, op, a, b, st)

    # -- attributes ----------------------------------------------------------------------------
    def ev_Attribute(self, e, st):
        v = self.eval(e.value, st)
        return self.get_attr(v, e.attr, st, e)

    def class_of(self, ty):
        if ty.name != "Obj":
            return None
        r = self.world.lookup(ty.args[0])
        return r if isinstance(r, front.ClassInfo) else None

    def find_member(self, ci, name, kind):
        """Search class and (in-repo) bases for a method/getter/setter."""
        seen = 0
        while ci is not None and seen < 6:
            table = {"method": ci.methods, "getter": ci.getters, "setter": ci.setters}[kind]
            if name in table:
                return table[name]
            nxt = None
            for b in ci.bases:
                q = self.world.resolve_name(ci.module, b.split(".")[0])
                if q:
                    r = self.world.lookup(q)
                    if isinstance(r, front.ClassInfo):
                        nxt = r
                        break
            ci = nxt
            seen += 1
        return None

    def get_attr(self, v, attr, st, node=None):
        ty = v.ty
        if ty.name == "Opt":
            v = self.unopt(v, st, getattr(node, "lineno", None), "AttributeError")
            ty = v.ty
        if ty.name == "Obj":
            ci = self.class_of(ty)
            if ci is not None:
                g = self.find_member(ci, attr, "getter")
                if g is not None:
                    return self.call_user(g, [v], {}, st, node)
                mth = self.find_member(ci, attr, "method")
                if mth is not None:
                    if mth.kind == "staticmethod":
                        return Val(FN, ("func", mth))
                    if mth.kind == "classmethod":
                        return Val(FN, ("bound", mth, Val(FN, ("class", ci))))
                    return Val(FN, ("bound", mth, v))
                if attr in ci.attrs:
                    return self.eval_const(ci.module, ci.attrs[attr])
            fty = self.field_type(ty.args[0], attr)
            if fty is not None:
                return from_sort_term(st.read(f"{ty.args[0]}.{attr}", sort_of(fty), v.t), fty)
            return Val(FN, ("extmethod", v, attr))
        if ty == FN:
            d = v.t
            if d[0] == "ext":
                if d[1] + "." + attr in self.EXT_CONSTS:
                    return mk_int(self.EXT_CONSTS[d[1] + "." + attr])
                return self.global_val(d[1] + "." + attr) if self.world.split_qual(d[1])[0] is not None \
                    else Val(FN, ("ext", d[1] + "." + attr))
            if d[0] == "class":
                ci = d[1]
                mth = self.find_member(ci, attr, "method")
                if mth is not None:
                    if mth.kind == "classmethod":
                        return Val(FN, ("bound", mth, v))
                    return Val(FN, ("func", mth))
                if attr in ci.attrs:
                    return self.eval_const(ci.module, ci.attrs[attr])
                return Val(FN, ("ext", ci.qualname + "." + attr))
            if d[0] in ("func", "closure") and attr in ("__name__", "__doc__"):
                return mk_str(d[1].node.name) if attr == "__name__" else NONE_VAL
        r = self.builtin_attr(v, attr, st, node)
        if r is not None:
            return r
        return Val(FN, ("extmethod", v, attr))

    def field_type(self, cls, attr):
        cd = CLASSDEFS.get(cls)
        if cd and attr in cd["fields"]:
            return parse_type(cd["fields"][attr])
        ft = getattr(self, "dyn_fields", {}).get((cls, attr))
        return ft

    def set_attr(self, obj, attr, v, st, node=None):
        if obj.ty.name == "Opt":
            obj = self.unopt(obj, st, getattr(node, "lineno", None), "AttributeError")
        if obj.ty.name != "Obj":
            raise Unsupported(f"attribute store on {obj.ty}")
        ci = self.class_of(obj.ty)
        if ci is not None:
            s = self.find_member(ci, attr, "setter")
            if s is not None:
                self.call_user(s, [obj, v], {}, st, node)
                return
        cls = obj.ty.args[0]
        fty = self.field_type(cls, attr)
        if fty is None:
            fty = v.ty if v.ty != NONE else OptT(ANYREF)
            if not hasattr(self, "dyn_fields"):
                self.dyn_fields = {}
            self.dyn_fields[(cls, attr)] = fty
        st.write(f"{cls}.{attr}", sort_of(fty), obj.t, to_sort_term(v, fty))
        if self.write_log is not None:
            self.write_log.add(f"{cls}.{attr}")

    # -- subscripts ----------------------------------------------------------------------------
    def ev_Subscript(self, e, st):
        obj = self.eval(e.value, st)
        return self.get_item(obj, e.slice, st, e)

    def get_item(self, obj, sl, st, node=None):
        line = getattr(node, "lineno", None)
        if obj.ty.name == "Opt":
            obj = self.unopt(obj, st, line, "TypeError")
        n = obj.ty.name
        if isinstance(sl, ast.Slice):
            lo = self.eval(sl.lower, st) if sl.lower is not None else None
            hi = self.eval(sl.upper, st) if sl.upper is not None else None
            step = self.eval(sl.step, st) if sl.step is not None else None
            if n == "List":
                return self.list_slice(obj, lo, hi, step, st)
            if n == "str":
                return self.str_slice(obj, lo, hi, step, st)
            if n == "Tuple" and all(x is None or z3.is_int_value(x.t) for x in (lo, hi, step)):
                py = lambda x: None if x is None else x.t.as_long()
                items = obj.t[slice(py(lo), py(hi), py(step))]
                return Val(TupleT([i.ty for i in items]), list(items))
            raise Unsupported(f"slice of {obj.ty}")
        idx = self.eval(sl, st)
        if n == "List":
            return self.list_get(obj, idx, st, line)
        if n == "Dict":
            return self.dict_get(obj, idx, st, line)
        if n == "str":
            return self.str_index(obj, idx, st, line)
        if n == "Tuple":
            if z3.is_int_value(idx.t):
                k = idx.t.as_long()
                if -len(obj.t) <= k < len(obj.t):
                    return obj.t[k]
                st.raise_if(z3.BoolVal(True), "IndexError", line)
                return obj.t[0] if obj.t else NONE_VAL
            return self.tuple_index(obj, idx, st, line)
        if n == "Obj":
            cd = CLASSDEFS.get(obj.ty.args[0])
            if cd and cd.get("record") and idx.ty == STR and z3.is_string_value(idx.t):
                k = idx.t.as_string()
                if k in cd["fields"]:
                    if self.under_construction(obj, st):
                        has = st.read(f"{obj.ty.args[0]}.{k}!has", B, obj.t)
                        st.raise_if(z3.Not(has), "KeyError", line)
                    # else: class invariant of record classes (established by __init__, C13): keys are present
                    fty = parse_type(cd["fields"][k])
                    return from_sort_term(st.read(f"{obj.ty.args[0]}.{k}", sort_of(fty), obj.t), fty)
            r = self.call_method_if_defined(obj, "__getitem__", [idx], st)
            if r is not None:
                return r
        if n == "JV":
            return self.jv_index(obj, idx, st, line)
        if n == "OptTuple":
            st.raise_if(obj.t[0], "TypeError", line)
            return self.get_item(obj.t[1], sl, st, node)
        if n == "SDict":
            if idx.ty == STR and z3.is_string_value(idx.t):
                k = idx.t.as_string()
                if k in obj.t:
                    return obj.t[k]
                st.raise_if(z3.BoolVal(True), "KeyError", line)
                return NONE_VAL
            raise Unsupported("static dict with symbolic key")
        if n == "IntMap":
            return Val(INT, z3.Select(obj.t, idx.t))
        if n == "IntMap2":
            return Val(Ty("IntMap2Row"), (obj.t, idx.t))
        if n == "IntMap2Row":
            return Val(INT, z3.Select(obj.t[0], obj.t[1], idx.t))
        raise Unsupported(f"subscript of {obj.ty}")

    def tuple_index(self, obj, idx, st, line):
        n = len(obj.t)
        st.raise_if(z3.Or(idx.t < -n, idx.t >= n), "IndexError", line)
        i = z3.If(idx.t < 0, idx.t + n, idx.t)
        res = obj.t[-1]
        for k in range(n - 2, -1, -1):
            res = self.merge_vals(i == k, obj.t[k], res)
        return res

    def set_item(self, obj, sl, v, st, node=None):
        line = getattr(node, "lineno", None)
        if obj.ty.name == "Opt":
            obj = self.unopt(obj, st, line, "TypeError")
        n = obj.ty.name
        if isinstance(sl, ast.Slice):
            raise Unsupported("slice store")
        idx = self.eval(sl, st)
        if n == "List":
            return self.list_set(obj, idx, v, st, line)
        if n == "Dict":
            return self.dict_set(obj, idx, v, st)
        if n == "Obj":
            cls = obj.ty.args[0]
            cd = CLASSDEFS.get(cls)
            if cd and cd.get("record") and idx.ty == STR and z3.is_string_value(idx.t):
                k = idx.t.as_string()
                if k in cd["fields"]:
                    fty = parse_type(cd["fields"][k])
                    if fty == DT and v.ty == DT:
                        # class invariant of record datetimes: what is stored is UTC-aware (only the instant is kept)
                        off, aware = v.x.get("off", 0), v.x.get("aware", True)
                        ok = z3.And(off == 0 if not isinstance(off, int) else z3.BoolVal(off == 0),
                                    aware if not isinstance(aware, bool) else z3.BoolVal(aware))
                        if not z3.is_true(z3.simplify(ok)):
                            self.oblige(st, f"invariant:{cls.split('.')[-1]}.{k}-is-utc-aware", ok,
                                        clause="the datetime stored is timezone-aware with UTC offset 0", site=line)
                    st.write(f"{cls}.{k}", sort_of(fty), obj.t, to_sort_term(v, fty))
                    st.write(f"{cls}.{k}!has", B, obj.t, z3.BoolVal(True))
                    if self.write_log is not None:
                        self.write_log.add(f"{cls}.{k}")
                    return
                raise Unsupported(f"record key {k!r} not in classdef of {cls}")
        raise Unsupported(f"subscript store on {obj.ty}")

    # -- specification expressions -------------------------------------------------------------
    def spec_truth(self, text, env, st, old=None):
        """Evaluate a contract clause (string or AST) over env in state st; returns z3 Bool."""
        node = ast.parse(text, mode="eval").body if isinstance(text, str) else text
        s = st.copy()
        s.env = dict(env)
        s.spec = True
        s.guards = []
        s.old = old if old is not None else st.old
        s.frame = self.get_spec_frame() or st.frame
        v = self.eval(node, s)
        return self.truth(v, s)

    def get_spec_frame(self):
        sf = getattr(self, "spec_frame", None)
        if sf is None and getattr(self, "spec_modules", None):
            sf = self.spec_frame = _ModFrame(self.spec_modules[-1])
        return sf

    def spec_val(self, text, env, st, old=None):
        node = ast.parse(text, mode="eval").body if isinstance(text, str) else text
        s = st.copy()
        s.env = dict(env)
        s.spec = True
        s.guards = []
        s.old = old if old is not None else st.old
        s.frame = self.get_spec_frame() or st.frame
        return self.eval(node, s)


class _ModFrame:
    def __init__(self, mod):
        self.module = mod
        self.qualname = mod.name


def _is_pos_const(t):
    return z3.is_int_value(t) and t.as_long() > 0
