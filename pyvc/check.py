"""Check driver: obligations -> verdict -> evidence.  See DESIGN.md section 5 for the protocol.

exit 0 held | 1 VIOLATION (replayed input, or ledger obligation now failing) | 2 undecided | 3 engine crash
"""
from __future__ import annotations
import argparse
import hashlib
import importlib
import json
import os
import subprocess
import sys
import tempfile
import time
import traceback

import z3

from . import front, symexec, solve, model
from .api import CONTRACTS
from .engine import Unsupported, EngineError, ASSUMPTIONS

VERIF = os.path.dirname(os.path.dirname(os.path.abspath(__file__)))
VENV_PY = os.environ.get("PYVC_VENV_PY", "/venv/bin/python")
LEDGER = os.path.join(VERIF, "baseline", "obligations.json")
KNOWN = os.path.join(VERIF, "known_findings.json")


def load_json(path, default):
    try:
        with open(path) as f:
            return json.load(f)
    except FileNotFoundError:
        return default


def rt_call(cmd, spec, timeout=900, script="rt.py"):
    """Run pyvc/rt.py (or another run-time script) under the repository's interpreter, isolated from the
    user's data directories."""
    tmp = tempfile.mkdtemp(prefix="pyvc-rt-")
    try:
        p = os.path.join(tmp, "spec.json")
        with open(p, "w") as f:
            json.dump(spec, f)
        env = dict(os.environ)
        env.update({"XDG_DATA_HOME": tmp, "XDG_CONFIG_HOME": tmp, "XDG_CACHE_HOME": tmp, "HOME": tmp,
                    "PYTHONPATH": VERIF + os.pathsep + front.REPO, "PYVC_REPO": front.REPO,
                    "PYTHONDONTWRITEBYTECODE": "1"})
        argv = [VENV_PY, os.path.join(VERIF, "pyvc", script)] + ([cmd] if cmd else []) + [p]
        try:
            r = subprocess.run(argv, capture_output=True, text=True, timeout=timeout, env=env, cwd=tmp)
        except subprocess.TimeoutExpired:
            # (the code under test may not terminate - e.g. a loop that no longer advances: no verdict from the run-time side,
            #  the deductive side reports the failed termination measure)
            return {"status": "error", "why": f"run-time harness did not finish within {timeout} s"}
        try:
            return json.loads(r.stdout)
        except Exception:
            return {"status": "error", "why": (r.stdout[-500:] + r.stderr[-1500:])}
    finally:
        subprocess.run(["rm", "-rf", tmp])


class Run:
    def __init__(self, prop, tier, seed):
        self.prop = prop
        self.pid = prop["id"]
        self.tier = tier
        self.seed = seed
        self.t0 = time.time()
        self.world = front.World()
        self.functions = []       # per function report
        self.obligations = []
        self.groups = {}
        self.bounded = []
        self.notes = []
        self.violations = []      # dict(obligation, replay, reproduced)
        self.known_matched = []
        self.undecided = []
        self.assumptions = set()
        self.trusted = set()
        self.lemmas = set()
        self.solver_time = 0.0
        self.extra_cov = {}

    # -- generation ----------------------------------------------------------------------------
    def executor(self):
        ex = symexec.Executor(self.world, prop=self.pid)
        ex.spec_modules = [self.world.module(m) for m in self.prop.get("spec_modules", [])]
        ex.model_hook = model.model_inputs
        ex.key_candidates = self.prop.get("key_candidates", [])
        for k, v in self.prop.get("executor_flags", {}).items():
            setattr(ex, k, v)
        return ex

    def generate(self, fspec, contract=None):
        fn = fspec["fn"]
        ckey = fspec.get("contract_key", fn)
        ex = self.executor()
        ex.cur_fn_qual = fn
        c = contract or CONTRACTS[ckey]
        rep = {"function": fn, "contract": ckey, "status": "ok"}
        try:
            fi = self.world.function(fn)
            rep.update(file=os.path.relpath(fi.module.path, "/"), lines=list(fi.lines()), source_sha256=fi.source_sha())
            t = time.time()
            exits = ex.verify_function(fn, contract=c)
            if ckey != fn:
                for ob in ex.obligations:
                    ob.name = ob.name.replace(f"/{fn}/", f"/{fn}[{ckey.split(':')[-1]}]/")
            if fspec.get("runs_as"):
                # the contract is stated for a receiver of a subclass: the function verified must be the one that class's
                # method resolution order finds (an override in the subclass would leave the verified text dead code)
                from . import front as _front
                from .engine import Obligation
                cls_q, mname = fspec["runs_as"].rsplit(".", 1)
                ci = self.world.lookup(cls_q)
                found = ex.find_member(ci, mname, "method") if isinstance(ci, _front.ClassInfo) else None
                same = found is not None and found.qualname == fn
                tagname = f"/{fn}[{ckey.split(':')[-1]}]/" if ckey != fn else f"/{fn}/"
                ob = Obligation(f"{self.pid}{tagname}dispatch:inherited", [], z3.BoolVal(bool(same)), fn, "dispatch",
                                clause=f"{fspec['runs_as']} resolves to {fn} (found: {found.qualname if found is not None else None})")
                ex.obligations.append(ob)
            rep["paths"] = len(exits)
            rep["vcgen_s"] = round(time.time() - t, 3)
            rep["obligations"] = len(ex.obligations)
            # vacuity: the precondition is satisfiable and at least one exit is reachable
            rep["vacuity"] = self.vacuity(ex, exits)
        except Unsupported as e:
            rep["status"] = "unsupported"
            rep["why"] = str(e)
            ex.obligations = []
        except KeyError as e:
            rep["status"] = "missing"
            rep["why"] = str(e)
            ex.obligations = []
        if getattr(ex, "contradictions", None):
            rep["contradictions"] = sorted(set(ex.contradictions))
            self.undecided.append({"obligations": [f"{self.pid}/{fn}/consistency"],
                                   "why": "a callee's postcondition is literally false after a call: " + rep["contradictions"][0]})
        rep["inlined"] = sorted(ex.inlined)
        self.assumptions |= ex.used_assumptions
        self.trusted |= ex.trusted_used
        self.lemmas |= ex.lemmas_used
        self.functions.append(rep)
        for ob in ex.obligations:
            ob.fspec = fspec
        return ex.obligations, rep

    def vacuity(self, ex, exits):
        """Guards against vacuous proofs: the precondition must be satisfiable, and at least one normal
        exit must not be provably unreachable (a planted `assert False` there must NOT be discharged)."""
        if getattr(self, "skip_vacuity", False):
            return {}
        s = z3.Solver()
        s.set("timeout", 3000)
        s.add(*[z3.simplify(h) for h in ex.entry_state.pc])
        pre = str(s.check())
        live = dead = 0
        rets = [o for o in exits if o.status == "return"]
        for k, o in enumerate(rets[:80]):
            if k >= 6 and live > 0:
                break                     # (six exits sampled and one of them not provably unreachable: enough)
            s2 = z3.Solver()
            s2.set("timeout", 700)
            s2.add(*[z3.simplify(h) for h in o.pc])
            if str(s2.check()) == "unsat":
                dead += 1
            else:
                live += 1
        out = {"precondition": pre, "return_exits": len(rets), "exits_not_refuted_unreachable": live,
               "exits_proved_unreachable": dead}
        if pre == "unsat" or (rets and live == 0):
            self.undecided.append({"obligations": [f"{self.pid}/{ex.cur_fn}/vacuity"],
                                   "why": "contract is vacuous (contradictory precondition or no reachable normal exit)"})
        return out

    # -- main ----------------------------------------------------------------------------------
    def run(self):
        for m in self.prop.get("contract_modules", []):
            importlib.import_module(m)
        timeout = self.prop.get("timeout_s", 20) * (3 if self.tier == "thorough" else 1)
        for fspec in self.prop["functions"]:
            if fspec.get("bounded_only"):
                continue
            obs, rep = self.generate(fspec)
            self.obligations.extend(obs)
        t = time.time()
        solve.solve_all(self.obligations, timeout_s=timeout)
        # second pass: what was left open (solver budget hit, e.g. on a loaded machine) is retried alone, with four times
        # the budget and little parallelism, before it counts as undischarged
        open_obs = [o for o in self.obligations if o.result == "unknown"]
        if open_obs and len(open_obs) <= 24:
            # (a handful of open VCs is what a loaded machine produces; dozens mean the proof is gone - no point in waiting)
            self.notes.append(f"{len(open_obs)} path VCs left open by the first pass were retried with a {4 * timeout} s budget")
            solve.solve_all(open_obs, timeout_s=4 * timeout, jobs=8)
        elif open_obs:
            self.notes.append(f"{len(open_obs)} path VCs left open by the first pass; too many for a retry to be the answer")
        self.solver_time = time.time() - t
        self.groups = solve.group(self.obligations)
        if "F3" in self.lemmas:
            self.lemma_f3()
        for extra in self.prop.get("extra", []):
            extra(self)
        self.decide()
        self.crosscheck()

    def crosscheck(self):
        """Run-time contract evaluation on the real functions over sampled small inputs (bounded stand-in and
        sanity guard for the encoder: a clause that fails natively is reported with its input)."""
        seen = set()
        budget = self.prop.get("crosscheck_budget", 150 if self.tier == "quick" else 3000)
        for fspec in self.prop["functions"]:
            key = (fspec["fn"], fspec.get("contract_key"))
            if fspec.get("rt_skip") or key in seen:
                continue
            seen.add(key)
            if any(v for v in self.violations if fspec["fn"] in str(v.get("obligations"))):
                continue
            spec = self.search_spec(fspec, budget=fspec.get("budget", budget) * (1 if self.tier == "quick" else 10))
            res = rt_call("crosscheck", spec)
            if res.get("status") == "ok":
                self.bounded.append({"what": f"run-time contract of {fspec['fn']} [{fspec.get('contract_key', '')}] on the real function",
                                     "bound": spec["scope"], "cases": res.get("valid", 0), "generated": res.get("runs", 0)})
            elif res.get("status") == "mismatch":
                w = res["fails"][0]
                rep = {"property": self.pid, "function": fspec["fn"], "obligations": [f"{self.pid}/{fspec['fn']}/runtime-contract"],
                       "contract_key": fspec.get("contract_key", fspec["fn"]),
                       "contract_modules": self.prop.get("contract_modules", []), "spec_modules": self.prop.get("spec_modules", []),
                       "inputs": w["input"], "observed": w["outcome"], "reproduced": True,
                       "note": "clause violated at run time on the real function"}
                path = self.write_replay(rep)
                self.violations.append({"obligations": rep["obligations"], "replay": path, "reproduced": True,
                                        "failed_clauses": w["outcome"]["failed"]})
            else:
                self.notes.append(f"NOTE crosscheck of {fspec['fn']} not run: {str(res.get('why'))[:200]}")

    def storage_histories(self, focus, backends=None, histories=None, steps=30, what=""):
        """Bounded stand-in for the storage properties: random operation histories on the real back ends against a
        plain reference list (pyvc/storage_rt.py).  A disagreement is reported with the history as replay."""
        histories = histories or (25 if self.tier == "quick" else 400)
        spec = {"mode": "history", "seed": self.seed, "histories": histories, "steps": steps, "focus": focus,
                "backends": backends or ["memory", "sqlite", "peewee"], "max_violations": 3}
        res = rt_call(None, spec, script="storage_rt.py", timeout=3000)
        if res.get("status") != "ok":
            self.notes.append(f"NOTE storage harness error: {str(res.get('why'))[-300:]}")
            self.undecided.append({"obligations": [f"{self.pid}/storage-harness"], "why": "run-time harness failed to run"})
            return res
        self.bounded.append({"what": what or f"random operation histories ({focus}) on the real back ends vs. a reference list",
                             "bound": f"{histories} histories x {len(spec['backends'])} back ends, <= {steps} operations each",
                             "cases": res.get("runs", 0), "operations": res.get("steps", 0)})
        known = [k for k in load_json(KNOWN, []) if k.get("property") == self.pid and k.get("status") == "known"]
        for v in res.get("violations", []):
            first = v["problems"][0]
            kf = next((k for k in known if k.get("backend") == v["backend"] and k.get("op") == first["op"]["op"]), None)
            if kf is not None:
                if kf not in self.known_matched:
                    self.known_matched.append(kf)
                continue
            rep = {"property": self.pid, "kind": "storage-history", "backend": v["backend"], "ops": v["ops"],
                   "problems": v["problems"], "obligations": [f"{self.pid}/{v['backend']}/{first['op']['op']}/reference-model"],
                   "reproduced": True}
            path = self.write_replay(rep)
            self.violations.append({"obligations": rep["obligations"], "replay": path, "reproduced": True})
        return res

    def storage_mode(self, mode, runs=None, what="", backends=None, **kw):
        """Other run-time harness modes of pyvc/storage_rt.py (value fidelity/ownership, crash visibility, heartbeats)."""
        runs = runs or (6 if self.tier == "quick" else 120)
        spec = {"mode": mode, "seed": self.seed, "runs": runs}
        if backends:
            spec["backends"] = backends
        spec.update(kw)
        res = rt_call(None, spec, script="storage_rt.py", timeout=3000)
        if res.get("status") != "ok":
            self.notes.append(f"NOTE storage harness ({mode}) error: {str(res.get('why'))[-300:]}")
            self.undecided.append({"obligations": [f"{self.pid}/storage-harness/{mode}"], "why": "run-time harness failed to run"})
            return res
        self.bounded.append({"what": what or f"storage harness mode {mode} on the real back ends", "bound": f"{runs} seeded runs per back end",
                             "cases": res.get("runs", 0)})
        for v in res.get("violations", []):
            rep = {"property": self.pid, "kind": "storage-mode", "mode": mode, "backend": v["backend"], "seed": v["seed"], "spec": spec,
                   "problems": v["problems"], "obligations": [f"{self.pid}/{v['backend']}/{mode}"], "reproduced": True}
            path = self.write_replay(rep)
            self.violations.append({"obligations": rep["obligations"], "replay": path, "reproduced": True})
        return res

    def query_mode(self, mode, n):
        spec = {"mode": mode, "seed": self.seed, "n": n}
        res = rt_call(None, spec, script="query_rt.py", timeout=3000)
        if res.get("status") != "ok":
            self.undecided.append({"obligations": [f"{self.pid}/query-harness"], "why": "run-time harness failed: " + str(res.get("why"))[-300:]})
            return res
        self.bounded.append({"what": f"query harness mode {mode} on the real aw_query", "bound": f"{n} generated texts", "cases": res.get("runs", 0),
                             "stats": res.get("stats")})
        seen = set()
        for v in res.get("violations", []):
            key = v["problem"].split(" escaped from ")[-1] if " escaped from " in v["problem"] else v["problem"][:40]
            if key in seen:
                continue
            seen.add(key)
            rep = {"property": self.pid, "kind": "query", "mode": mode, "text": v["text"], "problem": v["problem"],
                   "obligations": [f"{self.pid}/aw_query.query/{mode}"], "reproduced": True}
            path = self.write_replay(rep)
            self.violations.append({"obligations": rep["obligations"], "replay": path, "reproduced": True})
        return res

    def lemma_f3(self):
        """The floating-point lemma the VCs of this run rely on is established in this run (pyvc/fplemmas.py)."""
        from . import fplemmas
        r = fplemmas.f3_cells(limit_us=fplemmas.LIMIT_F3_US, step=1)
        p2 = fplemmas.f3_powers_of_two(fplemmas.LIMIT_F3_US)
        neg = fplemmas.f3_cells(limit_us=fplemmas.LIMIT_F3_US, step=1, claim="stored")
        near = fplemmas.f3_cells(limit_us=fplemmas.LIMIT_F3_US, step=1, claim="near")
        smp = fplemmas.f3_sample(20000 if self.tier == "quick" else 2000000, seed=self.seed + 1)
        self.extra_cov.setdefault("lemmas", []).append(
            f"F3 fromtimestamp((T.timestamp()*1000000)/1000000) == T for every whole-microsecond instant from 1970 to 2100 + 31 days: "
            f"binade-split exact rounding in linear arithmetic, {r.get('cells')} cells: {'proved' if r['ok'] else 'FAILED ' + str(r)} ({r['time_s']} s); the "
            f"{p2.get('points')} instants at powers of two (left out of the cells) evaluated under CPython: {'ok' if p2['ok'] else 'FAILED'}; negative control "
            f"('the stored float equals T') {'refuted as it must be' if not neg['ok'] else 'NOT refuted'}; CPython on {smp.get('points')} instants "
            f"(random + next to every binade boundary): {'agrees' if smp['ok'] else 'DISAGREES ' + smp.get('err', '')}")
        self.extra_cov["lemmas"].append(f"F5 |T.timestamp()*1000000 - T| < 1/2 for the same instants (the encoding is strictly increasing): "
                                        f"{'proved' if near['ok'] else 'FAILED ' + str(near)} ({near['time_s']} s, same cells; powers of two evaluated under CPython)")
        good = r["ok"] and p2["ok"] and not neg["ok"] and smp["ok"] and near["ok"]
        self.extra_cov["obligations"] = self.extra_cov.get("obligations", 0) + 1
        self.extra_cov["discharged"] = self.extra_cov.get("discharged", 0) + (1 if good else 0)
        self.extra_cov.setdefault("ledger", {})[f"{self.pid}/lemma:F3"] = r["time_s"]
        if not good:
            self.undecided.append({"obligations": [f"{self.pid}/lemma:F3"], "why": "floating-point lemma F3 not established in this run"})

    def transform_mode(self, mode, n, what):
        """Reference check of a transform on the real function (bounded): pyvc/transform_rt.py."""
        res = rt_call(None, {"mode": mode, "seed": self.seed, "n": n}, script="transform_rt.py", timeout=1200)
        if res.get("status") != "ok":
            self.undecided.append({"obligations": [f"{self.pid}/transform-harness"], "why": "run-time harness failed: " + str(res.get("why"))[-300:]})
            return res
        self.bounded.append({"what": what, "bound": f"{n} random small inputs", "cases": res.get("runs", 0)})
        for v in res.get("violations", [])[:2]:
            rep = {"property": self.pid, "kind": "transform", "mode": mode, "inputs": v["input"], "problem": v["problem"],
                   "obligations": [f"{self.pid}/{mode}/reference"], "reproduced": True}
            path = self.write_replay(rep)
            self.violations.append({"obligations": rep["obligations"], "replay": path, "reproduced": True})
        return res

    def ledger_names(self):
        led = load_json(LEDGER, {})
        return set(k for k in led.get(self.pid, {}).keys() if k != "__sources__")

    def source_fingerprint(self):
        """What the obligations of this property are generated from: the source text of every function verified or
        inlined, the contract modules, and the verifier itself."""
        h = {}
        for f in self.functions:
            if f.get("source_sha256"):
                h[f["function"]] = f["source_sha256"]
            for q in f.get("inlined", []):
                try:
                    h[q] = self.world.function(q).source_sha()
                except Exception:
                    h[q] = "?"
        files = [os.path.join(VERIF, m.replace(".", "/") + ".py") for m in self.prop.get("contract_modules", [])]
        files += sorted(os.path.join(VERIF, "pyvc", x) for x in os.listdir(os.path.join(VERIF, "pyvc")) if x.endswith(".py"))
        for p in files:
            try:
                with open(p, "rb") as fh:
                    h[os.path.relpath(p, VERIF)] = hashlib.sha256(fh.read()).hexdigest()
            except OSError:
                h[os.path.relpath(p, VERIF)] = "?"
        return h

    def same_sources_as_ledger(self):
        led = load_json(LEDGER, {}).get(self.pid, {}).get("__sources__")
        return bool(led) and led == self.source_fingerprint()

    def decide(self):
        ledger = self.ledger_names()
        known = [k for k in load_json(KNOWN, []) if k.get("property") == self.pid and k.get("status") == "known"]
        failed = {n: obs for n, obs in self.groups.items() if solve.status_of(obs) != "discharged"}
        unsupported = [f for f in self.functions if f["status"] != "ok"]
        # group failed obligations by function: one replay search per function
        by_fn = {}
        for n, obs in failed.items():
            by_fn.setdefault(id(obs[0].fspec), (obs[0].fspec, []))[1].append((n, obs))
        for _, (fspec, items) in by_fn.items():
            self.handle_failed(fspec, items, ledger, known)
        for f in unsupported:
            self.handle_unsupported(f, ledger)

    def search_spec(self, fspec, seeds=None, budget=None):
        return {
            "function": fspec.get("rt_fn", fspec["fn"]), "contract_key": fspec.get("contract_key", fspec["fn"]),
            "contract_modules": self.prop.get("contract_modules", []), "spec_modules": self.prop.get("spec_modules", []),
            "seed": self.seed, "budget": budget or (4000 if self.tier == "quick" else 40000),
            "scope": fspec.get("scope", self.prop.get("scope", {})), "seeds": seeds or [],
        }

    def handle_failed(self, fspec, items, ledger, known):
        names = [n for n, _ in items]
        # 1. candidate inputs from solver models
        seeds = []
        for n, obs in items:
            for ob in obs:
                if ob.result == "sat" and ob.model and not any("$error" in str(v) for v in ob.model.values()):
                    seeds.append(ob.model)
        res = rt_call("search", self.search_spec(fspec, seeds=seeds[:6]))
        solver_out = [{"obligation": n, "paths": [{"result": ob.result, "time_s": round(ob.time, 3), "backend": ob.backend,
                                                   "clause": ob.clause, "site_line": ob.site} for ob in obs]}
                      for n, obs in items]
        wit = res.get("witness") if res.get("status") == "found" else None
        if res.get("status") == "error":
            self.notes.append(f"RT-ERROR while searching inputs for {fspec['fn']}: {str(res.get('why'))[:300]}")
        # known findings: re-prove under the exclusion, see known_finding()
        kf = [k for k in known if k.get("function") == fspec["fn"]]
        if kf:
            remaining = self.known_finding(fspec, kf, names)
            if remaining is not None and not remaining:
                for k in kf:
                    self.known_matched.append(k)
                return
            if remaining is not None:
                names = remaining
                items = [(n, o) for n, o in items if n in remaining]
        rep = {"property": self.pid, "function": fspec["fn"], "obligations": names, "solver": solver_out,
               "contract_key": fspec.get("contract_key", fspec["fn"]),
               "contract_modules": self.prop.get("contract_modules", []), "spec_modules": self.prop.get("spec_modules", []),
               "search": {k: v for k, v in res.items() if k != "witness"}}
        if wit:
            rep["inputs"] = wit["input"]
            rep["observed"] = wit["outcome"]
            rep["reproduced"] = True
            path = self.write_replay(rep)
            self.violations.append({"obligations": names, "replay": path, "reproduced": True,
                                    "failed_clauses": wit["outcome"]["failed"]})
            return
        rep["reproduced"] = False
        in_ledger = [n for n in names if n in ledger]
        if in_ledger and all(ob.result != "sat" for _, obs in items for ob in obs) and self.same_sources_as_ledger():
            # nothing the proof is generated from has changed since the ledger was written and no counter-model
            # exists: the solvers ran out of budget - undecided, not a violation
            self.undecided.append({"obligations": in_ledger, "why": "solver budget exhausted on an obligation discharged before, "
                                   "with the function, its callees' contracts and the verifier unchanged (no counter-model)"})
            return
        if in_ledger:
            path = self.write_replay(rep)
            self.violations.append({"obligations": in_ledger, "replay": path, "reproduced": False})
        else:
            self.undecided.append({"obligations": names, "why": "undischarged and not in the ledger of obligations "
                                   "discharged on the baseline tree"})

    def known_finding(self, fspec, kfs, failed_names):
        """Re-generate the function's obligations under the negated exclusion predicates of the listed
        known findings; returns the names still failing (None if it cannot be decided)."""
        ckey = fspec.get("contract_key", fspec["fn"])
        c = dict(CONTRACTS[ckey])
        c["requires"] = list(c["requires"]) + [f"not ({k['exclude']})" for k in kfs if k.get("exclude")]
        if len(c["requires"]) == len(CONTRACTS[ckey]["requires"]):
            return None
        try:
            saved = self.functions
            self.functions = []
            obs, _ = self.generate(fspec, contract=c)
            self.functions = saved
        except Exception:
            return None
        solve.solve_all(obs, timeout_s=self.prop.get("timeout_s", 20))
        g = solve.group(obs)
        return [n for n, o in g.items() if solve.status_of(o) != "discharged"]

    def handle_unsupported(self, f, ledger):
        fspec = next(s for s in self.prop["functions"] if s["fn"] == f["function"])
        prefix = f"{self.pid}/{f['function']}"
        had = [n for n in ledger if n.startswith(prefix + "/") or n.startswith(prefix + "[")]
        res = rt_call("search", self.search_spec(fspec))
        wit = res.get("witness") if res.get("status") == "found" else None
        if wit:
            rep = {"property": self.pid, "function": f["function"], "obligations": [prefix + "/(stale contract)"],
                   "contract_key": fspec.get("contract_key", fspec["fn"]),
                   "contract_modules": self.prop.get("contract_modules", []), "spec_modules": self.prop.get("spec_modules", []),
                   "inputs": wit["input"], "observed": wit["outcome"], "reproduced": True, "why_unsupported": f.get("why")}
            path = self.write_replay(rep)
            self.violations.append({"obligations": rep["obligations"], "replay": path, "reproduced": True})
        elif fspec.get("bounded_ok"):
            self.bounded.append({"what": f"run-time contract of {f['function']} (function outside the verified subset: {f.get('why')})",
                                 "bound": self.search_spec(fspec)["scope"], "cases": res.get("valid", 0)})
        else:
            self.notes.append(f"NOTE {f['function']}: proof not re-established on this revision ({f.get('why')}); "
                              f"bounded search over {res.get('valid', 0)} inputs found no violation")
            self.undecided.append({"obligations": had or [prefix], "why": "function outside the verified subset: " + str(f.get("why"))})

    def write_replay(self, rep):
        out = os.environ.get("PYVC_OUT_DIR", VERIF)      # scratch runs (mutation sweep) keep their files out of /verif
        os.makedirs(os.path.join(out, "replays"), exist_ok=True)
        h = hashlib.sha256(json.dumps(rep, sort_keys=True, default=str).encode()).hexdigest()[:10]
        path = os.path.join("replays", f"{self.pid}-{h}.json")
        with open(os.path.join(out, path), "w") as f:
            json.dump(rep, f, indent=1, default=str)
        return path

    # -- evidence ------------------------------------------------------------------------------
    def evidence(self, status):
        groups = self.groups
        n_ob = len(groups)
        n_dis = sum(1 for o in groups.values() if solve.status_of(o) == "discharged")
        backends = {}
        slowest = ("", 0.0)
        for n, obs in groups.items():
            for ob in obs:
                backends[ob.backend or "?"] = backends.get(ob.backend or "?", 0) + 1
                if ob.time > slowest[1]:
                    slowest = (n, ob.time)
        samples = []
        for n, obs in list(groups.items())[:3]:
            ob = obs[0]
            samples.append({"obligation": n, "clause": ob.clause, "paths": len(obs), "result": solve.status_of(obs),
                            "smt2_head": _smt2_head(ob)})
        level = self.prop.get("level", "other")
        trusted = sorted(self.trusted | set(self.prop.get("trusted", [])))
        assumptions = sorted(self.assumptions | set(self.prop.get("assumptions", [])))
        cov = {
            "obligations": n_ob + self.extra_cov.get("obligations", 0),
            "discharged": n_dis + self.extra_cov.get("discharged", 0),
            "path_level_vcs": len(self.obligations),
            "checker_cmd": f"./bin/check {self.pid} --tier {self.tier}",
            "trusted_base": trusted + [f"{a}: {ASSUMPTIONS.get(a, self.prop.get('assumption_text', {}).get(a, ''))}" for a in assumptions],
            "functions_under_contract": self.functions,
            "backends": backends,
            "solver_time_s": round(self.solver_time, 2),
            "slowest": {"obligation": slowest[0], "s": round(slowest[1], 3)},
            "bounded_checks": self.bounded,
            "lemmas": sorted(self.lemmas) + self.extra_cov.get("lemmas", []),
            "dropped_by_frontend": front.DROPPED,
            "samples": samples,
            "undecided": self.undecided,
            "known_findings_matched": [k.get("what") for k in self.known_matched],
            "files_read": self.world.files_read,
            "explanation": self.prop.get("explanation", ""),
            "notes": self.notes,
        }
        cov.update({k: v for k, v in self.extra_cov.items() if k not in ("obligations", "discharged", "lemmas")})
        ev = {"property_id": self.pid, "tier": self.tier, "seed": self.seed, "level": level, "coverage": cov,
              "assumptions": [f"{a}: {ASSUMPTIONS.get(a, self.prop.get('assumption_text', {}).get(a, ''))}" for a in assumptions],
              "wall_s": round(time.time() - self.t0, 2), "violations": len(self.violations), "status": status}
        out = os.environ.get("PYVC_OUT_DIR", VERIF)
        os.makedirs(os.path.join(out, "evidence"), exist_ok=True)
        with open(os.path.join(out, "evidence", f"{self.pid}.json"), "w") as f:
            json.dump(ev, f, indent=1, default=str)
        return ev


def _smt2_head(ob):
    try:
        s = z3.Solver()
        s.add(z3.simplify(ob.formula()))
        return s.to_smt2()[:1500]
    except Exception:
        return ""


def load_prop(pid):
    mod = importlib.import_module(f"props.{pid}")
    return mod.PROP


def main(argv=None):
    ap = argparse.ArgumentParser()
    ap.add_argument("prop")
    ap.add_argument("--tier", default=os.environ.get("VERIF_TIER", "quick"))
    ap.add_argument("--replay")
    ap.add_argument("--update-ledger", action="store_true")
    a = ap.parse_args(argv)
    seed = int(os.environ.get("VERIF_SEED", "0") or 0)
    tier = a.tier if a.tier in ("quick", "thorough") else "quick"
    os.chdir(VERIF)
    sys.path.insert(0, VERIF)
    if a.replay:
        return replay(a.prop, a.replay)
    try:
        prop = load_prop(a.prop)
        run = Run(prop, tier, seed)
        run.run()
    except Exception:
        traceback.print_exc()
        print(f"ENGINE-ERROR property={a.prop}")
        return 3
    for n in run.notes:
        print(n)
    for k in run.known_matched:
        print(f"KNOWN-FINDING: property={run.pid} {k.get('what')}")
    status = "held"
    code = 0
    if run.violations:
        status, code = "violation", 1
        for v in run.violations:
            tail = "" if v["reproduced"] else " no-failing-input-found"
            print(f"VIOLATION property={run.pid} replay={v['replay']} obligations={','.join(v['obligations'][:4])}{tail}")
    elif run.undecided:
        status, code = "undecided", 2
        for u in run.undecided:
            print(f"UNDECIDED property={run.pid} {u['obligations'][:4]} {u['why']}")
    ev = run.evidence(status)
    if a.update_ledger and code == 0:
        led = load_json(LEDGER, {})
        led[run.pid] = {n: round(max(o.time for o in obs), 3) for n, obs in run.groups.items()}
        led[run.pid]["__sources__"] = run.source_fingerprint()
        led[run.pid].update(run.extra_cov.get("ledger", {}))
        os.makedirs(os.path.dirname(LEDGER), exist_ok=True)
        with open(LEDGER, "w") as f:
            json.dump(led, f, indent=1, sort_keys=True)
    c = ev["coverage"]
    print(f"{run.pid} {status}: {c['discharged']}/{c['obligations']} obligations discharged "
          f"({c['path_level_vcs']} path VCs, solver {c['solver_time_s']} s), {len(run.bounded)} bounded checks, "
          f"wall {ev['wall_s']} s")
    return code


def replay(pid, path):
    with open(path) as f:
        rep = json.load(f)
    if rep.get("kind") == "storage-history":
        res = rt_call(None, {"mode": "replay", "backend": rep["backend"], "ops": rep["ops"]}, script="storage_rt.py")
        print(json.dumps(res, indent=1, default=str)[:4000])
        return 1 if res.get("violations") else 0
    if rep.get("kind") == "storage-mode":
        spec = dict(rep["spec"])
        spec.update({"backends": [rep["backend"]], "runs": 1, "seed_exact": rep["seed"]})
        res = rt_call(None, spec, script="storage_rt.py")
        print(json.dumps(res, indent=1, default=str)[:4000])
        return 1 if res.get("violations") else 0
    if rep.get("kind") == "query":
        res = rt_call(None, {"mode": rep["mode"], "replay_text": rep["text"]}, script="query_rt.py")
        print(json.dumps(res, indent=1, default=str)[:4000])
        return 1 if res.get("violations") else 0
    if rep.get("kind") == "transform":
        res = rt_call(None, {"mode": rep["mode"], "replay": rep["inputs"]}, script="transform_rt.py")
        print(json.dumps(res, indent=1, default=str)[:4000])
        return 1 if res.get("violations") else 0
    if "inputs" not in rep:
        print(json.dumps({"reproduced": False, "why": "replay file carries no input (no-failing-input-found)",
                          "obligations": rep.get("obligations")}))
        return 0
    res = rt_call("replay", rep)
    print(json.dumps(res, indent=1, default=str)[:4000])
    return 1 if res.get("reproduced") else 0


if __name__ == "__main__":
    sys.exit(main())
