"""Run-time reference-model harness for the storage back ends (runs under /venv/bin/python on the real code).

Bounded stand-in and replay vehicle for the storage properties (C01-C07, C12, C18): random or given operation
histories are applied to a real back end (memory / sqlite / peewee on temporary files) and to a plain per-bucket
reference list; after every operation the observable contents must agree.  It never proves anything; it confirms
refutations and covers the back ends / clauses the deductive layer does not reach.

usage: storage_rt.py SPEC.json     (JSON result on stdout)
spec: {"mode": "history"|"replay", "backend": ..., "focus": "C02", "seed": n, "histories": n, "steps": n, "ops": [...]}
"""
from __future__ import annotations
import copy
import json
import os
import random
import shutil
import sys
import tempfile
import traceback
from datetime import datetime, timedelta, timezone

REPO = os.environ.get("PYVC_REPO", "/repo")
if REPO not in sys.path:
    sys.path.insert(0, REPO)

EPOCH = datetime(1970, 1, 1, tzinfo=timezone.utc)
BASE = 1577836800 * 1000000
MS = 1000


def dt(us):
    return EPOCH + timedelta(microseconds=us)


def us(d):
    return (d - EPOCH) // timedelta(microseconds=1)


def tdus(td):
    return td // timedelta(microseconds=1)


# ---------------------------------------------------------------------------------------------------------
class Ref:
    """Reference model: bucket id -> {"meta": {...}, "events": {model id: [ts_us, dur_us, data]}}"""

    def __init__(self):
        self.b = {}
        self.next_id = 1

    def create(self, bid, meta):
        self.b[bid] = {"meta": meta, "events": {}}

    def insert(self, bid, ev):
        i = self.next_id
        self.next_id += 1
        self.b[bid]["events"][i] = [ev[0], ev[1], copy.deepcopy(ev[2])]
        return i

    def newest(self, bid):
        evs = self.b[bid]["events"]
        if not evs:
            return None
        m = max(v[0] for v in evs.values())
        c = [i for i, v in evs.items() if v[0] == m]
        return c if len(c) > 1 else c[0]


class Harness:
    def __init__(self, backend, tmp, lazy=True):
        from aw_datastore import Datastore
        from aw_datastore.storages import MemoryStorage, SqliteStorage, PeeweeStorage
        self.backend = backend
        self.tmp = tmp
        self.path = os.path.join(tmp, backend + ".db")
        if backend == "memory":
            self.ds = Datastore(MemoryStorage, testing=True)
        elif backend == "sqlite":
            self.ds = Datastore(SqliteStorage, testing=True, filepath=self.path, enable_lazy_commit=lazy)
        elif backend == "peewee":
            self.ds = Datastore(PeeweeStorage, testing=True, filepath=self.path)
        else:
            raise ValueError(backend)
        self.ref = Ref()
        self.idmap = {}        # (bucket, model id) -> backend id
        self.log = []

    # ---- helpers ------------------------------------------------------------------------------------
    def mk_event(self, ev, eid=None):
        from aw_core.models import Event
        return Event(id=eid, timestamp=dt(ev[0]), duration=timedelta(microseconds=ev[1]), data=copy.deepcopy(ev[2]))

    def dump(self, bid):
        """Observable content of a bucket on the real back end: {backend id: (ts, dur, data)}"""
        out = {}
        for e in self.ds[bid].get(-1):
            out[e.id] = (us(e.timestamp), tdus(e.duration), e.data)
        return out

    def compare(self, what):
        """-> list of discrepancies between back end and reference."""
        bad = []
        listed = self.ds.buckets()
        if set(listed.keys()) != set(self.ref.b.keys()):
            bad.append(f"{what}: bucket set {sorted(listed.keys())} != {sorted(self.ref.b.keys())}")
        for bid, rb in self.ref.b.items():
            if bid not in listed:
                continue
            try:
                real = self.dump(bid)
            except Exception as e:
                bad.append(f"{what}: reading bucket {bid} raised {e!r}")
                continue
            exp = {self.idmap.get((bid, i), ("?", i)): tuple(v) for i, v in rb["events"].items()}
            if len(real) != len(rb["events"]):
                bad.append(f"{what}: bucket {bid} holds {len(real)} events, reference {len(rb['events'])}")
            for k, v in exp.items():
                if k not in real:
                    bad.append(f"{what}: bucket {bid} lacks event id {k} {v}")
                elif (real[k][0], real[k][1]) != (v[0], v[1]) or real[k][2] != v[2]:
                    bad.append(f"{what}: bucket {bid} event {k} is {real[k]}, reference {v}")
            for k in real:
                if k not in exp:
                    bad.append(f"{what}: bucket {bid} has unexpected event id {k} {real[k]}")
            # lookup by id and count agree with the listing
            for k, v in list(real.items())[:3]:
                g = self.ds[bid].get_by_id(k)
                if g is None or (us(g.timestamp), tdus(g.duration), g.data) != v:
                    bad.append(f"{what}: bucket {bid} get_by_id({k}) -> {g}, listing says {v}")
            cnt = self.ds[bid].get_eventcount()
            if cnt != len(real):
                bad.append(f"{what}: bucket {bid} get_eventcount() = {cnt}, listing has {len(real)}")
            m = self.ds[bid].metadata()
            for f in ("id", "type", "client", "hostname", "data"):
                if m.get(f) != rb["meta"].get(f):
                    bad.append(f"{what}: bucket {bid} metadata {f} = {m.get(f)!r}, reference {rb['meta'].get(f)!r}")
            if rb["meta"].get("name") is not None and m.get("name") != rb["meta"]["name"]:
                bad.append(f"{what}: bucket {bid} metadata name = {m.get('name')!r}, reference {rb['meta']['name']!r}")
        return bad

    # ---- operations ----------------------------------------------------------------------------------
    def apply(self, op):
        k = op["op"]
        bid = op.get("bucket")
        if k == "create":
            meta = {"id": bid, "type": op.get("type", "t"), "client": op.get("client", "c"), "hostname": op.get("hostname", "h"),
                    "name": op.get("name"), "data": op.get("data") or {}}
            self.ds.create_bucket(bid, meta["type"], meta["client"], meta["hostname"], created=dt(op.get("created", BASE)),
                                  name=op.get("name"), data=copy.deepcopy(op.get("data")))
            self.ref.create(bid, meta)
        elif k == "insert":
            ev = op["event"]
            r = self.ds[bid].insert(self.mk_event(ev))
            i = self.ref.insert(bid, ev)
            self.idmap[(bid, i)] = r.id
        elif k == "insert_many":
            before = set(self.dump(bid).keys())
            evs = []
            for item in op["events"]:
                if item.get("model_id") is not None:
                    evs.append(self.mk_event(item["event"], self.idmap[(bid, item["model_id"])]))
                else:
                    evs.append(self.mk_event(item["event"]))
            self.ds[bid].insert(evs)
            after = self.dump(bid)
            new_real = sorted(set(after.keys()) - before)
            fresh = []
            for item in op["events"]:
                if item.get("model_id") is not None:
                    self.ref.b[bid]["events"][item["model_id"]] = list(copy.deepcopy(item["event"]))
                else:
                    fresh.append(self.ref.insert(bid, item["event"]))
            # match new ids by content
            pool = list(new_real)
            for i in fresh:
                v = tuple(self.ref.b[bid]["events"][i])
                hit = next((r for r in pool if (after[r][0], after[r][1]) == (v[0], v[1]) and after[r][2] == v[2]), None)
                if hit is not None:
                    pool.remove(hit)
                    self.idmap[(bid, i)] = hit
        elif k == "replace":
            i = op["model_id"]
            self.ds[bid].replace(self.idmap[(bid, i)], self.mk_event(op["event"]))
            self.ref.b[bid]["events"][i] = list(copy.deepcopy(op["event"]))
        elif k == "replace_foreign":
            # C04: an id that belongs to another bucket
            ob, i = op["other_bucket"], op["model_id"]
            try:
                self.ds[bid].replace(self.idmap[(ob, i)], self.mk_event(op["event"]))
            except Exception:
                pass
            # either rejected or affects `bid` only: other buckets are compared strictly, `bid` is re-synchronised
            self.resync(bid)
        elif k == "insert_foreign":
            ob, i = op["other_bucket"], op["model_id"]
            try:
                self.ds[bid].insert(self.mk_event(op["event"], self.idmap[(ob, i)]))
            except Exception:
                pass
            self.resync(bid)
        elif k == "delete_foreign":
            ob, i = op["other_bucket"], op["model_id"]
            try:
                self.ds[bid].delete(self.idmap[(ob, i)])
            except Exception:
                pass
            self.resync(bid)
        elif k == "replace_last":
            # the reference rewrites exactly the event a limit-1 read returns immediately before
            last = self.ds[bid].get(1)
            self.ds[bid].replace_last(self.mk_event(op["event"]))
            inv = {v: k_ for k_, v in self.idmap.items() if k_[0] == bid}
            n = inv[last[0].id][1]
            self.ref.b[bid]["events"][n] = list(copy.deepcopy(op["event"]))
            op["_limit1_id"] = last[0].id if last else None
        elif k == "delete":
            i = op["model_id"]
            r = self.ds[bid].delete(self.idmap.get((bid, i), op.get("raw_id", 10 ** 9)))
            if i in self.ref.b[bid]["events"]:
                del self.ref.b[bid]["events"][i]
                if not r:
                    return [f"delete of live event returned {r!r}"]
            elif r:
                return [f"delete of a never-existing id returned {r!r}"]
        elif k == "update_bucket":
            kw = {f: op[f] for f in ("type_id", "client", "hostname", "name", "data") if op.get(f) is not None}
            self.ds.update_bucket(bid, **kw)
            m = self.ref.b[bid]["meta"]
            for f, mf in (("type_id", "type"), ("client", "client"), ("hostname", "hostname"), ("name", "name"), ("data", "data")):
                if op.get(f) is not None:            # a field supplied replaces the stored one (also an empty data table)
                    m[mf] = copy.deepcopy(op[f])
        elif k == "delete_bucket":
            self.ds.delete_bucket(bid)
            for key in [x for x in self.idmap if x[0] == bid]:
                del self.idmap[key]
            del self.ref.b[bid]
        elif k == "missing":
            return self.missing_bucket(op["name"])
        elif k == "window":
            return self.window(op)
        else:
            raise ValueError(k)
        return []

    def resync(self, bid):
        """Make the reference follow the back end for bucket `bid` (used after operations whose effect on the
        addressed bucket is unspecified); other buckets are untouched and still compared strictly."""
        real = self.dump(bid)
        self.ref.b[bid]["events"] = {}
        for key in [x for x in self.idmap if x[0] == bid]:
            del self.idmap[key]
        for rid, v in real.items():
            i = self.ref.insert(bid, [v[0], v[1], v[2]])
            self.idmap[(bid, i)] = rid

    def missing_bucket(self, name):
        bad = []
        probes = [("lookup", lambda: self.ds[name], KeyError),
                  ("update", lambda: self.ds.update_bucket(name, client="x"), ValueError),
                  ("delete", lambda: self.ds.delete_bucket(name), ValueError)]
        # in any order: each of them alone must change nothing (e.g. must not disturb writes that are still buffered)
        k = sum(ord(c) for c in name) + len(self.idmap)
        probes = probes[k % 3:] + probes[:k % 3]
        # a write that is still buffered when the probes run (nothing is read in between): it must survive them
        if self.ref.b:
            bid0 = sorted(self.ref.b.keys())[0]
            ev = [BASE + (k % 7) * MS, (k % 3) * MS, {"probe": k}]
            r0 = self.ds[bid0].insert(self.mk_event(ev))
            self.idmap[(bid0, self.ref.insert(bid0, ev))] = r0.id
        for what, f, exc in probes:
            try:
                f()
                bad.append(f"{what} of missing bucket {name!r} did not raise")
            except exc:
                pass
            except Exception as e:
                bad.append(f"{what} of missing bucket {name!r} raised {type(e).__name__}, expected {exc.__name__}")
        from aw_datastore.datastore import Bucket
        try:
            Bucket(self.ds, name).metadata()
            bad.append(f"metadata of missing bucket {name!r} did not raise")
        except ValueError:
            pass
        except Exception as e:
            bad.append(f"metadata of missing bucket {name!r} raised {type(e).__name__}, expected ValueError")
        return bad

    def window(self, op):
        """C03: time-window read against the reference, tolerance 2 ms at the edges."""
        bid = op["bucket"]
        tz = timezone(timedelta(minutes=op.get("tz_min", 0)))
        start = dt(op["start"]).astimezone(tz) if op.get("start") is not None else None
        end = dt(op["end"]).astimezone(tz) if op.get("end") is not None else None
        limit = op.get("limit", -1)
        TOL = 2 * MS
        got = self.ds[bid].get(limit, start, end)
        evs = self.ref.b[bid]["events"]
        inv = {v: k_[1] for k_, v in self.idmap.items() if k_[0] == bid}
        s = op.get("start")
        e = op.get("end")

        def rel(v):
            """'in' / 'out' / 'edge'"""
            st_, en_ = v[0], v[0] + v[1]
            lo_ok = s is None or en_ >= s
            hi_ok = e is None or st_ <= e
            near = (s is not None and abs(en_ - s) <= TOL) or (e is not None and abs(st_ - e) <= TOL)
            if near:
                return "edge"
            return "in" if (lo_ok and hi_ok) else "out"
        bad = []
        ids = [g.id for g in got]
        ts = [us(g.timestamp) for g in got]
        clipped = self.backend == "peewee"
        if any(ts[i] < ts[i + 1] for i in range(len(ts) - 1)) and not clipped:
            bad.append(f"window {op}: not ordered by timestamp descending: {ts}")
        must = [i for i, v in evs.items() if rel(v) == "in"]
        may = [i for i, v in evs.items() if rel(v) in ("in", "edge")]
        got_model = [inv.get(i) for i in ids]
        for g in got_model:
            if g is None or g not in may:
                bad.append(f"window {op}: returned event {g} lies outside the window")
        if limit == 0:
            if got:
                bad.append(f"window {op}: limit 0 returned {len(got)} events")
        elif limit < 0:
            for m in must:
                if m not in got_model:
                    bad.append(f"window {op}: event {m} {evs[m]} intersects the window but is missing")
        else:
            if len(got) > limit:
                bad.append(f"window {op}: more than limit events")
            if len(got) < min(limit, len(must)):
                bad.append(f"window {op}: {len(got)} events returned, at least {min(limit, len(must))} expected")
            # keeps the newest: nothing omitted is strictly newer (by > tolerance) than something returned
            if got and not clipped:
                oldest = min(evs[g][0] for g in got_model if g in evs)
                for m in must:
                    if m not in got_model and evs[m][0] > oldest + TOL:
                        bad.append(f"window {op}: omitted event {m} (ts {evs[m][0]}) is newer than a returned one (ts {oldest})")
        cnt = self.ds[bid].get_eventcount(start, end)
        if not (len(must) <= cnt <= len(may)):
            bad.append(f"window {op}: get_eventcount = {cnt}, between {len(must)} and {len(may)} expected")
        if clipped:
            for g in got:
                m = inv.get(g.id)
                if m in evs:
                    v = evs[m]
                    cs = max(v[0], s - (s % MS)) if s is not None else v[0]
                    ce = min(v[0] + v[1], (e - e % MS) + MS) if e is not None else v[0] + v[1]
                    if abs(us(g.timestamp) - cs) > TOL or abs(us(g.timestamp) + tdus(g.duration) - max(ce, cs)) > TOL or g.data != v[2]:
                        bad.append(f"window {op}: clipped event {g} is not stored event {v} cut to the window")
        return bad


# ---------------------------------------------------------------------------------------------------------
DATA = [{}, {"a": 1}, {"a": 2}, {"k": "ü\"'", "f": 1.5, "n": None, "l": [1, {"x": "y"}]}]


class OpGen:
    def __init__(self, rng, focus):
        self.rng = rng
        self.focus = focus

    def event(self):
        r = self.rng
        grid = r.choice([6, 6, 20])
        ts = BASE + r.randint(0, grid) * MS
        dur = r.choice([0, 0, 1, 2, 3, 5, 1000]) * MS
        if self.focus == "C03" and r.random() < 0.3:
            dur = r.choice([3600, 12 * 3600, 23 * 3600, 86400 - 1]) * 10 ** 6 + r.randint(0, 999) * MS      # up to 24 h long
        if self.focus == "C01":
            ts = r.randint(0, 4102444800 * 1000) * MS
            dur = r.choice([0, 1, 999999, 1000001, r.randint(0, 30 * 86400 * 10 ** 6)])
        return [ts, dur, copy.deepcopy(r.choice(DATA))]

    def next(self, h):
        r = self.rng
        buckets = list(h.ref.b.keys())
        if len(buckets) < 2 or (r.random() < 0.05 and len(buckets) < 4):
            self.counter = getattr(self, "counter", 0) + 1
            name = "b%d" % self.counter
            return {"op": "create", "bucket": name, "type": r.choice(["t", "u"]), "client": "c", "hostname": r.choice(["h", "ü"]),
                    "name": r.choice([None, "nm"]), "data": r.choice([None, {"k": "v"}, {"n": {"m": 1}}]),
                    "created": BASE + r.randint(0, 10 ** 9) * MS}
        bid = r.choice(buckets)
        live = list(h.ref.b[bid]["events"].keys())
        x = r.random()
        f = self.focus
        if f == "C03" and live and x > 0.45:
            x = 0.95                      # window reads
        elif f == "C05" and x > 0.5:
            x = r.choice([0.81, 0.87, 0.90, 0.90, 0.1])   # bucket lifecycle
        elif f in ("C02", "C07", "C01") and (0.72 <= x < 0.80 or x >= 0.92):
            x = r.random() * 0.72         # no foreign ids, no window reads
        if x < 0.28 or not live:
            return {"op": "insert", "bucket": bid, "event": self.event()}
        if x < 0.38:
            items = []
            for _ in range(r.randint(0, 3)):
                if live and r.random() < 0.4:
                    items.append({"model_id": r.choice(live), "event": self.event()})
                else:
                    items.append({"event": self.event()})
            seen = set()
            items = [it for it in items if it.get("model_id") is None or (it["model_id"] not in seen and not seen.add(it["model_id"]))]
            return {"op": "insert_many", "bucket": bid, "events": items}
        if x < 0.48:
            return {"op": "replace", "bucket": bid, "model_id": r.choice(live), "event": self.event()}
        if x < 0.62:
            return {"op": "replace_last", "bucket": bid, "event": self.event()}
        if x < 0.72:
            if r.random() < 0.3:
                return {"op": "delete", "bucket": bid, "model_id": 10 ** 6 + r.randint(0, 9), "raw_id": 10 ** 6 + r.randint(0, 9)}
            return {"op": "delete", "bucket": bid, "model_id": r.choice(live)}
        if x < 0.80 and self.focus in ("C04", "all"):
            others = [(b, i) for b in buckets if b != bid for i in h.ref.b[b]["events"]]
            if others:
                ob, i = r.choice(others)
                return {"op": r.choice(["replace_foreign", "insert_foreign", "delete_foreign"]), "bucket": bid, "other_bucket": ob,
                        "model_id": i, "event": self.event()}
        if x < 0.86:
            return {"op": "update_bucket", "bucket": bid, "client": r.choice([None, "c2"]), "hostname": r.choice([None, "h2"]),
                    "type_id": r.choice([None, "t2"]), "name": r.choice([None, "n2"]), "data": r.choice([None, {"z": 1}, {}, {"n": {"m": []}}])}
        if x < 0.89 and len(buckets) > 2:
            return {"op": "delete_bucket", "bucket": bid}
        if x < 0.92:
            return {"op": "missing", "name": "nope%d" % r.randint(0, 3)}
        s = BASE + r.randint(-2, 22) * MS + r.choice([0, 0, 1, 499, 999])
        if r.random() < 0.25:
            s = BASE + r.randint(0, 26) * 3600 * 10 ** 6 + r.randint(0, 5) * MS     # hours away: long events matter
        e = s + r.choice([0, 0, 1, 2, 5, 30]) * MS + r.choice([0, 0, 1, 500])
        return {"op": "window", "bucket": bid, "start": r.choice([s, s, None]), "end": r.choice([e, e, None]),
                "limit": r.choice([-1, -1, 0, 1, 2, 5]), "tz_min": r.choice([0, 0, 60, 330, 840, -480, -720])}


def run_history(backend, ops, tmp, stop_at_first=True):
    h = Harness(backend, tmp)
    problems = []
    done = []
    try:
        for n, op in enumerate(ops):
            done.append(op)
            try:
                bad = h.apply(op) or []
            except Exception as e:
                if op["op"] == "update_bucket" and isinstance(e, ValueError) and not any(op.get(f) is not None for f in ("type_id", "client", "hostname", "name", "data")):
                    bad = []
                    continue
                bad = [f"operation raised {type(e).__name__}: {e} :: {traceback.format_exc()[-300:]}"]
            bad = bad + h.compare(f"after op {n} {op['op']}")
            if bad:
                problems.append({"step": n, "op": op, "problems": bad[:6]})
                if stop_at_first:
                    break
    finally:
        close(h)
    return problems, done


def close(h):
    try:
        st = h.ds.storage_strategy
        if hasattr(st, "conn"):
            st.conn.close()
        if hasattr(st, "db") and hasattr(st.db, "close"):
            st.db.close()
    except Exception:
        pass


def random_history(backend, seed, steps, focus, tmp):
    rng = random.Random(seed)
    gen = OpGen(rng, focus)
    h = Harness(backend, tmp)
    ops = []
    problems = []
    try:
        for n in range(steps):
            op = gen.next(h)
            if op["op"] == "update_bucket" and not any(op.get(f) is not None for f in ("type_id", "client", "hostname", "name", "data")):
                continue
            ops.append(op)
            try:
                bad = h.apply(op) or []
            except Exception as e:
                bad = [f"operation raised {type(e).__name__}: {e}"]
            if focus in ("C03",) and op["op"] != "window":
                bad = bad + [b for b in h.compare(f"after op {len(ops) - 1} {op['op']}") if False]
            else:
                bad = bad + h.compare(f"after op {len(ops) - 1} {op['op']}")
            if bad:
                problems.append({"step": len(ops) - 1, "op": op, "problems": bad[:6]})
                break
    finally:
        close(h)
    return problems, ops


def main():
    with open(sys.argv[1]) as f:
        spec = json.load(f)
    if spec.get("mode") in ("c01", "c06", "c18", "c06del", "c06mig", "c01span", "c07", "c12", "c14"):
        json.dump(extra_main(spec), sys.stdout, default=str)
        return
    tmp0 = tempfile.mkdtemp(prefix="aw-storage-rt-")
    out = {"status": "ok", "runs": 0, "steps": 0, "violations": []}
    try:
        backends = spec.get("backends", ["memory", "sqlite", "peewee"])
        if spec.get("mode") == "replay":
            tmp = tempfile.mkdtemp(dir=tmp0)
            problems, done = run_history(spec["backend"], spec["ops"], tmp)
            out["violations"] = [{"backend": spec["backend"], "ops": done, "problems": problems}] if problems else []
            out["runs"], out["steps"] = 1, len(done)
        else:
            for k in range(spec.get("histories", 20)):
                for be in backends:
                    tmp = tempfile.mkdtemp(dir=tmp0)
                    problems, ops = random_history(be, spec.get("seed", 0) * 100003 + k, spec.get("steps", 25), spec.get("focus", "all"), tmp)
                    out["runs"] += 1
                    out["steps"] += len(ops)
                    shutil.rmtree(tmp, ignore_errors=True)
                    if problems:
                        out["violations"].append({"backend": be, "seed": spec.get("seed", 0) * 100003 + k, "ops": ops, "problems": problems})
                        if len(out["violations"]) >= spec.get("max_violations", 6):
                            raise StopIteration
    except StopIteration:
        pass
    except Exception:
        out["status"] = "error"
        out["why"] = traceback.format_exc()[-2000:]
    finally:
        shutil.rmtree(tmp0, ignore_errors=True)
    json.dump(out, sys.stdout, default=str)


# =========================================================================================================
# C01: value fidelity and ownership
# =========================================================================================================
def c01(backend, seed, n, tmp):
    from aw_core.models import Event
    rng = random.Random(seed)
    h = Harness(backend, tmp)
    bad = []
    try:
        h.apply({"op": "create", "bucket": "b", "data": {"k": {"n": 1}}})
        h.apply({"op": "create", "bucket": "other"})
        b = h.ds["b"]
        seen_ids = set()
        for k in range(n):
            off = rng.choice([0, 0, 3600, -3600 * 5, 14 * 3600, -14 * 3600, 19800])
            ts_us = rng.randint(0, 4102444800 * 1000 - 1) * 1000
            dur_us = rng.choice([0, 1, 999, 1000, 999999, 1000001, rng.randint(0, 30 * 86400 * 10 ** 6)])
            if k % 4 == 3:
                # events that span an instant at which the spacing of binary64 numbers of microseconds doubles (2**49, 2**50,
                # 2**51 us after the epoch: 1987, 2005, 2041): where rounding errors of the float encoding are largest
                p = 2 ** rng.choice([49, 50, 51, 51, 51])
                ts_us = (p - rng.randint(1, 30 * 86400 * 10 ** 6)) // 1000 * 1000
                dur_us = rng.randint(p - ts_us, 30 * 86400 * 10 ** 6 + 999)
            data = copy.deepcopy(rng.choice(DATA + [{"s": "q\"'\\ ü€", "x": 0.1, "deep": {"a": [1, 2, {"b": None}]}}]))
            tz = timezone(timedelta(seconds=off))
            ev = Event(timestamp=dt(ts_us).astimezone(tz), duration=timedelta(microseconds=dur_us), data=copy.deepcopy(data))
            bulk = rng.random() < 0.3
            if bulk:
                before = {e.id for e in b.get(-1)}
                b.insert([ev])
                new = [e for e in b.get(-1) if e.id not in before]
                if len(new) != 1:
                    bad.append(f"bulk insert added {len(new)} events")
                    break
                eid = new[0].id
            else:
                r = b.insert(ev)
                eid = r.id
            if eid is None or eid in seen_ids:
                bad.append(f"id {eid!r} is missing or reused within the bucket")
                break
            seen_ids.add(eid)
            # ownership: mutate everything the caller still holds
            ev.data["INJECTED"] = 1
            if isinstance(ev.data.get("l"), list):
                ev.data["l"].append("INJECTED")
            if isinstance(ev.data.get("deep"), dict):
                ev.data["deep"]["a"].append("INJECTED")
            ev.timestamp = dt(ts_us + 5 * 10 ** 6)
            ev.duration = timedelta(seconds=77)
            if not bulk and r is not None and r is not ev:
                # the event handed out by insert() is the caller's as well
                r.data["RETURNED"] = 1
                r.duration = timedelta(seconds=55)
                r.timestamp = dt(ts_us + 9 * 10 ** 6)
            for how, got in (("lookup", b.get_by_id(eid)), ("listing", next((e for e in b.get(-1) if e.id == eid), None))):
                if got is None:
                    bad.append(f"{how}: inserted event {eid} not returned")
                    continue
                if us(got.timestamp) != ts_us:
                    bad.append(f"{how}: instant {us(got.timestamp)} != {ts_us} (offset {off})")
                if tdus(got.duration) != dur_us:
                    bad.append(f"{how}: duration {tdus(got.duration)} != {dur_us} us (ts {ts_us})")
                if got.data != data:
                    bad.append(f"{how}: data {got.data!r} != {data!r} (after the caller mutated its own event)")
                # mutate what was handed out
                got.data["OUT"] = 1
                if isinstance(got.data.get("l"), list):
                    got.data["l"].append("OUT")
                got.duration = timedelta(seconds=99)
            again = b.get_by_id(eid)
            if again is None or again.data != data or tdus(again.duration) != dur_us:
                bad.append(f"a later read changed after mutating an event that was handed out: {again}")
            if bad:
                break
        # metadata dict handed out
        md = b.metadata()
        snap = copy.deepcopy(md)
        md["type"] = "HACK"
        if isinstance(md.get("data"), dict):
            md["data"]["HACK"] = 1
            if isinstance(md["data"].get("k"), dict):
                md["data"]["k"]["HACK"] = 1
        md2 = b.metadata()
        if md2 != snap:
            bad.append(f"metadata changed after mutating the dict that was handed out: {md2} != {snap}")
        lst = h.ds.buckets()
        if "b" in lst and isinstance(lst["b"], dict):
            lst["b"]["client"] = "HACK"
            if h.ds.buckets()["b"].get("client") == "HACK":
                bad.append("bucket listing changed after mutating the dict that was handed out")
    except Exception:
        bad.append("exception: " + traceback.format_exc()[-600:])
    finally:
        close(h)
    return bad


# =========================================================================================================
# C06 / C18: what a second connection sees (= what survives a crash), lazily committing sqlite and peewee
# =========================================================================================================
class FakeClock:
    def __init__(self, start):
        self.t = start

    def now(self, tz=None):
        return self.t if tz is None else self.t.astimezone(tz)


def committed_dump(path, backend):
    """The database as another connection (or a process started after a crash) sees it."""
    import sqlite3
    con = sqlite3.connect(path)
    try:
        if backend == "sqlite":
            b = {r[0]: r[1] for r in con.execute("SELECT rowid, id FROM buckets")}
            ev = sorted((b.get(r[1]), r[0], int(round(r[2])), int(round(r[3])), r[4]) for r in
                        con.execute("SELECT id, bucketrow, starttime, endtime, datastr FROM events"))
            return {"buckets": sorted(b.values()), "events": ev}
        b = {r[0]: r[1] for r in con.execute("SELECT key, id FROM bucketmodel")}
        ev = sorted((b.get(r[1]), r[0], str(r[2]), float(r[3]), r[4]) for r in
                    con.execute("SELECT id, bucket_id, timestamp, duration, datastr FROM eventmodel"))
        return {"buckets": sorted(b.values()), "events": ev}
    finally:
        con.close()


def own_dump(h):
    """The database as the writing connection itself sees it (everything issued so far)."""
    st = h.ds.storage_strategy
    if h.backend == "sqlite":
        b = {r[0]: r[1] for r in st.conn.execute("SELECT rowid, id FROM buckets")}
        ev = sorted((b.get(r[1]), r[0], int(round(r[2])), int(round(r[3])), r[4]) for r in
                    st.conn.execute("SELECT id, bucketrow, starttime, endtime, datastr FROM events"))
        return {"buckets": sorted(b.values()), "events": ev}
    return committed_dump(h.path, h.backend)


def c06(backend, seed, steps, tmp, trickle=False):
    """After every operation: what another connection sees is the writer's state after some earlier operation
    (a prefix), bucket-level operations are visible at once, at most ~50 buffered event writes are missing; with
    `trickle`, writes arrive slower than the count threshold under a controlled clock (C18: flushed when older than ~10 s)."""
    rng = random.Random(seed)
    clock = None
    if backend == "sqlite":
        import aw_datastore.storages.sqlite as sq

        class _DT(datetime):
            pass
        clock = FakeClock(datetime(2020, 1, 1, 12, 0, 0))
        _DT.now = classmethod(lambda cls, tz=None: clock.now(tz))
        sq.datetime = _DT
    h = Harness(backend, tmp, lazy=True)
    bad = []
    snaps = []          # writer-visible states after each elementary step
    writes_since = 0
    try:
        gen = OpGen(rng, "C02")
        for n in range(steps):
            op = gen.next(h)
            if op["op"] in ("window", "missing"):
                continue
            if op["op"] == "update_bucket" and not any(op.get(f) is not None for f in ("type_id", "client", "hostname", "name", "data")):
                continue
            if trickle and op["op"] not in ("insert", "replace", "delete", "create"):
                continue            # (operations that read first flush by themselves)
            gap = rng.choice([0, 0, 1, 3]) if not trickle else rng.choice([1, 4, 11, 12, 30, 3])
            if clock is not None:
                clock.t = clock.t + timedelta(seconds=gap)
            age = None
            if clock is not None and hasattr(h.ds.storage_strategy, "last_commit"):
                age = (clock.t - h.ds.storage_strategy.last_commit).total_seconds()
            try:
                h.apply(op)
            except Exception as e:
                bad.append(f"op {op['op']} raised {e!r}")
                break
            mine = own_dump(h)
            snaps.append(mine)
            seen = committed_dump(h.path, backend)
            is_bucket_op = op["op"] in ("create", "update_bucket", "delete_bucket")
            if seen == mine:
                writes_since = 0
            else:
                if seen not in snaps:
                    bad.append(f"after {op['op']}: another connection sees a state that is not a prefix of what was done")
                    break
                k = len(snaps) - 1 - max(i for i, s_ in enumerate(snaps) if s_ == seen)
                if is_bucket_op or backend == "peewee":
                    bad.append(f"after {op['op']}: operation not durable on return ({k} operations invisible to another connection)")
                    break
                if k > 60:
                    bad.append(f"after {op['op']}: {k} buffered operations invisible to another connection (documented: about 50)")
                    break
                if trickle and age is not None and age > 10.5 and op["op"] in ("insert", "replace", "delete"):
                    bad.append(f"write issued {age:.0f} s after the previous flush is not durable on return ({k} operations pending)")
                    break
    except Exception:
        bad.append("exception: " + traceback.format_exc()[-600:])
    finally:
        close(h)
    return bad


def c06_deletes(tmp, n=150):
    """Deletions are event writes too: a run of deletes must not stay buffered beyond the documented bound."""
    h = Harness("sqlite", tmp, lazy=True)
    bad = []
    try:
        h.apply({"op": "create", "bucket": "b"})
        b = h.ds["b"]
        from aw_core.models import Event
        b.insert([Event(timestamp=dt(BASE + i * MS), duration=0, data={}) for i in range(n)])
        ids = [e.id for e in b.get(-1)]       # get() commits
        for i in ids:
            b.delete(i)
        seen = committed_dump(h.path, "sqlite")
        missing = len(seen["events"])
        if missing > 60:
            bad.append(f"{missing} of {n} deletions are invisible to another connection after they returned (documented bound: about 50)")
    finally:
        close(h)
    return bad


def c01_span(backend, seed, n, tmp):
    """Value fidelity where the float encoding is under the most strain: many events that span 2**49 / 2**50 / 2**51
    microseconds after the epoch (the spacing of binary64 numbers doubles there), inserted in bulk and read back."""
    from aw_core.models import Event
    rng = random.Random(seed)
    h = Harness(backend, tmp)
    bad = []
    try:
        h.apply({"op": "create", "bucket": "b"})
        b = h.ds["b"]
        want = {}
        evs = []
        for k in range(n):
            p = 2 ** rng.choice([49, 50, 51, 51, 51])
            ts_us = (p - rng.randint(1, 30 * 86400 * 10 ** 6)) // 1000 * 1000
            dur_us = rng.randint(max(0, p - ts_us - 5), 30 * 86400 * 10 ** 6 + 999)
            evs.append(Event(timestamp=dt(ts_us), duration=timedelta(microseconds=dur_us), data={"k": k}))
            want[k] = (ts_us, dur_us)
        b.insert(evs)
        for e in b.get(-1):
            w = want.pop(e.data["k"], None)
            if w is None:
                bad.append(f"unexpected event {e}")
            elif (us(e.timestamp), tdus(e.duration)) != w:
                bad.append(f"event starting {w[0]} us after the epoch with duration {w[1]} us came back as start {us(e.timestamp)}, duration {tdus(e.duration)} us")
            if len(bad) >= 3:
                break
        if want and len(bad) < 3:
            bad.append(f"{len(want)} events not returned")
    finally:
        close(h)
    return bad


def c06_after_migration(seed, tmp):
    """The store is created next to a legacy database: what the migration buffered is part of the open transaction, so it
    has to be counted (or flushed) - afterwards, as always, no more than the documented ~50 event writes may be invisible to
    another connection, and the statement counter must cover everything that is pending."""
    from aw_core.models import Event
    from aw_datastore.storages import PeeweeStorage, SqliteStorage
    rng = random.Random(seed)
    os.environ["XDG_DATA_HOME"] = tmp
    bad = []
    n_legacy = rng.choice([1, 7, 30, 40, 49])
    pw = PeeweeStorage(testing=True)
    try:
        pw.create_bucket("b", "t", "c", "h", dt(BASE).isoformat())
        pw.insert_many("b", [Event(timestamp=dt(BASE + i * MS), duration=timedelta(0), data={"i": i}) for i in range(n_legacy)])
    finally:
        pw.db.close()
    sq = SqliteStorage(testing=True)          # default path, new file: the migration runs inside __init__
    try:
        path = sq.conn.execute("PRAGMA database_list").fetchall()[0][2]
        n_more = rng.choice([0, 10, 50])
        for i in range(n_more):
            sq.insert_one("b", Event(timestamp=dt(BASE + (1000 + i) * MS), duration=timedelta(0), data={}))
        seen = committed_dump(path, "sqlite")
        visible = len(seen["events"])
        total = n_legacy + n_more
        if sq.conn.in_transaction and (total - visible) > sq.num_uncommitted_statements:
            bad.append(f"{total - visible} event writes are pending but the statement counter says {sq.num_uncommitted_statements} "
                       f"({n_legacy} migrated in __init__, then {n_more} inserted)")
        if total - visible > 60:
            bad.append(f"{total - visible} of {total} event writes are invisible to another connection (documented bound: about 50)")
    finally:
        sq.conn.close()
    return bad


# =========================================================================================================
# C07: heartbeat ingestion through the store equals heartbeat_reduce
# =========================================================================================================
def c07(backend, seed, n, tmp):
    from aw_core.models import Event
    from aw_transform import heartbeat_merge, heartbeat_reduce
    rng = random.Random(seed)
    h = Harness(backend, tmp)
    bad = []
    try:
        h.apply({"op": "create", "bucket": "hb"})
        h.apply({"op": "create", "bucket": "other"})
        ob = h.ds["other"]
        pulsetime = rng.choice([0, 0.001, 0.002, 0.005, 1.0])
        t = BASE
        end = t
        stream = []
        for _ in range(n):
            t += rng.choice([1, 1, 2, 3, 6, 1001]) * MS
            d = rng.choice([0, 0, 1, 2, 5]) * MS
            if t + d < end:
                d = end - t            # non-decreasing end instants
            end = t + d
            stream.append(Event(timestamp=dt(t), duration=timedelta(microseconds=d), data=copy.deepcopy(rng.choice([{"a": 1}, {"a": 1}, {"a": 2}]))))
            if rng.random() < 0.4:
                # populated neighbour sharing instants with the stream
                ob.insert(Event(timestamp=dt(t - rng.choice([0, 1, 2]) * MS), duration=timedelta(microseconds=end - t + rng.choice([0, 0, 1000])), data={"o": 1}))
        other_before = sorted((us(e.timestamp), tdus(e.duration), json.dumps(e.data)) for e in ob.get(-1))
        b = h.ds["hb"]
        for hb in stream:
            hb = copy.deepcopy(hb)
            last = b.get(1)
            merged = heartbeat_merge(last[0], hb, pulsetime) if last else None
            if merged is not None:
                b.replace_last(merged)
            else:
                b.insert(hb)
        expect = heartbeat_reduce(copy.deepcopy(stream), pulsetime)
        got = sorted(((us(e.timestamp), tdus(e.duration), json.dumps(e.data)) for e in b.get(-1)))
        exp = sorted(((us(e.timestamp), tdus(e.duration), json.dumps(e.data)) for e in expect))
        if got != exp:
            bad.append(f"bucket after the heartbeat loop {got} != heartbeat_reduce {exp} (pulsetime {pulsetime})")
        other_after = sorted((us(e.timestamp), tdus(e.duration), json.dumps(e.data)) for e in ob.get(-1))
        if other_after != other_before:
            bad.append("another bucket changed during heartbeat ingestion")
    except Exception:
        bad.append("exception: " + traceback.format_exc()[-600:])
    finally:
        close(h)
    return bad


# =========================================================================================================
# C14: migration of a legacy peewee v2 database into the sqlite store
# =========================================================================================================
def c14(seed, testing, tmp):
    import hashlib
    from aw_core.models import Event
    from aw_datastore.storages import PeeweeStorage, SqliteStorage
    rng = random.Random(seed)
    os.environ["XDG_DATA_HOME"] = tmp
    bad = []
    pw = PeeweeStorage(testing=testing)
    expect = {}
    try:
        for b in range(rng.randint(1, 3)):
            bid = rng.choice(["bucket", "bücket-ü", "b b"]) + str(b)
            data = rng.choice([None, {"k": "v"}, {"n": {"m": [1, 2]}}])
            name = rng.choice([None, "nm"])
            pw.create_bucket(bid, "t" + str(b), "client", "höst", dt(BASE + b * MS).isoformat(), name=name, data=data)
            evs = []
            for k in range(rng.randint(0, 6)):
                evs.append(Event(timestamp=dt(BASE + rng.randint(0, 10 ** 6) * MS), duration=timedelta(microseconds=rng.choice([0, 1500, 10 ** 6, 86400 * 10 ** 6])),
                                 data=copy.deepcopy(rng.choice(DATA))))
            if evs:
                if rng.random() < 0.5:
                    pw.insert_many(bid, evs)
                else:
                    for e in evs:
                        pw.insert_one(bid, e)
            expect[bid] = {"meta": pw.get_metadata(bid),
                           "events": sorted((us(e.timestamp), tdus(e.duration), json.dumps(e.data, sort_keys=True)) for e in pw.get_events(bid, -1))}
        path = pw.db.database
    finally:
        pw.db.close()
    before_bytes = hashlib.sha256(open(path, "rb").read()).hexdigest()
    try:
        sq = SqliteStorage(testing=testing)      # default path, new file: migration runs
    except Exception as e:                       # the store was not created: nothing of the legacy database is in it
        return [f"creating the default sqlite store beside the legacy database raised {type(e).__name__}: {e}"], \
            before_bytes == hashlib.sha256(open(path, "rb").read()).hexdigest()
    try:
        got = sq.buckets()
        if set(got.keys()) != set(expect.keys()):
            bad.append(f"buckets after migration {sorted(got.keys())} != legacy {sorted(expect.keys())}")
        for bid, ex in expect.items():
            if bid not in got:
                continue
            for f in ("id", "type", "client", "hostname", "name", "data"):
                if got[bid].get(f) != ex["meta"].get(f):
                    bad.append(f"bucket {bid!r}: metadata {f} = {got[bid].get(f)!r}, legacy {ex['meta'].get(f)!r}")
            import iso8601
            if iso8601.parse_date(got[bid]["created"]) != iso8601.parse_date(ex["meta"]["created"]):
                bad.append(f"bucket {bid!r}: created {got[bid]['created']} != {ex['meta']['created']}")
            evs = sorted((us(e.timestamp), tdus(e.duration), json.dumps(e.data, sort_keys=True)) for e in sq.get_events(bid, -1))
            if evs != ex["events"]:
                bad.append(f"bucket {bid!r}: {len(evs)} events after migration, legacy has {len(ex['events'])} (dropped/duplicated/changed)")
    finally:
        sq.conn.close()
        try:
            from aw_datastore.storages import peewee as pwm
            pwm._db.close()
        except Exception:
            pass
    # the legacy store still holds what it held
    pw2 = PeeweeStorage(testing=testing)
    try:
        for bid, ex in expect.items():
            evs = sorted((us(e.timestamp), tdus(e.duration), json.dumps(e.data, sort_keys=True)) for e in pw2.get_events(bid, -1))
            if evs != ex["events"] or pw2.get_metadata(bid) != ex["meta"]:
                bad.append(f"legacy bucket {bid!r} changed by the migration")
    finally:
        pw2.db.close()
    return bad, before_bytes == hashlib.sha256(open(path, "rb").read()).hexdigest()


# =========================================================================================================
# C12: queries only read, and query_bucket is a windowed read
# =========================================================================================================
PROGRAMS = [
    'RETURN = query_bucket("b1");',
    'e = query_bucket("b1"); e = flood(e); RETURN = e;',
    'e = query_bucket("b1"); e = simplify_window_titles(e, "title"); RETURN = e;',
    'e = query_bucket("b1"); RETURN = categorize(e, [[["A"], {"type": "regex", "regex": "a"}]]);',
    'e = query_bucket("b1"); RETURN = tag(e, [["t", {"type": "regex", "regex": "a"}]]);',
    'e = query_bucket("b1"); RETURN = split_url_events(e);',
    'e = query_bucket("b1"); f = query_bucket("b2"); RETURN = period_union(e, f);',
    'e = query_bucket("b1"); f = query_bucket("b2"); RETURN = filter_period_intersect(e, f);',
    'e = query_bucket("b1"); f = query_bucket("b2"); RETURN = union_no_overlap(sort_by_timestamp(e), sort_by_timestamp(f));',
    'e = query_bucket("b1"); RETURN = merge_events_by_keys(e, ["title"]);',
    'e = query_bucket("b1"); RETURN = chunk_events_by_key(e, "title");',
    'e = query_bucket("b1"); e = sort_by_duration(e); RETURN = limit_events(e, 1);',
    'e = query_bucket("b1"); x = split_url_events(e); RETURN = nosuchfunction(x);',
    'e = query_bucket("b1"); x = tag(e, [["t", {"type": "regex", "regex": "a"}]]); RETURN = query_bucket("nope");',
    'e = query_bucket("b1"); x = categorize(e, [[["A"], {"type": "regex", "regex": "a"}]]); RETURN = filter_keyvals(x);',
    'e = query_bucket("b1"); RETURN = sum_durations(e); RETURN = undefined_variable;',
    'RETURN = query_bucket_eventcount("b1");',
]


def c12(backend, seed, tmp):
    from aw_core.models import Event
    from aw_query import query
    rng = random.Random(seed)
    h = Harness(backend, tmp)
    bad = []
    try:
        for bid in ("b1", "b2"):
            h.apply({"op": "create", "bucket": bid, "data": {"k": "v"}})
            for k in range(rng.randint(0, 6)):
                h.apply({"op": "insert", "bucket": bid, "event": [BASE + rng.randint(0, 20) * MS, rng.choice([0, 1, 2, 5]) * MS,
                                                              copy.deepcopy(rng.choice([{"title": "a", "app": "x"}, {"title": "(1) b", "url": "http://www.a.b/c"}, {"title": "c"}]))]})

        def snapshot():
            out = {}
            for bid in h.ds.buckets():
                out[bid] = (json.dumps(h.ds[bid].metadata(), sort_keys=True, default=str),
                            sorted((e.id, us(e.timestamp), tdus(e.duration), json.dumps(e.data, sort_keys=True)) for e in h.ds[bid].get(-1)))
            return out
        before = snapshot()
        for prog in PROGRAMS:
            s = BASE + rng.randint(-2, 22) * MS + rng.choice([0, 1, 500])
            e = s + rng.choice([0, 1, 5, 30]) * MS + rng.choice([0, 499])
            tz = timezone(timedelta(hours=rng.choice([0, 0, 5, -8])))
            start, end = dt(s).astimezone(tz), dt(e).astimezone(tz)
            try:
                res = query("name", prog, start, end, h.ds)
            except Exception as ex:
                res = ex
            after = snapshot()
            if after != before:
                bad.append(f"bucket contents changed by the query {prog!r}")
                break
            if prog == PROGRAMS[0] and not isinstance(res, Exception):
                direct = h.ds["b1"].get(starttime=start, endtime=end)
                f = lambda evs: [(x.id, us(x.timestamp), tdus(x.duration), x.data) for x in evs]
                if f(res) != f(direct):
                    bad.append(f"query_bucket differs from a direct windowed read: {f(res)} vs {f(direct)}")
            if prog == PROGRAMS[-1] and not isinstance(res, Exception):
                if res != h.ds["b1"].get_eventcount(starttime=start, endtime=end):
                    bad.append(f"query_bucket_eventcount {res} differs from the direct count")
    except Exception:
        bad.append("exception: " + traceback.format_exc()[-600:])
    finally:
        close(h)
    return bad


def extra_main(spec):
    tmp0 = tempfile.mkdtemp(prefix="aw-storage-rt-")
    out = {"status": "ok", "runs": 0, "violations": []}
    try:
        mode = spec["mode"]
        for k in range(spec.get("runs", 10)):
            for be in spec.get("backends", ["memory", "sqlite", "peewee"]):
                tmp = tempfile.mkdtemp(dir=tmp0)
                seed = spec.get("seed_exact", spec.get("seed", 0) * 7919 + k)
                if mode == "c01":
                    bad = c01(be, seed, spec.get("n", 40), tmp)
                elif mode == "c01span":
                    bad = c01_span(be, seed, spec.get("n", 1500), tmp)
                elif mode == "c06":
                    bad = c06(be, seed, spec.get("steps", 120), tmp, trickle=False) if be != "memory" else []
                elif mode == "c18":
                    bad = c06(be, seed, spec.get("steps", 60), tmp, trickle=True) if be == "sqlite" else []
                elif mode == "c06del":
                    bad = c06_deletes(tmp) if be == "sqlite" and k == 0 else []
                elif mode == "c06mig":
                    bad = c06_after_migration(seed, tmp) if be == "sqlite" else []
                elif mode == "c07":
                    bad = c07(be, seed, spec.get("n", 25), tmp)
                elif mode == "c12":
                    bad = c12(be, seed, tmp)
                elif mode == "c14":
                    if be != "sqlite":
                        bad = []
                    else:
                        bad, same_bytes = c14(seed, testing=(k % 2 == 0), tmp=tmp)
                        out.setdefault("legacy_file_bytes_unchanged", []).append(same_bytes)
                else:
                    raise ValueError(mode)
                out["runs"] += 1
                shutil.rmtree(tmp, ignore_errors=True)
                if bad:
                    out["violations"].append({"backend": be, "seed": seed, "mode": mode, "problems": bad[:5]})
                    if len(out["violations"]) >= 4:
                        raise StopIteration
    except StopIteration:
        pass
    except Exception:
        out["status"] = "error"
        out["why"] = traceback.format_exc()[-2000:]
    finally:
        shutil.rmtree(tmp0, ignore_errors=True)
    return out


if __name__ == "__main__":
    main()
