"""Run-time reference checks (bounded stand-in) for transforms whose deductive contracts cannot be evaluated natively
(their inputs are rule objects): the real function against a reference written from the property statement.
usage: /venv/bin/python transform_rt.py spec.json     spec = {"mode": "c19", "seed": n, "n": cases}"""
import copy
import itertools
import json
import random
import re
import sys
from datetime import datetime, timedelta, timezone


def ev(ts, dur, data, id=None):
    from aw_core.models import Event
    return Event(id=id, timestamp=datetime(2020, 1, 1, tzinfo=timezone.utc) + timedelta(seconds=ts), duration=timedelta(seconds=dur), data=data)


def snap(e):
    return (e.id, e.timestamp, e.duration, copy.deepcopy(e.data))


def ref_matches(rule_d, data):
    """Property text: a non-empty regex found (case-insensitively when asked) in any selected string value."""
    rx = rule_d.get("regex")
    if not rx:
        return False
    flags = re.IGNORECASE if rule_d.get("ignore_case", False) else 0
    keys = rule_d.get("select_keys")
    vals = [data[k] for k in keys if k in data] if keys else list(data.values())
    return any(isinstance(v, str) and re.search(rx, v, flags) is not None for v in vals)


def ref_category(classes, data):
    """the category of the deepest matching rule, the later rule winning ties; ['Uncategorized'] when nothing matches"""
    best = None
    for cat, rd in classes:
        if ref_matches(rd, data) and (best is None or len(cat) >= len(best)):
            best = cat
    return best if best is not None else ["Uncategorized"]


def c19(seed, n, replay=None):
    from aw_transform import categorize, tag, Rule
    r = random.Random(seed)
    texts = ["GitHub - Firefox", "firefox", "vim main.py", "", "alpha beta", "ALPHA", "Beta"]
    regexes = ["Firefox", "GitHub", "alpha", "beta", "vim", "", None, "a"]
    cats = [["Work"], ["Work", "Browsing"], ["Work", "Programming"], ["Media"], ["A"], ["B"], ["A", "B", "C"]]
    bad, runs = [], 0
    for _ in range(n if replay is None else 1):
        classes_d = []
        for _k in range(r.randint(0, 4) if replay is None else 0):
            rd = {"regex": r.choice(regexes)}
            if r.random() < 0.3:
                rd["ignore_case"] = r.choice([True, False])
            if r.random() < 0.3:
                rd["select_keys"] = r.choice([["title"], ["app"], ["app", "title"], ["nope"]])
            if rd["regex"] is None:
                del rd["regex"]
            classes_d.append((r.choice(cats), rd))
        events = [ev(i, r.randint(0, 3), r.choice([{}, {"title": r.choice(texts)}, {"app": r.choice(texts), "title": r.choice(texts)},
                                                   {"title": r.choice(texts), "n": 3}]), id=i)
                  for i in range(r.randint(0, 3))]
        if replay is not None:
            classes_d = [(list(c), dict(rd)) for c, rd in replay["classes"]]
            events = [ev(i, 1, copy.deepcopy(x[2]), id=i) for i, x in enumerate(replay["events"])]
        before = [snap(e) for e in events]
        classes = [(list(c), Rule(dict(rd))) for c, rd in classes_d]
        out = categorize(events, classes)
        runs += 1
        prob = None
        if len(out) != len(events) or any(o is not e for o, e in zip(out, events)):
            prob = "categorize does not return the same events in the same order"
        else:
            for e, b in zip(out, before):
                want = ref_category(classes_d, b[3])
                rest = {k: v for k, v in e.data.items() if k != "$category"}
                if e.data.get("$category") != want:
                    prob = f"$category is {e.data.get('$category')}, the statement gives {want} for data {b[3]}"
                elif rest != b[3] or (e.id, e.timestamp, e.duration) != b[:3]:
                    prob = f"something besides $category changed: {b} -> {snap(e)}"
                if prob:
                    break
        if prob is None:
            events2 = [ev(i, 1, copy.deepcopy(b[3]), id=i) for i, b in enumerate(before)]
            tclasses = [(c[-1], Rule(dict(rd))) for c, rd in classes_d]
            out2 = tag(events2, tclasses)
            for e, b in zip(out2, before):
                want = [c[-1] for c, rd in classes_d if ref_matches(rd, b[3])]
                if e.data.get("$tags") != want:
                    prob = f"$tags is {e.data.get('$tags')}, the statement gives {want} for data {b[3]}"
                    break
                if {k: v for k, v in e.data.items() if k != "$tags"} != b[3]:
                    prob = f"something besides $tags changed: {b[3]} -> {e.data}"
                    break
        if prob:
            bad.append({"problem": prob, "input": {"classes": classes_d, "events": [[str(b[1]), str(b[2]), b[3]] for b in before]}})
            if len(bad) >= 3:
                break
    return {"status": "ok", "runs": runs, "violations": bad}


def main():
    spec = json.load(open(sys.argv[-1]))
    mode = spec["mode"]
    try:
        res = {"c19": c19}[mode](spec.get("seed", 0), spec.get("n", 500), spec.get("replay"))
    except Exception as e:  # pragma: no cover
        import traceback
        res = {"status": "error", "why": traceback.format_exc()[-1500:]}
    print(json.dumps(res, default=str))


if __name__ == "__main__":
    main()
