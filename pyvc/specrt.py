"""Native (run-time) definitions of the specification vocabulary.  Contract modules do
`from pyvc.specrt import *`; the verifier maps these names to its symbolic built-ins."""
from datetime import datetime, timedelta, timezone

EPOCH = datetime(1970, 1, 1, tzinfo=timezone.utc)


def ms_aligned(x):
    if isinstance(x, timedelta):
        return x % timedelta(milliseconds=1) == timedelta(0)
    return x.microsecond % 1000 == 0


def floor_to_ms(t):
    return t - timedelta(microseconds=t.microsecond % 1000)


def instants(a, b):
    """Run-time stand-in for "every instant of [a, b]": the end points and the millisecond grid between."""
    if b < a:
        return
    yield a
    step = timedelta(milliseconds=1)
    half = timedelta(microseconds=500)
    t = a
    n = 0
    while t + half <= b and n < 2000:
        yield t + half
        t = t + step
        if t <= b:
            yield t
        n += 1
    yield b


def re_search(pattern, flags, text):
    import re
    return re.compile(pattern, flags).search(text) is not None


def dict_without(d, *keys):
    return {k: v for k, v in d.items() if k not in keys}


def url_part(name, url):
    from urllib.parse import urlparse
    return getattr(urlparse(url), name)


def parse_date(s):
    import iso8601
    return iso8601.parse_date(s)


def jv_dict(v):
    return v


def same_value(a, b):
    """The very same value: equal and of the same type (1 == 1.0 == True in Python, but not the same TOML value)."""
    if isinstance(a, dict) and isinstance(b, dict):
        return a.keys() == b.keys() and all(same_value(a[k], b[k]) for k in a)
    if isinstance(a, (list, tuple)) and isinstance(b, (list, tuple)):
        return len(a) == len(b) and all(same_value(x, y) for x, y in zip(a, b))
    ta = type(a.unwrap()) if hasattr(a, "unwrap") else type(a)
    tb = type(b.unwrap()) if hasattr(b, "unwrap") else type(b)
    return ta is tb and a == b


def jv_list(v, elem_type=None):
    return v


def real_plus(x, c):
    """exact sum of a float and a small constant (run-time evaluation: fractions)"""
    from fractions import Fraction
    return Fraction(x) + Fraction(c)


def fresh(x):
    return True


def allocated(x):
    return True


__all__ = ["parse_date", "jv_dict", "same_value", "url_part", "re_search", "dict_without", "jv_list", "EPOCH", "ms_aligned", "floor_to_ms", "instants", "fresh", "allocated", "real_plus"]

