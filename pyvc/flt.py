"""Floating point: no "floats are reals".  Only patterns backed by a separately proved bit-precise lemma
are interpreted; every other float result is an unconstrained fresh value (nothing assumed about it)
that remembers its expression tree so that property-specific lemmas (sqlite time encoding) can match it.

Lemma F1 (proved by fplemmas.py with z3 Float64, RNE; cross-checked exhaustively under CPython):
    for every integer 0 <= a < 10**6:  int(float(a) / 1000.0) == a // 1000
"""
from __future__ import annotations
import z3
from .engine import *  # noqa
from .engine import Val, Unsupported, fresh, I, R

F1_LIMIT = 10 ** 6


def float_op(ex, op, a, b, st):
    x = {"fexpr": (op, a, b)}
    if op == "/" and a.ty == INT and b.ty == INT and z3.is_int_value(b.t) and b.t.as_long() == 1000:
        x["ratio1000"] = a.t
    if op == "/" and b.ty in (INT, FLOAT):
        zero = (b.t == 0)
        st.raise_if(zero, "ZeroDivisionError")
    # the result is an uninterpreted *function* of the operands (IEEE operations are deterministic): equal
    # expressions over equal inputs denote equal floats, nothing else is assumed
    fn = z3.Function({"+": "f_add", "-": "f_sub", "*": "f_mul", "/": "f_div"}[op], R, R, R)
    ta = z3.ToReal(a.t) if a.ty == INT else a.t
    tb = z3.ToReal(b.t) if b.ty == INT else b.t
    return Val(FLOAT, fn(ta, tb), **x)


def int_of_float(ex, v, st):
    if "ratio1000" in v.x:
        a = v.x["ratio1000"]
        ex.lemmas_used.add("F1")
        ex.oblige(st, "lemma:F1/domain", z3.And(a >= 0, a < F1_LIMIT),
                  clause="0 <= a < 10**6 for int(a / 1000) == a // 1000")
        st.assume(z3.And(a >= 0, a < F1_LIMIT))
        return Val(INT, a / 1000)
    if "exact_int" in v.x:
        return Val(INT, v.x["exact_int"])
    raise Unsupported("int() of an uninterpreted float")
