"""Floating-point lemmas used by the encoding (flt.py), proved bit-precisely - no "floats are reals".

F1: for every integer 0 <= a < 10**6:  int(float(a) / 1000.0) == a // 1000
    (a) z3 Float64, RNE division, truncation (thorough tier, ~10 s)
    (b) complete enumeration of the finite domain under the repository's CPython (every tier, ~0.5 s)
"""
import subprocess
import time
import z3

VENV_PY = "/venv/bin/python"


def f1_z3(timeout_s=300):
    a = z3.BitVec("a", 32)
    f64 = z3.Float64()
    rne = z3.RNE()
    fa = z3.fpSignedToFP(rne, a, f64)                        # float(a): exact below 2**53
    q = z3.fpDiv(rne, fa, z3.FPVal(1000.0, f64))
    t = z3.fpToSBV(z3.RTZ(), q, z3.BitVecSort(32))           # int(): truncation toward zero
    s = z3.Solver()
    s.set("timeout", timeout_s * 1000)
    s.add(z3.ULT(a, z3.BitVecVal(10 ** 6, 32)), t != z3.UDiv(a, z3.BitVecVal(1000, 32)))
    t0 = time.time()
    r = s.check()
    return str(r), time.time() - t0


def f1_enumerate():
    code = ("import sys\n"
            "bad=[u for u in range(10**6) if int(u/1000)*1000 != u-u%1000 or int(u/1000) != u//1000]\n"
            "print(len(bad), sys.version.split()[0])")
    t0 = time.time()
    p = subprocess.run([VENV_PY, "-c", code], capture_output=True, text=True, timeout=120)
    out = p.stdout.split()
    return (out[0] == "0" if out else False), (out[1] if len(out) > 1 else "?"), time.time() - t0


def parse_all_microseconds():
    """The real _timestamp_parse on all 10**6 microsecond values of one second (complete finite domain)."""
    code = ("from datetime import datetime, timezone, timedelta\n"
            "from aw_core.models import _timestamp_parse\n"
            "base=datetime(2020,1,1,tzinfo=timezone.utc)\n"
            "bad=0\n"
            "for u in range(10**6):\n"
            "    r=_timestamp_parse(base.replace(microsecond=u))\n"
            "    if r.microsecond != u-u%1000 or r.replace(microsecond=0)!=base: bad+=1\n"
            "print(bad)")
    t0 = time.time()
    p = subprocess.run([VENV_PY, "-c", code], capture_output=True, text=True, timeout=600, cwd="/repo")
    return p.stdout.strip() == "0", time.time() - t0


# ---------------------------------------------------------------------------------------------------------------------
# F3: the sqlite time encoding is lossless for instants:  for every instant T = 1000*k microseconds after the epoch with
#     0 <= T <= 2100-01-01,   fromtimestamp(((T/10**6) * 1000000) / 1000000, utc) == T      (to the microsecond)
# where /, * are IEEE-754 binary64 operations with round-to-nearest-even, exactly as CPython performs them:
#     ts = T / 10**6            (int / int true division: correctly rounded)             [datetime.timestamp()]
#     m  = ts * 1000000         (correctly rounded product)                               [what insert stores]
#     q  = m / 1000000          (correctly rounded quotient)                              [_rows_to_events]
#     fromtimestamp(q): i = floor(q), p = RN((q - i) * 10**6), microseconds = i*10**6 + round_half_even(p)
# Proof: "binade-split exact rounding" in linear integer/real arithmetic.  Inside one binade [2^e, 2^(e+1)) a correctly
# rounded result y of the real x satisfies: y is a multiple of ulp = 2^(e-52) and |y - x| <= ulp/2.  (Ties are
# over-approximated: both neighbours are allowed - a superset of the real behaviour, so `unsat` is a proof.)  The domain is
# cut into cells in which T/10**6 and T each stay inside one binade; T is a multiple of 1000 and therefore never within 8 of a
# power of two, so ts * 10**6 (within 0.25 of T) stays in T's binade.  One query per cell: the decoded microsecond count is T.
LIMIT_2100_US = 4102444800 * 10 ** 6
LIMIT_F3_US = LIMIT_2100_US + 31 * 86400 * 10 ** 6        # end instants: events that start before 2100 and last up to 31 days


def f3_cells(limit_us=LIMIT_2100_US, timeout_s=60, claim="decoded", step=1000):
    """claim='decoded': lemma F3.  claim='stored' (negative control): 'the stored float equals T', which is false for small T -
    the same encoding must refute it.  claim='near': lemma F5, the stored float is within half a microsecond of T
    (|T.timestamp()*1000000 - T| < 1/2), which makes the encoding strictly increasing on whole microseconds."""
    from fractions import Fraction
    t0 = time.time()
    cells = 0
    worst = 0.0
    # binades of x1 = T / 10^6 (e) and of T itself (f); T >= 1 (T = 0 is evaluated directly)
    for e in range(-20, 33):
        lo1, hi1 = Fraction(2) ** e * 10 ** 6, Fraction(2) ** (e + 1) * 10 ** 6        # T in [lo1, hi1)
        for f in range(0, 53):
            lo2, hi2 = 2 ** f, 2 ** (f + 1)
            lo, hi = max(lo1, lo2, 1), min(hi1, hi2, limit_us + 1)
            if lo >= hi:
                continue
            cells += 1
            u1 = Fraction(2) ** (e - 52)
            u2 = Fraction(2) ** (f - 52)
            T, n1, n2, n3, i, r = z3.Int("T"), z3.Int("n1"), z3.Int("n2"), z3.Int("n3"), z3.Int("i"), z3.Int("r")
            ts, m, q, p = z3.Real("ts"), z3.Real("m"), z3.Real("q"), z3.Real("p")
            Q = lambda fr: z3.RealVal(str(fr))
            k = z3.Int("k")
            # step 1000: whole milliseconds (start instants of events); step 1: every whole microsecond (end instants).  For
            # step 1 the powers of two themselves are excluded here (T * 10**6 / 10**6 may fall just below the binade there) and
            # covered by direct evaluation under CPython (f3_powers_of_two): 44 instants.
            dom = [T == step * k, z3.ToReal(T) >= Q(lo), z3.ToReal(T) < Q(hi)]
            if step == 1:
                dom.append(T != lo2)
            # ts = RN(T / 10^6) in binade e (the result may be the upper end point 2^(e+1): still a multiple of u1)
            rn1 = [ts == z3.ToReal(n1) * Q(u1), ts - z3.ToReal(T) / 1000000 <= Q(u1 / 2), z3.ToReal(T) / 1000000 - ts <= Q(u1 / 2)]
            # m = RN(ts * 10^6) in binade f
            rn2 = [m == z3.ToReal(n2) * Q(u2), m - ts * 1000000 <= Q(u2 / 2), ts * 1000000 - m <= Q(u2 / 2)]
            s = z3.Solver()
            s.set("timeout", timeout_s * 1000)
            s.add(*dom, *rn1, *rn2)
            # q = RN(m / 10^6): m / 10^6 is in the binade of T / 10^6 (T is a multiple of 1000, m within 1 of T: a binade boundary
            # 2^e * 10^6 of T is met exactly or missed by at least 999), i = floor(q), p = RN((q - i) * 10^6) with an absolute error of
            # at most 2^-34 (p < 2^20, so half an ulp is at most 2^-34), r = nearest integer to p (ties: either)
            s.add(q == z3.ToReal(n3) * Q(u1), q - m / 1000000 <= Q(u1 / 2), m / 1000000 - q <= Q(u1 / 2))
            s.add(z3.ToReal(i) <= q, q < z3.ToReal(i) + 1)
            s.add(p - (q - z3.ToReal(i)) * 1000000 <= Q(Fraction(1, 2 ** 34)), (q - z3.ToReal(i)) * 1000000 - p <= Q(Fraction(1, 2 ** 34)))
            s.add(z3.ToReal(r) - p <= Q(Fraction(1, 2)), p - z3.ToReal(r) <= Q(Fraction(1, 2)))
            if claim == "decoded":
                s.add(i * 1000000 + r != T)
            elif claim == "near":
                s.add(z3.Or(m - z3.ToReal(T) >= Q(Fraction(1, 2)), z3.ToReal(T) - m >= Q(Fraction(1, 2))))
            else:
                s.add(m != z3.ToReal(T))
            t1 = time.time()
            res = s.check()
            worst = max(worst, time.time() - t1)
            if res != z3.unsat:
                return {"ok": False, "cell": (e, f), "result": str(res), "cells": cells, "time_s": round(time.time() - t0, 2)}
    return {"ok": True, "cells": cells, "time_s": round(time.time() - t0, 2), "worst_cell_s": round(worst, 3)}


def f3_powers_of_two(limit_us=LIMIT_2100_US):
    """F3 at the instants T = 2**f microseconds (f = 0..51), evaluated under CPython: the cells of f3_cells(step=1) leave them out."""
    code = f"""
from datetime import datetime, timezone, timedelta
E = datetime(1970, 1, 1, tzinfo=timezone.utc)
bad = 0
n = 0
for f in range(0, 53):
    for us in (2 ** f, 0):
        if us > {limit_us}:
            continue
        dt = E + timedelta(microseconds=us)
        back = datetime.fromtimestamp((dt.timestamp() * 1000000) / 1000000, timezone.utc)
        n += 1
        bad += back != dt or not (abs(dt.timestamp() * 1000000 - us) < 0.5)
print(bad, n)
"""
    p = subprocess.run([VENV_PY, "-c", code], capture_output=True, text=True, timeout=120)
    out = p.stdout.split()
    return {"ok": bool(out) and out[0] == "0", "points": int(out[1]) if len(out) > 1 else 0}


def f3_sample(n=200000, seed=1):
    """CPython cross-check of F3 on random instants and on every instant next to a binade boundary of T/10^6 or of T."""
    code = f"""
import random
from datetime import datetime, timezone, timedelta
E = datetime(1970, 1, 1, tzinfo=timezone.utc)
hi = {LIMIT_F3_US}
random.seed({seed})
pts = [random.randrange(0, hi // 1000 + 1) * 1000 for _ in range({n} // 2)] + [random.randrange(0, hi + 1) for _ in range({n} // 2)]
for e in range(-10, 33):
    c = int(2 ** e * 10 ** 6) // 1000 * 1000
    pts += [c + d * 1000 for d in range(-3, 4)]
for f in range(9, 53):
    c = 2 ** f // 1000 * 1000
    pts += [c + d * 1000 for d in range(-3, 4)] + [2 ** f + d for d in range(-3, 4)]
bad = 0
for us in pts:
    if not (0 <= us <= hi):
        continue
    dt = E + timedelta(microseconds=us)
    m = dt.timestamp() * 1000000
    back = datetime.fromtimestamp(m / 1000000, timezone.utc)
    if back != dt:
        bad += 1
print(bad, len(pts))
"""
    t0 = time.time()
    p = subprocess.run([VENV_PY, "-c", code], capture_output=True, text=True, timeout=600)
    out = p.stdout.split()
    return {"ok": bool(out) and out[0] == "0", "points": int(out[1]) if len(out) > 1 else 0, "time_s": round(time.time() - t0, 2),
            "err": p.stderr[-300:]}
