"""Floating-point lemmas used by the encoding (flt.py), proved bit-precisely - no "floats are reals".

F1: for every integer 0 <= a < 10**6:  int(float(a) / 1000.0) == a // 1000
    (a) z3 Float64, RNE division, truncation (thorough tier, ~10 s)
    (b) complete enumeration of the finite domain under the repository's CPython (every tier, ~0.5 s)
"""
import subprocess
import time
import z3

VENV_PY = "/venv/bin/python"


def f1_z3(timeout_s=300):
    a = z3.BitVec("a", 32)
    f64 = z3.Float64()
    rne = z3.RNE()
    fa = z3.fpSignedToFP(rne, a, f64)                        # float(a): exact below 2**53
    q = z3.fpDiv(rne, fa, z3.FPVal(1000.0, f64))
    t = z3.fpToSBV(z3.RTZ(), q, z3.BitVecSort(32))           # int(): truncation toward zero
    s = z3.Solver()
    s.set("timeout", timeout_s * 1000)
    s.add(z3.ULT(a, z3.BitVecVal(10 ** 6, 32)), t != z3.UDiv(a, z3.BitVecVal(1000, 32)))
    t0 = time.time()
    r = s.check()
    return str(r), time.time() - t0


def f1_enumerate():
    code = ("import sys\n"
            "bad=[u for u in range(10**6) if int(u/1000)*1000 != u-u%1000 or int(u/1000) != u//1000]\n"
            "print(len(bad), sys.version.split()[0])")
    t0 = time.time()
    p = subprocess.run([VENV_PY, "-c", code], capture_output=True, text=True, timeout=120)
    out = p.stdout.split()
    return (out[0] == "0" if out else False), (out[1] if len(out) > 1 else "?"), time.time() - t0


def parse_all_microseconds():
    """The real _timestamp_parse on all 10**6 microsecond values of one second (complete finite domain)."""
    code = ("from datetime import datetime, timezone, timedelta\n"
            "from aw_core.models import _timestamp_parse\n"
            "base=datetime(2020,1,1,tzinfo=timezone.utc)\n"
            "bad=0\n"
            "for u in range(10**6):\n"
            "    r=_timestamp_parse(base.replace(microsecond=u))\n"
            "    if r.microsecond != u-u%1000 or r.replace(microsecond=0)!=base: bad+=1\n"
            "print(bad)")
    t0 = time.time()
    p = subprocess.run([VENV_PY, "-c", code], capture_output=True, text=True, timeout=600, cwd="/repo")
    return p.stdout.strip() == "0", time.time() - t0
