"""In-memory mutation run: property-breaking edits applied to the source text held by the front end
(never written to disk); each must turn at least one obligation from discharged to failed.
usage: python3-vt -m pyvc.mutate C09            (mutants listed in props/<id>.py: MUTANTS)
"""
import importlib
import sys
import time
from . import front, solve
from .check import Run


def run_mutant(prop, path, old, new, timeout=None):
    r = Run(prop, "quick", 0)
    r.skip_vacuity = True
    with open(path) as f:
        src = f.read()
    if old not in src:
        return None, "anchor text not found"
    r.world.overrides[path] = src.replace(old, new, 1)
    for m in prop.get("contract_modules", []):
        importlib.import_module(m)
    obs = []
    for fspec in prop["functions"]:
        if fspec.get("bounded_only"):
            continue
        o, rep = r.generate(fspec)
        obs.extend(o)
    bad_fn = [f for f in r.functions if f["status"] != "ok"]
    solve.solve_all(obs, timeout_s=timeout or prop.get("mut_timeout_s", 6), want_model=False)
    failed = sorted(n for n, g in solve.group(obs).items() if solve.status_of(g) != "discharged")
    return failed, [f"{f['function']}: {f['status']} ({f.get('why')})" for f in bad_fn]


def main():
    pid = sys.argv[1]
    mod = importlib.import_module(f"props.{pid}")
    prop = mod.PROP
    killed = 0
    for k, (path, old, new, expect) in enumerate(mod.MUTANTS):
        t = time.time()
        failed, notes = run_mutant(prop, path, old, new)
        if failed is None:
            print(f"[{k}] SKIP {notes}: {old!r}")
            continue
        hit = bool(failed) or bool(notes)
        ok = hit == expect
        killed += 1 if (hit and expect) else 0
        print(f"[{k}] {'ok ' if ok else 'BAD'} expect={'kill' if expect else 'benign'} "
              f"{new.strip()[:60]!r}: {len(failed)} failed {[f.split('/', 2)[2] for f in failed[:3]]} {notes} ({time.time() - t:.1f}s)")
    print(f"killed {killed}/{sum(1 for m in mod.MUTANTS if m[3])}")


if __name__ == "__main__":
    sys.path.insert(0, ".")
    main()
