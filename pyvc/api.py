"""Contract registry.  stdlib only: imported both by the verifier (python3-vt) and by the
run-time contract checker / replayer (/venv/bin/python).

A contract is plain data.  Clause strings are Python expressions; the verifier translates them
with the same translator it uses for the code, the run-time checker `eval`s them.
"""
from __future__ import annotations

CONTRACTS = {}     # qualname -> dict
CLASSDEFS = {}     # qualname -> dict(fields={name: type})
LEMMAS = {}        # name -> dict
EXTERNALS = {}     # qualname -> dict (assumed contracts of dependencies)
SPEC_MODULES = []  # modules whose top-level functions are spec (ghost) functions


def contract(qualname, params=None, returns=None, requires=(), ensures=(), modifies=(),
             raises=(), loops=None, locals=None, ghost=None, trusted=False, note="",
             exc_ensures=None, inline=(), pure=False, decreases=None, fresh=False,
             ghost_vars=None, ghost_code=(), ghost_returns=None, raises_when=None, writes_fresh=(),
             native_ensures=None, native_requires=None, functional=None, internal_ensures=(), param_attrs=None, rec_group=None, case_split=(), descends_to=None, callee_variants=None):
    """Register a contract for the real function `qualname` (module path + function / Class.method).

    params    {name: type-string}            types of the symbolic inputs
    returns   type-string
    requires  [expr]                         preconditions (over params)
    ensures   [expr]                         postconditions on normal return (`result`, `old(e)`)
    modifies  [lvalue-pattern]               frame: heap locations a caller must consider changed
    raises    [exception class names]        exceptions that may escape; anything else is an obligation
    exc_ensures {exc: [expr]}                postconditions on exceptional exit
    loops     {ordinal: {invariant:[expr], decreases: expr, index: name, modifies:[...]}}
    trusted   True => assumed, never proved (collected by the trusted scan)
    decreases expr                           termination measure of a recursive function (>= 0, strictly smaller at each recursive call)
    case_split [param]                       Optional parameters on which the proof splits at entry (None / not None): in each case the
                                             parameter is the constant None or a value of the plain type
    descends_to key                          a variant of a recursive function whose recursive calls are met with ANOTHER contract of the
                                             same function (registered under `key`), one under which the function does not recurse
    callee_variants {qualname: tag}         which variant (`qualname:tag`) of a callee's contract this function's calls are met with; the
                                             variant's preconditions are obligations at each call as usual (default: the first variant whose
                                             parameter types fit)
    rec_group name                           functions that call each other recursively share a group: a call to a member of the
                                             caller's group must decrease the measure (callee's measure of the arguments < caller's on entry)
    """
    c = dict(qualname=qualname, params=dict(params or {}), returns=returns,
             requires=list(requires), ensures=list(ensures), modifies=list(modifies),
             raises=list(raises), loops=dict(loops or {}), locals=dict(locals or {}),
             ghost=dict(ghost or {}), trusted=bool(trusted), note=note,
             exc_ensures=dict(exc_ensures or {}), inline=list(inline), pure=bool(pure),
             decreases=decreases, fresh=fresh, ghost_vars=dict(ghost_vars or {}),
             ghost_code=list(ghost_code), ghost_returns=dict(ghost_returns or {}), raises_when=dict(raises_when or {}),
             writes_fresh=list(writes_fresh), native_ensures=native_ensures, native_requires=native_requires,
             functional=functional, internal_ensures=list(internal_ensures), param_attrs=dict(param_attrs or {}),
             rec_group=rec_group, case_split=list(case_split), descends_to=descends_to,
             callee_variants=dict(callee_variants or {}))
    CONTRACTS[qualname] = c
    return c


def external(qualname, **kw):
    kw["trusted"] = True
    c = contract(qualname, **kw)
    EXTERNALS[qualname] = c
    return c


def classdef(qualname, fields, invariant=()):
    CLASSDEFS[qualname] = dict(qualname=qualname, fields=dict(fields), invariant=list(invariant))


def lemma(name, **kw):
    LEMMAS[name] = dict(name=name, **kw)
    return LEMMAS[name]


def opaque(f):
    """A spec function the verifier keeps folded: occurrences become applications of one uninterpreted
    function (of the arguments and of the heap fields the body reads) with a single defining axiom, so that two
    occurrences with the same arguments are the same term instead of two alpha-variants of the body."""
    f.__pyvc_spec__ = True
    f.__pyvc_opaque__ = True
    return f


def spec(f):
    """Marks a ghost/spec function: pure Python, translated symbolically by inlining and
    executed natively by the run-time checker."""
    f.__pyvc_spec__ = True
    return f
