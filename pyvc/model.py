"""Concrete function inputs from a z3 counter-model of a failed obligation (entry state only)."""
from __future__ import annotations
import z3
from .engine import *  # noqa
from .engine import Val, I, B, S
from .api import CLASSDEFS


class Extractor:
    def __init__(self, ex, model):
        self.ex = ex
        self.m = model
        self.jv_names = {}
        self.dict_classes = []
        self.key_candidates = set()

    def ev(self, t):
        return self.m.eval(t, model_completion=True)

    def heap0(self, key, sort):
        init = self.ex.init_heap
        if key not in init:
            init[key] = z3.Const("H0_" + key, z3.ArraySort(I, sort))
        return init[key]

    def int_(self, t):
        v = self.ev(t)
        return v.as_long() if z3.is_int_value(v) else 0

    def value(self, v, depth=0):
        ty = v.ty
        n = ty.name
        if n in ("int",):
            return self.int_(v.t)
        if n == "datetime":
            return {"$k": "dt", "us": self.int_(v.t)}
        if n == "timedelta":
            return {"$k": "td", "us": self.int_(v.t)}
        if n == "bool":
            return z3.is_true(self.ev(v.t))
        if n == "str":
            s = self.ev(v.t)
            return s.as_string() if z3.is_string_value(s) else ""
        if n == "float":
            r = self.ev(v.t)
            try:
                return float(r.numerator_as_long()) / float(r.denominator_as_long())
            except Exception:
                return 0.0
        if n == "None":
            return None
        if n == "JV":
            return self.jv(self.ev(v.t))
        if n == "Opt":
            inner = ty.args[0]
            if is_reflike(inner):
                r = self.int_(v.t)
                if r == 0:
                    return None
                return self.value(Val(inner, z3.IntVal(r)), depth)
            srt = opt_of(ty)
            if z3.is_true(self.ev(srt.is_none(v.t))):
                return None
            return self.value(Val(inner, srt.val(v.t)), depth)
        if n == "Tuple":
            return {"$k": "tuple", "items": [self.value(x, depth + 1) for x in v.t]}
        if n == "List":
            r = self.int_(v.t)
            ln = self.int_(z3.Select(self.heap0("List.len", I), r))
            ln = max(0, min(ln, 6))
            ety = ty.args[0]
            items = []
            if ety is not None:
                arr = z3.Select(self.heap0("List.items." + str(sort_of(ety)).replace(" ", "_"), z3.ArraySort(I, sort_of(ety))), r)
                for j in range(ln):
                    items.append(self.value(from_sort_term(z3.Select(arr, j), ety), depth + 1))
            return {"$k": "list", "ref": r, "items": items}
        if n == "Dict":
            return self.dict_(v)
        if n == "Obj":
            cls = ty.args[0]
            r = self.int_(v.t)
            cd = CLASSDEFS.get(cls)
            if cls == "aw_core.models.Event":
                f = lambda name, fty: self.value(from_sort_term(
                    z3.Select(self.heap0(f"{cls}.{name}", sort_of(fty)), r), fty), depth + 1)
                ts = f("timestamp", DT)["us"]
                dur = f("duration", TD)["us"]
                idv = f("id", OptT(INT))
                data = f("data", DictT(JV))
                return {"$k": "Event", "ref": r, "id": idv, "ts": ts, "dur": dur, "data": data}
            if cls == "timeslot.timeslot.Timeslot":
                st_ = self.int_(z3.Select(self.heap0(f"{cls}.start", I), r))
                en = self.int_(z3.Select(self.heap0(f"{cls}.end", I), r))
                return {"$k": "Timeslot", "ref": r, "start": st_, "end": en}
        return None

    def jv(self, val):
        key = str(val)
        if key not in self.jv_names:
            self.jv_names[key] = f"v{len(self.jv_names)}"
        return self.jv_names[key]

    def dict_(self, v):
        vty = v.ty.args[0] or JV
        os_ = opt_sort(sort_of(vty))
        r = self.int_(v.t)
        marr = z3.Select(self.heap0("Dict.map." + str(sort_of(vty)).replace(" ", "_"), z3.ArraySort(S, os_.sort)), r)
        out = {}
        for k in sorted(self.key_candidates):
            cell = z3.Select(marr, z3.StringVal(k))
            if z3.is_true(self.ev(os_.is_some(cell))):
                out[k] = self.value(from_sort_term(os_.val(cell), vty))
        # distinguish dicts that differ outside the candidate keys
        mv = self.ev(marr)
        cls = None
        for i, (other, _) in enumerate(self.dict_classes):
            if z3.is_true(self.ev(other == marr)):
                cls = i
                break
        if cls is None:
            self.dict_classes.append((marr, r))
            cls = len(self.dict_classes) - 1
        if z3.is_true(self.ev(marr != z3.K(S, os_.none))) or out:
            out.setdefault("_c", cls)
        return {"$k": "dict", "ref": r, "items": out}


def model_inputs(ob, m):
    """Hook used by solve.extract_model: {param: json} from the entry environment of the function."""
    ex = ob.state.ex
    env = getattr(ex, "entry_env", None)
    if env is None:
        return None
    x = Extractor(ex, m)
    x.key_candidates = set(getattr(ex, "key_candidates", ()))
    out = {}
    for p, v in env.items():
        try:
            out[p] = x.value(v)
        except Exception as e:  # pragma: no cover
            out[p] = {"$error": repr(e)[:100]}
    return out
