"""Executor: statements, control flow, obligations.  Expressions / calls / loops / builtins are mix-ins."""
from __future__ import annotations
import ast
import z3

from . import front
from .api import CONTRACTS, CLASSDEFS
from .engine import *  # noqa
from .engine import Val, State, Obligation, Unsupported, EngineError, fresh, I, B, S, R, NONE_VAL, CLASS_BY_ID
from .expr import ExprMixin
from .calls import CallMixin
from .loops import LoopMixin, CompMixin
from .builtins import BuiltinMixin
from .sqlite_model import SqliteMixin

MAX_STATES = 4000


class Executor(ExprMixin, CallMixin, LoopMixin, CompMixin, SqliteMixin, BuiltinMixin):
    def __init__(self, world, prop="", bounded=None):
        self.world = world
        self.prop = prop
        self.bounded = bounded          # None = deductive; int = unroll bound
        self.init_heap = {}
        self.obligations = []
        self.used_assumptions = set(["A-LOG", "T-SOLVER"])
        self.trusted_used = set()
        self.inlined = set()
        self.lemmas_used = set()
        self.cur_fn = None              # qualname of the function being verified (names obligations)
        self.collect = True             # False during dry runs
        self.depth = 0
        self.write_log = None
        self.write_refs = None
        self.contradictions = []
        self.axioms = []                # global background facts (instantiated lemma facts)
        self.loop_ord_cache = {}
        self.epochs = {}                # allocation epochs: base id -> (previous base id, refs used there)
        self.old_refs = set()           # ids of input reference constants (allocated before entry)
        self.region_havoc = {}          # id(fresh array) -> (previous array, allocation point below which it is equal)

    def contract_of(self, qualname):
        a = getattr(self, "active", None)
        if a and qualname in a:
            return a[qualname]
        return CONTRACTS.get(qualname)

    # -- obligations ---------------------------------------------------------------------------
    def oblige(self, st, kind, goal, clause=None, site=None, note=""):
        if not self.collect:
            return
        name = f"{self.prop}/{self.cur_fn}/{kind}"
        hyps = st.hyp() + self.axioms
        # a conjunctive goal is discharged conjunct by conjunct (same obligation name; all must be unsat)
        for g in split_goal(goal):
            ob = Obligation(name, hyps, g, self.cur_fn, kind, clause=clause, site=site, state=st, note=note)
            self.obligations.append(ob)

    # -- blocks / statements -------------------------------------------------------------------
    def exec_block(self, stmts, st):
        states = [st]
        for s in stmts:
            nxt = []
            for cur in states:
                if cur.status != "run":
                    nxt.append(cur)
                else:
                    outs = self.exec_stmt(s, cur)
                    gc = self.ghost_after(s, cur)
                    if gc:
                        outs2 = []
                        for o in outs:
                            if o.status == "run":
                                outs2.extend(self.exec_block(gc, o))
                            else:
                                outs2.append(o)
                        outs = outs2
                    nxt.extend(outs)
            if len(nxt) > MAX_STATES:
                raise Unsupported("path explosion")
            states = nxt
        return states

    def ghost_after(self, stmt, st):
        """Ghost statements the contract attaches after a statement (matched by source-text prefix)."""
        fr = st.frame
        if fr is None or not hasattr(fr, "qualname"):
            return None
        c = getattr(self, "active", {}).get(fr.qualname)
        if not c or not c.get("ghost_code"):
            return None
        out = []
        txt = None
        for k, g in enumerate(c["ghost_code"]):
            if g.get("after") is None:
                continue
            if txt is None:
                txt = ast.unparse(stmt)
            if txt.startswith(g["after"]):
                self.ghost_hit.add(k)
                out.extend(ast.parse(g["code"]).body)
        return out or None

    def flush(self, st):
        sp = st.spawned
        st.spawned = []
        return [st] + sp

    def is_logger_call(self, node):
        if isinstance(node, ast.Expr) and isinstance(node.value, ast.Call):
            f = node.value.func
            if isinstance(f, ast.Attribute) and f.attr in ("debug", "info", "warning", "error", "exception", "critical"):
                tgt = ast.unparse(f.value)
                return tgt in ("logger", "self.logger", "logging")
        # self.logger = logger.getChild(...): the logger attribute is not part of the modelled state (A-LOG)
        if isinstance(node, ast.Assign) and len(node.targets) == 1 and ast.unparse(node.targets[0]) == "self.logger" \
                and isinstance(node.value, ast.Call) and ast.unparse(node.value.func) in ("logger.getChild", "logging.getLogger"):
            return True
        return False

    def exec_stmt(self, s, st):
        m = getattr(self, "st_" + type(s).__name__, None)
        if m is None:
            raise Unsupported(f"statement {type(s).__name__} at line {getattr(s, 'lineno', '?')}")
        if isinstance(s, (ast.Assign, ast.Expr, ast.Return, ast.AugAssign, ast.AnnAssign)):
            names = self.class_receivers(s, st)
            if names:
                return self.split_on_class(s, st, names[0], m)
        return m(s, st)

    # -- dynamic dispatch on a variable that holds a class ------------------------------------------
    def class_receivers(self, s, st):
        """Names used as `name.method(...)` in the statement whose value is a *symbolic* class object."""
        out = []
        for n in ast.walk(s):
            if isinstance(n, ast.Call) and isinstance(n.func, ast.Attribute) and isinstance(n.func.value, ast.Name):
                v = st.env.get(n.func.value.id)
                if v is not None and (v.ty == CLS or (v.ty.name == "Opt" and v.ty.args[0] == CLS)) and n.func.value.id not in out:
                    out.append(n.func.value.id)
        return out

    def split_on_class(self, s, st, name, m):
        """Case split: the variable is None, or one of the classes known to the run (obligation: there is no other
        case); in each case the statement is executed with the variable bound to that class."""
        v = st.env[name]
        isnone, tag = self._cls_view(v, st)
        line = getattr(s, "lineno", None)
        cands = sorted(CLASS_BY_ID.items())
        self.oblige(st, f"dispatch:{name}@{line}", z3.Or(isnone, *[tag == k for k, _ in cands]),
                    clause=f"{name} holds None or one of the classes {[ci.qualname.split('.')[-1] for _, ci in cands]}", site=line)
        outs = []

        def consts(t, acc):
            todo, seen = [t], set()
            while todo:
                x = todo.pop()
                if x.get_id() in seen:
                    continue
                seen.add(x.get_id())
                if z3.is_const(x) and x.decl().kind() == z3.Z3_OP_UNINTERPRETED:
                    acc.add(x.get_id())
                todo.extend(x.children())
            return acc

        mine = consts(tag, consts(isnone, set()))
        related = [h for h in st.hyp() if not z3.is_quantifier(h) and consts(h, set()) & mine]

        def infeasible(cond):
            # pruning only: a case excluded by the path facts about this variable need not be executed
            # (fewer facts / an `unknown` only keep a case that could have been dropped)
            sv = z3.Solver()
            sv.set("timeout", 500)
            sv.add(*related, cond)
            return sv.check() == z3.unsat

        if not z3.is_false(z3.simplify(isnone)) and not infeasible(isnone):
            c = st.copy()
            c.assume(isnone)
            c.env = dict(c.env)
            c.env[name] = NONE_VAL
            outs.extend(self.exec_stmt(s, c))
        for k, ci in cands:
            if infeasible(z3.And(z3.Not(isnone), tag == k)):
                continue
            c = st.copy()
            c.assume(z3.And(z3.Not(isnone), tag == k))
            c.env = dict(c.env)
            c.env[name] = Val(FN, ("class", ci))
            outs.extend(self.exec_stmt(s, c))
        return outs

    def st_Pass(self, s, st):
        return [st]

    def st_Expr(self, s, st):
        if self.is_logger_call(s):
            return [st]
        if isinstance(s.value, ast.Constant):
            return [st]
        if isinstance(s.value, ast.Yield):
            return self.exec_yield(s.value, st)
        self.eval(s.value, st)
        return self.flush(st)

    def st_Assign(self, s, st):
        if self.is_logger_call(s):
            self.used_assumptions.add("A-LOG")
            return [st]
        v = self.eval(s.value, st)
        v = self.apply_local_type(s.targets[0], v, st, s.value)
        for tgt in s.targets:
            self.assign(tgt, v, st)
        return self.flush(st)

    def st_AnnAssign(self, s, st):
        if s.value is None:
            return [st]
        v = self.eval(s.value, st)
        v = self.apply_local_type(s.target, v, st, s.value)
        self.assign(s.target, v, st)
        return self.flush(st)

    def st_AugAssign(self, s, st):
        load = _as_load(s.target)
        cur = self.eval(load, st)
        rhs = self.eval(s.value, st)
        if isinstance(s.op, ast.Add) and cur.ty.name == "List":
            self.list_extend(cur, rhs, st)
            return self.flush(st)
        v = self.binop(s.op, cur, rhs, st, s)
        self.assign(s.target, v, st)
        return self.flush(st)

    def st_Return(self, s, st):
        v = self.eval(s.value, st) if s.value is not None else NONE_VAL
        outs = self.flush(st)
        st.status = "return"
        st.ret = v
        return outs

    def st_If(self, s, st):
        c = z3.simplify(self.truth(self.eval(s.test, st), st))
        outs = self.flush(st)
        sp = outs[1:]
        if z3.is_true(c):
            return self.exec_block(s.body, st) + sp
        if z3.is_false(c):
            return self.exec_block(s.orelse, st) + sp
        a = st
        b = st.copy()
        a.pc.append(c)
        a.trace.append((s.lineno, True))
        b.pc.append(z3.Not(c))
        b.trace.append((s.lineno, False))
        return self.exec_block(s.body, a) + self.exec_block(s.orelse, b) + sp

    def st_Break(self, s, st):
        st.status = "break"
        return [st]

    def st_Continue(self, s, st):
        st.status = "continue"
        return [st]

    def st_Raise(self, s, st):
        if s.exc is None:
            name = st.ghost.get("__handling__", "Exception")
        else:
            e = s.exc
            if isinstance(e, ast.Call):
                e = e.func
            name = self.exc_name(e, st)
        st.status = "raise"
        st.exc = name
        st.exc_site = s.lineno
        return [st]

    def exc_name(self, e, st):
        txt = ast.unparse(e)
        return txt.split(".")[-1]

    def st_Assert(self, s, st):
        c = self.truth(self.eval(s.test, st), st)
        outs = self.flush(st)
        st.raise_if(z3.Not(c), "AssertionError", s.lineno)
        return outs + self.flush(st)[1:]

    def st_Import(self, s, st):
        for a in s.names:
            st.env[a.asname or a.name.split(".")[0]] = Val(FN, ("ext", a.name if a.asname else a.name.split(".")[0]))
        return [st]

    def st_ImportFrom(self, s, st):
        mod = st.frame.module
        base = s.module or ""
        if s.level:
            pkg = mod._pkg()
            for _ in range(s.level - 1):
                pkg = pkg.rsplit(".", 1)[0] if "." in pkg else ""
            base = (pkg + "." + base).strip(".") if base else pkg
        for a in s.names:
            st.env[a.asname or a.name] = self.global_val(f"{base}.{a.name}")
        return [st]

    def st_FunctionDef(self, s, st):
        fi = front.FuncInfo(f"{st.frame.qualname}.<locals>.{s.name}", s, st.frame.module)
        st.env[s.name] = Val(FN, ("closure", fi, st.env, st.frame))
        return [st]

    def st_Delete(self, s, st):
        for tgt in s.targets:
            if isinstance(tgt, ast.Subscript):
                obj = self.eval(tgt.value, st)
                key = self.eval(tgt.slice, st)
                if obj.ty.name == "Dict":
                    self.dict_del(obj, key, st, s.lineno)
                    continue
            raise Unsupported("del target")
        return self.flush(st)

    def st_Try(self, s, st):
        outs = self.exec_block(s.body, st)
        res = []
        for o in outs:
            if o.status == "raise":
                handled = False
                for h in s.handlers:
                    if self.handler_matches(h, o.exc):
                        o.status = "run"
                        o.ghost["__handling__"] = o.exc
                        o.exc = None
                        if h.name:
                            o.env[h.name] = Val(ANYREF, z3.IntVal(0))
                        res.extend(self.exec_block(h.body, o))
                        handled = True
                        break
                if not handled:
                    res.append(o)
            elif o.status == "run" and s.orelse:
                res.extend(self.exec_block(s.orelse, o))
            else:
                res.append(o)
        if s.finalbody:
            fin = []
            for o in res:
                saved = (o.status, o.ret, o.exc)
                o.status = "run"
                for f in self.exec_block(s.finalbody, o):
                    if f.status == "run":
                        f.status, f.ret, f.exc = saved
                    fin.append(f)
            res = fin
        return res

    EXC_PARENTS = {
        "QueryParseException": "QueryException", "QueryInterpretException": "QueryException",
        "QueryFunctionException": "QueryException", "QueryException": "Exception",
        "IndexError": "LookupError", "KeyError": "LookupError", "LookupError": "Exception",
        "ValueError": "Exception", "TypeError": "Exception", "AttributeError": "Exception",
        "AssertionError": "Exception", "DoesNotExist": "Exception", "ParseError": "ValueError",
        "NotImplementedError": "Exception", "IntegrityError": "Exception", "ZeroDivisionError": "Exception",
        "UnicodeError": "ValueError",
    }

    def is_subexc(self, name, parent):
        while name is not None:
            if name == parent:
                return True
            name = self.EXC_PARENTS.get(name)
        return False

    def handler_matches(self, h, exc):
        if h.type is None:
            return True
        types = h.type.elts if isinstance(h.type, ast.Tuple) else [h.type]
        return any(self.is_subexc(exc, ast.unparse(t).split(".")[-1]) for t in types)

    def st_With(self, s, st):
        return self.exec_with(s, st)

    def apply_local_type(self, tgt, v, st, node=None):
        """Contract `locals` give the element type of lists that start out as an empty literal."""
        if isinstance(tgt, ast.Name) and st.frame is not None:
            c = self.contract_of(st.frame.qualname)
            if c and tgt.id in c["locals"]:
                ty = parse_type(c["locals"][tgt.id])
                if v.ty.name == "List" and v.ty.args[0] is None and ty.name == "List":
                    return Val(ty, v.t)
                if v.ty.name == "Dict" and ty.name == "Dict" and v.ty != ty:
                    if (isinstance(node, ast.Dict) and not node.keys) or \
                            (isinstance(node, ast.Call) and isinstance(node.func, ast.Name) and node.func.id == "dict"
                             and not node.args and not node.keywords):
                        # `{}` / `dict()`: the same (just allocated) object, its empty map recorded under the declared value type
                        vty = ty.args[0]
                        st.write(self._map_key(vty), z3.ArraySort(S, opt_sort(sort_of(vty)).sort), v.t, self.empty_map(vty))
                        self.log_write(self._map_key(vty))
                    return Val(ty, v.t)
        return v

    # -- assignment ----------------------------------------------------------------------------
    def assign(self, tgt, v, st):
        if isinstance(tgt, ast.Name):
            st.env[tgt.id] = v
        elif isinstance(tgt, (ast.Tuple, ast.List)):
            items = self.unpack(v, len(tgt.elts), st)
            for t, x in zip(tgt.elts, items):
                self.assign(t, x, st)
        elif isinstance(tgt, ast.Attribute):
            obj = self.eval(tgt.value, st)
            self.set_attr(obj, tgt.attr, v, st, tgt)
        elif isinstance(tgt, ast.Subscript):
            obj = self.eval(tgt.value, st)
            if obj.ty.name == "SDict" and isinstance(tgt.value, ast.Name):
                # a local plain dict with constant keys and heterogeneous values (e.g. the JSON form of an event)
                key = self.eval(tgt.slice, st)
                if not (key.ty == STR and z3.is_string_value(key.t)):
                    raise Unsupported("static dict with symbolic key")
                d = dict(obj.t)
                d[key.t.as_string()] = v
                st.env[tgt.value.id] = Val(Ty("SDict"), d)
                return
            self.set_item(obj, tgt.slice, v, st, tgt)
        else:
            raise Unsupported(f"assign target {type(tgt).__name__}")

    def unpack(self, v, n, st):
        if v.ty.name == "Tuple":
            if len(v.t) != n:
                # unpacking a sequence of another length: ValueError ("not enough / too many values to unpack")
                st.raise_if(z3.BoolVal(True), "ValueError")
                return [NONE_VAL] * n
            return v.t
        raise Unsupported(f"unpack {v.ty}")

    # -- top level: verify one function against its contract -------------------------------------
    def fresh_input(self, name, ty, st, assume_valid=True):
        """A symbolic input of static type ty, with its type invariant assumed."""
        if ty.name == "Tuple":
            return Val(ty, [self.fresh_input(f"{name}_{i}", a, st) for i, a in enumerate(ty.args)])
        if ty == NONE:
            return NONE_VAL
        if ty.name == "SDict":
            raise EngineError("SDict is not an input type")
        t = fresh(name, sort_of(ty))
        v = Val(ty, t)
        if assume_valid:
            self.assume_valid(v, st)
            if is_reflike(ty) and st.alloc_base is not None and st.alloc_base.get_id() in self.epochs \
                    and self.epochs[st.alloc_base.get_id()] == (None, 0) and st.alloc_off == 0:
                self.old_refs.add(t.get_id())
        return v

    def assume_valid(self, v, st, depth=0):
        ty = v.ty
        if is_reflike(ty):
            st.assume(z3.And(v.t > 0, v.t < st.alloc))
            self.assume_obj_valid(v, st, depth)
        elif ty.name == "Opt" and is_reflike(ty.args[0]):
            st.assume(z3.And(v.t >= 0, v.t < st.alloc))
            inner = Val(ty.args[0], v.t)
            g = v.t != 0
            st.guards.append(g)
            try:
                self.assume_obj_valid(inner, st, depth)
            finally:
                st.guards.pop()

    def assume_obj_valid(self, v, st, depth):
        ty = v.ty
        if depth > 2:
            return
        if ty.name == "List":
            n = self.list_len(v, st)
            st.assume(n >= 0)
            et = ty.args[0]
            if et is not None and (is_reflike(et) or (et.name == "Opt" and is_reflike(et.args[0]))):
                j = fresh("j", I)
                el = Val(et, z3.Select(self.list_items(v, st), j))
                sub = st.copy()
                sub.pc = []
                sub.guards = []
                self.assume_valid(el, sub, depth + 1)
                body = z3.And(*sub.pc) if sub.pc else z3.BoolVal(True)
                g = st.guard()
                q = z3.ForAll([j], z3.Implies(z3.And(0 <= j, j < n), body))
                st.assume(q)
        elif ty.name == "Obj":
            cd = CLASSDEFS.get(ty.args[0])
            if cd:
                for fname, ftxt in cd["fields"].items():
                    fty = parse_type(ftxt)
                    if is_reflike(fty) or (fty.name == "Opt" and is_reflike(fty.args[0])):
                        fv = Val(fty, st.read(f"{ty.args[0]}.{fname}", sort_of(fty), v.t))
                        self.assume_valid(fv, st, depth + 1)
                if cd.get("record") and not cd.get("partial"):
                    for fname in cd["fields"]:
                        st.assume(st.read(f"{ty.args[0]}.{fname}!has", B, v.t))
                for inv in cd.get("invariant", []):
                    c = self.spec_truth(inv, {"self": v}, st)
                    st.assume(c)

    def verify_function(self, qualname, contract=None):
        """Generate the obligations of `qualname` against its contract.  Returns exit states."""
        fi = self.world.function(qualname)
        c = contract or CONTRACTS[qualname]
        self.active = {qualname: c}
        self.cur_contract = c
        self.ghost_hit = set()
        short = qualname
        self.cur_fn = short
        st = State(self)
        st.frame = fi
        a0 = fresh("alloc0", I)
        self.epochs[a0.get_id()] = (None, 0)
        st.alloc_base, st.alloc_off = a0, 0
        st.assume(st.alloc > 1)
        self.entry_alloc = st.alloc
        env = {}
        for p in fi.params + fi.kwonly:
            if p not in c["params"]:
                raise EngineError(f"contract of {qualname} lacks a type for parameter {p}")
            env[p] = self.fresh_input(p, parse_type(c["params"][p]), st)
            if p in c.get("param_attrs", {}) and env[p].ty == DT:
                # a datetime in any zone / possibly naive: symbolic UTC offset (whole microseconds) and awareness
                off = fresh(p + "_off", I)
                aware = fresh(p + "_aware", B)
                st.assume(z3.And(off >= -14 * 3600 * 10 ** 6, off <= 14 * 3600 * 10 ** 6, z3.Implies(z3.Not(aware), off == 0)))
                env[p] = Val(DT, env[p].t, off=off, aware=aware)
        if fi.node.name == "__init__" and fi.cls is not None and CLASSDEFS.get(fi.cls.qualname, {}).get("record"):
            # the object under construction starts with no keys: presence flags are consulted, not assumed
            selfv = env[fi.params[0]]
            st.ghost["__constructing__"] = (selfv.t,)
            for f in CLASSDEFS[fi.cls.qualname]["fields"]:
                st.write(f"{fi.cls.qualname}.{f}!has", B, selfv.t, z3.BoolVal(False))
        if fi.kind == "setter" and fi.cls is not None and CLASSDEFS.get(fi.cls.qualname, {}).get("record"):
            # setters run during construction as well: presence of keys is not assumed for `self`
            st.ghost["__constructing__"] = (env[fi.params[0]].t,)
        st.env = dict(env)
        for gname, gty in c.get("ghost", {}).items():
            st.env[gname] = self.fresh_input(gname, parse_type(gty), st)
            env[gname] = st.env[gname]
        for k, r in enumerate(c["requires"]):
            st.assume(self.spec_truth(r, env, st))
        st.old = st.copy()
        st.old.env = dict(env)
        self.entry_state = st.old
        self.entry_env = env
        for gname, gspec in c.get("ghost_vars", {}).items():
            gv = self.eval(ast.parse(gspec[1], mode="eval").body, st)
            gt = parse_type(gspec[0])
            st.env[gname] = Val(gt, gv.t) if gv.ty.name == "List" and gv.ty.args[0] is None else gv
        if fi.is_generator:
            rty = parse_type(c["returns"])
            st.env["__yield__"] = self.new_list(rty.args[0], st)
        starts = [st]
        for pname in c.get("case_split", []):
            # proof by cases on an Optional parameter: None, or a value of the plain type (the body then sees a constant None
            # or a plain value, so that tests like `v is not None` are decided while the code is being read)
            nxt = []
            for s0 in starts:
                v = s0.env[pname]
                if v.ty.name != "Opt":
                    nxt.append(s0)
                    continue
                isn = self.is_none(v, s0)
                a_, b_ = s0.copy(), s0.copy()
                a_.env = dict(s0.env)
                b_.env = dict(s0.env)
                a_.assume(isn)
                a_.env[pname] = NONE_VAL
                b_.assume(z3.Not(isn))
                b_.env[pname] = self._inner(v)
                nxt.extend([a_, b_])
            starts = nxt
        outs = []
        for s0 in starts:
            outs.extend(self.exec_block(fi.body, s0))
        for k, g in enumerate(c.get("ghost_code", [])):
            if k not in self.ghost_hit:
                raise Unsupported(f"ghost anchor {g.get('after') or 'yield'!r} not found in {qualname} (stale contract)")
        exits = []
        for o in outs:
            if o.status == "run":
                o.status = "return"
                o.ret = NONE_VAL
            exits.append(o)
            self.check_exit(fi, c, o, env)
        return exits

    def check_exit(self, fi, c, o, env):
        if o.status in ("return", "raise"):
            self.check_frame(c, o, env)
        if o.status == "return":
            penv = dict(env)
            penv["result"] = o.ret if not fi.is_generator else o.env["__yield__"]
            if c.get("returns") and not fi.is_generator:
                rty = parse_type(c["returns"])
                rv = penv["result"]
                if rv.ty != rty and rty.name in ("List", "Dict", "Opt", "Tuple", "Obj", "Cls") and rv.ty.name != "SDict":
                    try:
                        penv["result"] = self.coerce_val(rv, rty, o, "result-type:result")
                    except Unsupported:
                        pass
            for gname in list(c.get("ghost_vars", {})) + list(c.get("ghost_returns", {})):
                if gname in o.env:
                    penv[gname] = o.env[gname]
            for gname, gv in o.env.items():
                if gname.startswith("g_") and gname not in penv:
                    penv[gname] = gv
            for k, e in enumerate(c["ensures"]):
                goal = self.spec_truth(e, penv, o, old=o.old)
                self.oblige(o, f"ensures#{k}", goal, clause=e)
                # postconditions are proved in order; an earlier one may be used for a later one (cut rule)
                o = o.copy()
                o.assume(goal)
        elif o.status == "raise":
            allowed = c["raises"]
            if not any(self.is_subexc(o.exc, a) for a in allowed):
                self.oblige(o, f"raises/{o.exc}", z3.BoolVal(False),
                            clause=f"no {o.exc} escapes (allowed: {allowed})", site=o.exc_site)
            else:
                for k, e in enumerate(c["exc_ensures"].get(o.exc, [])):
                    goal = self.spec_truth(e, dict(env), o, old=o.old)
                    self.oblige(o, f"exc_ensures/{o.exc}#{k}", goal, clause=e)
        else:
            raise EngineError(f"exit status {o.status}")


def split_goal(g, budget=16):
    """Equivalent list of smaller goals: And / Or-over-And / Implies-to-And / ForAll-of-And are distributed."""
    out = []

    def go(t, depth):
        if len(out) >= budget or depth > 4:
            out.append(t)
            return
        if z3.is_and(t):
            for c in t.children():
                go(c, depth + 1)
        elif z3.is_or(t):
            ch = t.children()
            ands = [c for c in ch if z3.is_and(c)]
            if len(ands) == 1 and len(ands[0].children()) <= 8:
                rest = [c for c in ch if not c.eq(ands[0])]
                for c in ands[0].children():
                    go(z3.Or(*rest, c), depth + 1)
            else:
                out.append(t)
        elif z3.is_implies(t) and z3.is_and(t.arg(1)):
            for c in t.arg(1).children():
                go(z3.Implies(t.arg(0), c), depth + 1)
        elif z3.is_quantifier(t) and t.is_forall() and t.num_patterns() == 0:
            body = t.body()
            inner = body.arg(1) if z3.is_implies(body) else body
            if z3.is_and(inner) and len(inner.children()) <= 8:
                n = t.num_vars()
                vs = [z3.Const(t.var_name(i), t.var_sort(i)) for i in range(n)]
                inst = z3.substitute_vars(body, *reversed(vs))
                i2 = inst.arg(1) if z3.is_implies(inst) else inst
                for c in i2.children():
                    piece = z3.Implies(inst.arg(0), c) if z3.is_implies(inst) else c
                    out.append(z3.ForAll(vs, piece))
            else:
                out.append(t)
        else:
            out.append(t)
    go(g, 0)
    return out or [g]


def _as_load(node):
    n = ast.parse(ast.unparse(node), mode="eval").body
    ast.copy_location(n, node)
    return n
