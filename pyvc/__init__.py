"""pyvc: contract-based deductive verification of real Python source (aw-core)."""
