"""Discharging obligations: z3 in forked worker processes, cvc5 (binary) on z3's unknowns."""
from __future__ import annotations
import multiprocessing as mp
import os
import subprocess
import tempfile
import time
import z3

_OBS = []


def _smt2(ob):
    s = z3.Solver()
    s.add(ob.formula())
    return s.to_smt2()


def _solve_one(args):
    idx, timeout_ms, want_model = args
    ob = _OBS[idx]
    t0 = time.time()
    f = z3.simplify(ob.formula())
    # portfolio: quantifier instantiation is sensitive to incidental naming/ordering, so a VC that the
    # default configuration leaves open is retried under other strategies before it counts as open
    first = max(2000, timeout_ms // 4)
    configs = [({}, first), ({"smt.mbqi": False}, first), ({"smt.random_seed": 1}, first),
               ({"smt.random_seed": 2, "smt.mbqi": False}, first), ({"smt.random_seed": 3, "smt.qi.eager_threshold": 50.0}, first),
               ({}, timeout_ms)]
    r = z3.unknown
    backend = "z3"
    res = "unknown"
    has_quant = "forall" in f.sexpr() or "exists" in f.sexpr()
    model = None
    smt2 = None
    # relevance: a VC that stays open under all hypotheses is retried with the most recent ones only (the assumed hints,
    # cuts and callee postconditions closest to the goal) plus every quantifier-free fact - fewer hypotheses, so `unsat`
    # there is `unsat` of the full VC; `sat` / `unknown` there mean nothing
    hyps = list(getattr(ob, "hyps", []) or [])
    tail_sizes = (14, 40) if len(hyps) > 30 else ()
    tails = [None] * len(tail_sizes)            # built on demand (only VCs the default configuration leaves open get there)

    def tail_formula(i):
        if tails[i] is None:
            n = tail_sizes[i]
            sub = [h for j, h in enumerate(hyps) if j >= len(hyps) - n or not z3.is_quantifier(h)]
            tails[i] = z3.And(*sub, z3.Not(ob.goal))
        return tails[i]
    configs = configs[:1] + [({"__tail__": i}, min(first, 2500 if i == 0 else 4000)) for i in range(len(tail_sizes))] + configs[1:]
    cvc5_after = 1 if tail_sizes else 0        # cvc5 gets its turn after the default configuration and the short relevance retry
    for k, (opts, ms) in enumerate(configs):
        s = z3.Solver()
        s.set("timeout", ms)
        tail = opts.get("__tail__")
        for o, v in opts.items():
            if o != "__tail__":
                s.set(o, v)
        s.add(f if tail is None else tail_formula(tail))
        try:
            r = s.check()
        except z3.Z3Exception as e:  # pragma: no cover
            return idx, "error:" + str(e)[:200], time.time() - t0, None, "z3"
        if r == z3.unsat:
            backend = "z3" if k == 0 else f"z3[{k}]"
            res = "unsat"
            model = None
            break
        if r == z3.sat and tail is None:
            # a model of a *quantified* VC is only a candidate (instantiation-based reasoning is incomplete in
            # both directions in practice): keep it, but let the other strategies try to prove the VC
            if res != "sat":
                backend = "z3" if k == 0 else f"z3[{k}]"
                res = "sat"
                if want_model:
                    try:
                        model = extract_model(ob, s.model())
                    except Exception as e:  # pragma: no cover
                        model = {"__error__": str(e)[:200]}
            break      # replay on the real code decides whether the counter-model is genuine
        if k == cvc5_after:
            # second back end right after the first failed attempts: cvc5 on the same text.  Only `unsat` is
            # taken from it (a `sat` on a quantified VC is not a trusted refutation; replay decides).
            try:
                sf = z3.Solver()
                sf.add(f)
                smt2 = sf.to_smt2()
                res2 = run_cvc5(smt2, max(3, first // 1000))
                if res2 == "unsat":
                    res, backend, model = "unsat", "cvc5", None
                    break
            except Exception:
                pass
    return idx, res, time.time() - t0, model, backend


def run_cvc5(smt2, timeout_s):
    with tempfile.NamedTemporaryFile("w", suffix=".smt2", delete=False) as f:
        f.write("(set-logic ALL)\n" + smt2)
        path = f.name
    try:
        p = subprocess.run(["/usr/bin/cvc5", "--strings-exp", f"--tlimit={timeout_s * 1000}", path],
                           capture_output=True, text=True, timeout=timeout_s + 5)
        out = p.stdout.strip().splitlines()
        return out[0] if out else "unknown"
    except subprocess.TimeoutExpired:
        return "unknown"
    finally:
        os.unlink(path)


def extract_model(ob, m):
    """Concrete values of the function's entry state from a z3 model (for replay)."""
    ex = ob.state.ex if ob.state is not None else None
    hook = getattr(ex, "model_hook", None)
    if hook is None:
        return None
    return hook(ob, m)


def _worker_loop(conn):
    """Forked worker: receives task tuples, answers with _solve_one's result, until it is told to stop."""
    while True:
        try:
            task = conn.recv()
        except EOFError:
            return
        if task is None:
            return
        try:
            conn.send(_solve_one(task))
        except Exception as e:  # noqa: BLE001
            conn.send((task[0], "error:" + str(e)[:200], 0.0, None, "z3"))


def _hard_deadline_s(timeout_ms):
    """Upper bound for one task if every solver call honoured its timeout: all configurations of the portfolio plus cvc5,
    with a margin.  z3 does not always honour `timeout` (seen: minutes inside lp::dioph_eq): past this the worker is killed
    and the VC counts as `unknown`."""
    first = max(2000, timeout_ms // 4)
    return (8 * first + timeout_ms) / 1000.0 + 15.0


def _run_with_deadlines(todo, jobs):
    ctx = mp.get_context("fork")
    pending = list(reversed(todo))
    results = []
    workers = []          # [process, parent_conn, task or None, deadline]

    def spawn():
        pc, cc = ctx.Pipe()
        pr = ctx.Process(target=_worker_loop, args=(cc,), daemon=True)
        pr.start()
        cc.close()
        return [pr, pc, None, None]

    for _ in range(jobs):
        workers.append(spawn())
    try:
        while pending or any(w[2] is not None for w in workers):
            progressed = False
            for k, w in enumerate(workers):
                pr, pc, task, deadline = w
                if task is None and pending:
                    t = pending.pop()
                    pc.send(t)
                    w[2], w[3] = t, time.time() + _hard_deadline_s(t[1])
                    progressed = True
                elif task is not None:
                    if pc.poll(0):
                        try:
                            results.append(pc.recv())
                        except EOFError:
                            results.append((task[0], "unknown", 0.0, None, "worker-died"))
                            pr.kill()
                            workers[k] = spawn()
                            progressed = True
                            continue
                        w[2] = w[3] = None
                        progressed = True
                    elif time.time() > deadline or not pr.is_alive():
                        pr.kill()
                        pr.join(1)
                        results.append((task[0], "unknown", _hard_deadline_s(task[1]), None, "killed-at-hard-deadline"))
                        workers[k] = spawn()
                        progressed = True
            if not progressed:
                time.sleep(0.005)
    finally:
        for pr, pc, _, _ in workers:
            try:
                pc.send(None)
            except Exception:  # noqa: BLE001
                pass
        for pr, pc, _, _ in workers:
            pr.join(0.5)
            if pr.is_alive():
                pr.kill()
    return results


def solve_all(obligations, timeout_s=10, jobs=None, want_model=True):
    """Solve every obligation.  Sets .result in {unsat, sat, unknown}, .time, .model, .backend."""
    global _OBS
    _OBS = obligations
    jobs = jobs or min(16, os.cpu_count() or 4)
    tasks = [(i, int(timeout_s * 1000), want_model) for i in range(len(obligations))]
    if not tasks:
        return
    # trivial goals first (no solver)
    todo = []
    for i, ms, wm in tasks:
        ob = obligations[i]
        g = z3.simplify(ob.goal)
        if z3.is_true(g):
            ob.result, ob.time, ob.backend = "unsat", 0.0, "simplify"
        else:
            todo.append((i, ms, wm))
    if not todo:
        return
    results = _run_with_deadlines(todo, min(jobs, len(todo)))
    for idx, res, dt, model, backend in results:
        ob = obligations[idx]
        ob.result, ob.time, ob.model, ob.backend = res, dt, model, backend


def group(obligations):
    """Group per-path obligations by their stable name -> {name: [ob...]}"""
    out = {}
    for ob in obligations:
        out.setdefault(ob.name, []).append(ob)
    return out


def status_of(obs):
    rs = [o.result for o in obs]
    if all(r == "unsat" for r in rs):
        return "discharged"
    if any(r == "sat" for r in rs):
        return "refuted"
    return "unknown"
