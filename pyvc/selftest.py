"""Engine self-test: solver versions, a planted true VC and a planted false VC on real source."""
import subprocess
import sys
import z3
from . import front, symexec, solve


def main():
    print("z3", z3.get_version_string())
    print("cvc5", subprocess.run(["/usr/bin/cvc5", "--version"], capture_output=True, text=True).stdout.splitlines()[0])
    import contracts.models
    import contracts.heartbeats
    from .api import CONTRACTS
    w = front.World()
    ok = True
    for planted, want in ((None, "discharged"), ("result is None", "refuted")):
        ex = symexec.Executor(w, prop="SELF")
        ex.spec_modules = [w.module("contracts.heartbeats")]
        c = dict(CONTRACTS["aw_transform.heartbeats.heartbeat_merge"])
        if planted:
            c["ensures"] = [planted]
        ex.verify_function("aw_transform.heartbeats.heartbeat_merge", contract=c)
        solve.solve_all(ex.obligations, timeout_s=20)
        sts = {solve.status_of(o) for o in solve.group(ex.obligations).values()}
        got = "discharged" if sts == {"discharged"} else ("refuted" if "refuted" in sts else "unknown")
        print("planted", planted, "->", got, "(want", want + ")")
        ok = ok and got == want
    # engine regression cases: every `:ok` contract is discharged, every `:bad*` contract leaves an obligation open
    import contracts.selfcases  # noqa: F401
    for key in sorted(k for k in CONTRACTS if k.startswith("selfcases.cases.") and ":" in k):
        ex = symexec.Executor(w, prop="SELF")
        ex.spec_modules = [w.module("contracts.selfcases")]
        try:
            ex.verify_function(key.split(":")[0], contract=CONTRACTS[key])
            solve.solve_all(ex.obligations, timeout_s=10, want_model=False)
            failed = sorted(n.split("/", 2)[2] for n, g in solve.group(ex.obligations).items() if solve.status_of(g) != "discharged")
        except Exception as e:  # noqa: BLE001
            failed = [f"engine: {type(e).__name__}: {e}"]
        want_ok = key.endswith(":ok")
        good = (not failed) if want_ok else bool(failed) and not any(f.startswith("engine:") for f in failed)
        print(("ok  " if good else "BAD ") + key.split(".")[-1], "->", "discharged" if not failed else f"open: {failed[:3]}")
        ok = ok and good
    r = subprocess.run(["/venv/bin/python", "-c", "import aw_core, aw_datastore, aw_transform, aw_query; print('repo importable')"],
                       capture_output=True, text=True, cwd="/repo")
    print(r.stdout.strip() or r.stderr.strip()[-300:])
    ok = ok and r.returncode == 0
    return 0 if ok else 1


if __name__ == "__main__":
    sys.exit(main())
