"""Models of Python built-ins, list/dict/str/datetime primitives (mix-in of Executor).

Every model carries its raise condition (`raise_if`).  External library functions that are only
*assumed* are registered through contracts/external*.py, not here; what is here is the encoding of
the language's own data types (DESIGN 2.3).
"""
from __future__ import annotations
import ast
import datetime as _dt
import z3

from . import front
from .api import CONTRACTS, CLASSDEFS
from .engine import *  # noqa
from .engine import Val, Unsupported, EngineError, fresh, fresh_fn, I, B, S, R, NONE_VAL
from .expr import real_of

US = 1000000


def _mentions_var(t, v):
    todo, seen = [t], set()
    while todo:
        x = todo.pop()
        if x.get_id() in seen:
            continue
        seen.add(x.get_id())
        if x.eq(v):
            return True
        todo.extend(x.children())
    return False


def elem_sort_name(ty):
    return str(sort_of(ty)).replace(" ", "_")


class BuiltinMixin:
    # ==========================================================================================
    # lists
    # ==========================================================================================
    def list_len(self, v, st):
        return st.read("List.len", I, v.t)

    def _items_key(self, ety):
        return "List.items." + elem_sort_name(ety)

    def list_items(self, v, st):
        ety = v.ty.args[0]
        if ety is None:
            raise Unsupported("list with unknown element type")
        return st.read(self._items_key(ety), z3.ArraySort(I, sort_of(ety)), v.t)

    def list_elem_val(self, v, i, st):
        ety = v.ty.args[0]
        return from_sort_term(z3.Select(self.list_items(v, st), i), ety)

    def new_list(self, ety, st, n=None, items=None):
        ref = st.new_ref()
        st.write("List.len", I, ref, n if n is not None else z3.IntVal(0))
        if ety is not None and items is not None:
            st.write(self._items_key(ety), z3.ArraySort(I, sort_of(ety)), ref, items)
        self.log_write("List.len")
        return Val(ListT(ety), ref)

    def def_array(self, st, var, body, idx_sort=None, also=()):
        """Array defined pointwise: a fresh array constant with the axiom  forall var. a[var] == body,
        triggered on a[var] (friendlier to e-matching than an SMT lambda)."""
        a = fresh("arr", z3.ArraySort(var.sort(), body.sort()))
        v2 = fresh("dv", var.sort())
        b2 = z3.substitute(body, (var, v2))
        pats = [z3.Select(a, v2)]
        for t in also:
            # alternative triggers: the source term the element is computed from (so that a fact about the
            # source element reaches the defined one without the defined term occurring first)
            if t is not None and z3.is_app(t) and not z3.is_const(t) and t.decl().kind() == z3.Z3_OP_SELECT and var.eq(t.arg(1)) \
                    and not _mentions_var(t.arg(0), var):
                pats.append(z3.substitute(t, (var, v2)))
            elif t is not None and z3.is_app(t) and t.decl().kind() == z3.Z3_OP_UNINTERPRETED and t.num_args() == 1 and var.eq(t.arg(0)):
                pats.append(z3.substitute(t, (var, v2)))          # f(var) for an uninterpreted f
        try:
            ax = z3.ForAll([v2], z3.Select(a, v2) == b2, patterns=pats)
        except z3.Z3Exception:
            ax = z3.ForAll([v2], z3.Select(a, v2) == b2, patterns=pats[:1])
        if st.spec:
            # a definition introduced while evaluating a specification: background fact for later obligations
            self.axioms.append(ax)
        else:
            st.assume(ax)
        return a

    def log_write(self, key):
        if self.write_log is not None:
            self.write_log.add(key)

    def set_list(self, v, st, n=None, items=None):
        if n is not None:
            st.write("List.len", I, v.t, n)
            self.log_write("List.len")
        if items is not None:
            ety = v.ty.args[0]
            st.write(self._items_key(ety), z3.ArraySort(I, sort_of(ety)), v.t, items)
            self.log_write(self._items_key(ety))

    def ev_List(self, e, st):
        vals = [self.eval(x, st) for x in e.elts]
        if not vals:
            return self.new_list(None, st)
        if all(v.ty.name == "Tuple" for v in vals):
            # a literal list of tuples (e.g. (name, value-or-None) pairs): a static sequence (any attempt to mutate it is unsupported)
            return Val(TupleT([v.ty for v in vals]), vals, was_list=True)
        if any(v.ty == FN for v in vals):
            # a literal list of functions / classes (a dispatch table): kept as a static sequence
            return Val(TupleT([v.ty for v in vals]), vals, was_list=True)
        try:
            ety = self.join_types([v.ty for v in vals])
        except Unsupported:
            # a literal list of values of different types (SQL parameter lists): kept as a static sequence
            return Val(TupleT([v.ty for v in vals]), vals, was_list=True)
        # (positions beyond the literal's length are unspecified; a constant array of a non-value is not accepted by cvc5)
        arr = fresh("lit", z3.ArraySort(I, sort_of(ety)))
        for i, v in enumerate(vals):
            arr = z3.Store(arr, i, to_sort_term(v, ety))
        return self.new_list(ety, st, z3.IntVal(len(vals)), arr)

    def join_types(self, tys):
        t = tys[0]
        for u in tys[1:]:
            if u == t:
                continue
            if t == NONE:
                t = OptT(u)
            elif u == NONE:
                t = OptT(t)
            elif t.name == "Opt" and t.args[0] == u:
                pass
            elif u.name == "Opt" and u.args[0] == t:
                t = u
            elif t.name == "List" and u.name == "List":
                t = t if t.args[0] is not None else u
            elif t.name == "Tuple" and u.name == "Tuple" and len(t.args) == len(u.args):
                t = TupleT([self.join_types([a, b]) for a, b in zip(t.args, u.args)])
            else:
                raise Unsupported(f"heterogeneous list {t} / {u}")
        return t

    def with_elem(self, lst, v, st):
        """List value typed for element v (fixes the element type of an empty literal on first use)."""
        if lst.ty.args[0] is None:
            return Val(ListT(v.ty if v.ty != NONE else OptT(ANYREF)), lst.t)
        return lst

    def retype_in_env(self, old, new, st):
        if old.ty != new.ty:
            for k, x in list(st.env.items()):
                if x is old:
                    st.env[k] = new

    def list_append(self, lst, v, st):
        l2 = self.with_elem(lst, v, st)
        self.retype_in_env(lst, l2, st)
        ety = l2.ty.args[0]
        n = self.list_len(l2, st)
        items = self.list_items(l2, st)
        self.set_list(l2, st, n + 1, z3.Store(items, n, to_sort_term(v, ety)))
        return NONE_VAL

    def norm_index(self, idx, n):
        return z3.If(idx < 0, idx + n, idx)

    def list_get(self, lst, idx, st, line=None):
        if idx.ty == BOOL:
            idx = Val(INT, z3.If(idx.t, 1, 0))
        if idx.ty != INT:
            raise Unsupported(f"list index of type {idx.ty}")
        if lst.ty.args[0] is None:
            st.raise_if(z3.BoolVal(True), "IndexError", line)
            return NONE_VAL
        n = self.list_len(lst, st)
        st.raise_if(z3.Or(idx.t >= n, idx.t < -n), "IndexError", line)
        if st.spec and not _neg_const(idx.t):
            # specification indices are non-negative by convention (only literal negatives wrap)
            i = idx.t
        else:
            i = self.norm_index(idx.t, n) if not _nonneg_const(idx.t) else idx.t
        return self.list_elem_val(lst, i, st)

    def list_set(self, lst, idx, v, st, line=None):
        l2 = self.with_elem(lst, v, st)
        n = self.list_len(l2, st)
        st.raise_if(z3.Or(idx.t >= n, idx.t < -n), "IndexError", line)
        i = self.norm_index(idx.t, n) if not _nonneg_const(idx.t) else idx.t
        self.set_list(l2, st, None, z3.Store(self.list_items(l2, st), i, to_sort_term(v, l2.ty.args[0])))

    def list_pop(self, lst, idx, st, line=None):
        n = self.list_len(lst, st)
        if lst.ty.args[0] is None:
            st.raise_if(z3.BoolVal(True), "IndexError", line)
            return NONE_VAL
        items = self.list_items(lst, st)
        if idx is None:
            st.raise_if(n == 0, "IndexError", line)
            res = self.list_elem_val(lst, n - 1, st)
            self.set_list(lst, st, n - 1, None)
            return res
        st.raise_if(z3.Or(idx.t >= n, idx.t < -n), "IndexError", line)
        i = self.norm_index(idx.t, n) if not _nonneg_const(idx.t) else idx.t
        res = self.list_elem_val(lst, i, st)
        j = z3.Int("j!pop")
        new = self.def_array(st, j, z3.If(j < i, z3.Select(items, j), z3.Select(items, j + 1)))
        self.set_list(lst, st, n - 1, new)
        return res

    def list_insert(self, lst, idx, v, st):
        l2 = self.with_elem(lst, v, st)
        self.retype_in_env(lst, l2, st)
        n = self.list_len(l2, st)
        items = self.list_items(l2, st)
        i = z3.If(idx.t < 0, z3.If(idx.t + n < 0, 0, idx.t + n), z3.If(idx.t > n, n, idx.t))
        j = z3.Int("j!ins")
        x = to_sort_term(v, l2.ty.args[0])
        new = self.def_array(st, j, z3.If(j < i, z3.Select(items, j), z3.If(j == i, x, z3.Select(items, j - 1))))
        self.set_list(l2, st, n + 1, new)
        return NONE_VAL

    def list_concat(self, a, b, st):
        ety = a.ty.args[0] if a.ty.args[0] is not None else b.ty.args[0]
        na, nb = self.list_len(a, st), self.list_len(b, st)
        if ety is None:
            return self.new_list(None, st)
        j = z3.Int("j!cat")
        ia = self.list_items(Val(ListT(ety), a.t), st)
        ib = self.list_items(Val(ListT(ety), b.t), st)
        new = self.def_array(st, j, z3.If(j < na, z3.Select(ia, j), z3.Select(ib, j - na)))
        return self.new_list(ety, st, na + nb, new)

    def list_extend(self, a, b, st):
        if b.ty.name != "List":
            raise Unsupported(f"extend with {b.ty}")
        ety = a.ty.args[0] if a.ty.args[0] is not None else b.ty.args[0]
        if ety is None:
            return NONE_VAL
        a2 = Val(ListT(ety), a.t)
        self.retype_in_env(a, a2, st)
        na, nb = self.list_len(a2, st), self.list_len(b, st)
        j = z3.Int("j!ext")
        ia = self.list_items(a2, st)
        ib = self.list_items(Val(ListT(ety), b.t), st)
        new = self.def_array(st, j, z3.If(j < na, z3.Select(ia, j), z3.Select(ib, j - na)))
        self.set_list(a2, st, na + nb, new)
        return NONE_VAL

    def clamp_slice(self, x, n, default):
        if x is None:
            return default
        if x.ty == NONE:
            return default
        t = x.t
        t = z3.If(t < 0, z3.If(t + n < 0, 0, t + n), z3.If(t > n, n, t))
        return t

    def list_slice(self, lst, lo, hi, step, st):
        ety = lst.ty.args[0]
        n = self.list_len(lst, st)
        if step is not None and step.ty != NONE:
            step = Val(step.ty, z3.simplify(step.t))
        if step is not None and not (step.ty == NONE or z3.is_int_value(step.t)):
            raise Unsupported("symbolic slice step")
        stepv = 1 if (step is None or step.ty == NONE) else step.t.as_long()
        if ety is None:
            return self.new_list(None, st)
        items = self.list_items(lst, st)
        j = z3.Int("j!sl")
        if stepv == 1:
            st.assume(n <= 2 ** 63 - 1)        # len() of a list never exceeds sys.maxsize
            a = self.clamp_slice(lo, n, z3.IntVal(0))
            b = self.clamp_slice(hi, n, n)
            m = z3.If(b > a, b - a, 0)
            return self.new_list(ety, st, m, self.def_array(st, j, z3.Select(items, a + j)))
        if stepv == -1 and lo is None and hi is None:
            # xs[::-1]: position j holds xs[rev(j)], rev(j) = n-1-j, rev its own inverse (a named function keeps the
            # quantifier triggers usable in both directions: from a position of the copy and from a position of xs)
            rev = fresh_fn("rev", I, I)
            k0 = fresh("rv", I)
            st.assume(z3.ForAll([k0], z3.And(rev(k0) == n - 1 - k0, rev(rev(k0)) == k0), patterns=[rev(k0)]))
            rarr = self.def_array(st, j, z3.Select(items, rev(j)))
            st.assume(z3.ForAll([k0], z3.And(rev(rev(k0)) == k0, z3.Implies(z3.And(0 <= k0, k0 < n), z3.Select(rarr, rev(k0)) == z3.Select(items, k0))),
                                patterns=[z3.Select(items, k0)]))
            return self.new_list(ety, st, n, rarr)
        raise Unsupported("slice step")

    def list_equal(self, a, b, st):
        na, nb = self.list_len(a, st), self.list_len(b, st)
        ety = a.ty.args[0] if a.ty.args[0] is not None else b.ty.args[0]
        if ety is None:
            return na == nb
        i = fresh("q_eq", I)
        ea = from_sort_term(z3.Select(self.list_items(Val(ListT(ety), a.t), st), i), ety)
        eb = from_sort_term(z3.Select(self.list_items(Val(ListT(ety), b.t), st), i), ety)
        return z3.And(na == nb, z3.ForAll([i], z3.Implies(z3.And(0 <= i, i < na), self.equal(ea, eb, st))))

    def list_contains(self, lst, item, st):
        if lst.ty.args[0] is None:
            return z3.BoolVal(False)
        n = self.list_len(lst, st)
        i = fresh("q_in", I)
        el = self.list_elem_val(lst, i, st)
        return z3.Exists([i], z3.And(0 <= i, i < n, self.equal(el, item, st)))

    def havoc_list(self, v, st):
        st.write("List.len", I, v.t, fresh("hv_len", I))
        st.assume(self.list_len(v, st) >= 0)
        if v.ty.args[0] is not None:
            ety = v.ty.args[0]
            st.write(self._items_key(ety), z3.ArraySort(I, sort_of(ety)), v.t,
                     fresh("hv_items", z3.ArraySort(I, sort_of(ety))))

    # ==========================================================================================
    # dicts  (str -> V)
    # ==========================================================================================
    def _map_key(self, vty):
        return "Dict.map." + elem_sort_name(vty)

    def dict_vty(self, d):
        return d.ty.args[0]

    def dict_map(self, d, st):
        if d.x.get("frozen") is not None:
            return d.x["frozen"]
        vty = self.dict_vty(d)
        if vty is None:
            vty = JV
        return st.read(self._map_key(vty), z3.ArraySort(S, opt_sort(sort_of(vty)).sort), d.t)

    def empty_map(self, vty):
        return z3.K(S, opt_sort(sort_of(vty)).none)

    def new_dict(self, vty, st, m=None):
        ref = st.new_ref()
        v = vty if vty is not None else JV
        st.write(self._map_key(v), z3.ArraySort(S, opt_sort(sort_of(v)).sort), ref, m if m is not None else self.empty_map(v))
        self.log_write(self._map_key(v))
        return Val(DictT(v), ref)

    def ev_Dict(self, e, st):
        keys = [self.eval(k, st) for k in e.keys]
        vals = [self.eval(v, st) for v in e.values]
        want = st.ghost.get("__dict_vty__")
        if st.spec:
            # a dict literal inside a specification is a value (no allocation in the heap)
            try:
                vty = want or (self.join_types([v.ty for v in vals]) if vals else JV)
            except Unsupported:
                vty = JV
            os_ = opt_sort(sort_of(vty))
            m = self.empty_map(vty)
            for k, v in zip(keys, vals):
                m = z3.Store(m, self.as_key(k), os_.some(self.to_dict_val(v, vty, st)))
            return Val(DictT(vty), z3.IntVal(0), frozen=m)
        if not vals:
            return self.new_dict(want or JV, st)
        try:
            vty = want or self.join_types([v.ty for v in vals])
        except Unsupported:
            vty = JV          # values of different types: each is embedded as an opaque JSON value
        os_ = opt_sort(sort_of(vty))
        m = self.empty_map(vty)
        for k, v in zip(keys, vals):
            m = z3.Store(m, self.as_key(k), os_.some(self.to_dict_val(v, vty, st)))
        return self.new_dict(vty, st, m)

    def to_dict_val(self, v, vty, st):
        if vty == JV and v.ty != JV:
            return self.to_jv(v, st).t
        return to_sort_term(v, vty)

    def to_jv(self, v, st):
        """Embed a Python value into the opaque JSON-value sort (A-JV)."""
        if v.ty == JV:
            return v
        if v.ty == STR:
            j = jv_of_str(v.t)
            st.assume(z3.And(jv_is_str(j), jv_str(j) == v.t, z3.Not(jv_is_list(j)), z3.Not(jv_is_dict(j))))
            return Val(JV, j)
        if v.ty == NONE:
            st.assume(z3.And(z3.Not(jv_is_str(jv_null)), z3.Not(jv_is_list(jv_null)), z3.Not(jv_is_dict(jv_null))))
            return Val(JV, jv_null)
        if v.ty.name == "Opt":
            # None embeds as the one JSON null, anything else as its own embedding
            inner = self.to_jv(self._inner(v), st)
            none = self.to_jv(NONE_VAL, st)
            return Val(JV, z3.If(self.is_none(v, st), none.t, inner.t))
        # lists and tables are references (integers): their embeddings are functions of their own, so that the embedding of
        # the integer n and of the list whose reference happens to be n are different JSON values
        kind = {"List": "listref", "Dict": "dictref"}.get(v.ty.name) or elem_sort_name(v.ty)
        f = z3.Function("jv_of_" + kind, sort_of(v.ty), JVSort)
        j = f(to_sort_term(v, v.ty))
        if v.ty.name == "List":
            st.assume(z3.And(jv_is_list(j), z3.Not(jv_is_str(j))))
            inv = z3.Function("jv_to_" + elem_sort_name(v.ty), JVSort, sort_of(v.ty))
            st.assume(inv(j) == v.t)
        elif v.ty.name == "Dict":
            st.assume(z3.And(jv_is_dict(j), z3.Not(jv_is_str(j)), z3.Not(jv_is_list(j))))
            inv = z3.Function("jv_to_Int", JVSort, I)
            st.assume(inv(j) == v.t)
        else:
            st.assume(z3.And(z3.Not(jv_is_str(j)), z3.Not(jv_is_list(j)), z3.Not(jv_is_dict(j))))
            inv = z3.Function("jv_to_" + elem_sort_name(v.ty), JVSort, sort_of(v.ty))
            st.assume(inv(j) == to_sort_term(v, v.ty))
        return Val(JV, j)

    def dict_has(self, d, key, st):
        vty = self.dict_vty(d) or JV
        return opt_sort(sort_of(vty)).is_some(z3.Select(self.dict_map(d, st), key))

    def dict_nonempty(self, d, st):
        vty = self.dict_vty(d) or JV
        return self.dict_map(d, st) != self.empty_map(vty)

    def dict_get(self, d, key, st, line=None, default=None):
        vty = self.dict_vty(d) or JV
        k = self.as_key(key)
        os_ = opt_sort(sort_of(vty))
        cell = z3.Select(self.dict_map(d, st), k)
        if default is None:
            st.raise_if(os_.is_none(cell), "KeyError", line)
            return from_sort_term(os_.val(cell), vty)
        has = os_.is_some(cell)
        inner = from_sort_term(os_.val(cell), vty)
        return self.merge_vals(has, inner, default)

    def dict_set(self, d, key, v, st):
        vty = self.dict_vty(d) or JV
        k = self.as_key(key)
        os_ = opt_sort(sort_of(vty))
        m = self.dict_map(d, st)
        st.write(self._map_key(vty), z3.ArraySort(S, os_.sort), d.t, z3.Store(m, k, os_.some(self.to_dict_val(v, vty, st))))
        self.log_write(self._map_key(vty))

    def dict_del(self, d, key, st, line=None):
        vty = self.dict_vty(d) or JV
        k = self.as_key(key)
        os_ = opt_sort(sort_of(vty))
        m = self.dict_map(d, st)
        st.raise_if(os_.is_none(z3.Select(m, k)), "KeyError", line)
        st.write(self._map_key(vty), z3.ArraySort(S, os_.sort), d.t, z3.Store(m, k, os_.none))
        self.log_write(self._map_key(vty))

    def havoc_dict(self, v, st):
        vty = self.dict_vty(v) or JV
        os_ = opt_sort(sort_of(vty))
        st.write(self._map_key(vty), z3.ArraySort(S, os_.sort), v.t, fresh("hv_map", z3.ArraySort(S, os_.sort)))

    def dict_copy(self, d, st):
        vty = self.dict_vty(d) or JV
        return self.new_dict(vty, st, self.dict_map(d, st))

    def jv_index(self, obj, idx, st, line):
        raise Unsupported("indexing into an opaque JSON value")

    # ==========================================================================================
    # strings
    # ==========================================================================================
    def str_index(self, sv, idx, st, line=None):
        n = z3.Length(sv.t)
        st.raise_if(z3.Or(idx.t >= n, idx.t < -n), "IndexError", line)
        i = idx.t if (st.spec and not _neg_const(idx.t)) or _nonneg_const(idx.t) else self.norm_index(idx.t, n)
        return Val(STR, z3.SubString(sv.t, i, 1))

    def str_slice(self, sv, lo, hi, step, st):
        if step is not None and step.ty != NONE:
            raise Unsupported("string slice with step")
        n = z3.Length(sv.t)
        a = self.clamp_slice(lo, n, z3.IntVal(0))
        b = self.clamp_slice(hi, n, n)
        return Val(STR, z3.SubString(sv.t, a, z3.If(b > a, b - a, 0)))

    def as_str(self, v, st, line=None):
        """A value used where a str is required: JSON values must be strings (TypeError otherwise)."""
        if v.ty == STR:
            return v
        if v.ty == JV:
            st.raise_if(z3.Not(jv_is_str(v.t)), "TypeError", line)
            return Val(STR, jv_str(v.t))
        if v.ty.name == "Opt":
            return self.as_str(self.unopt(v, st, line), st, line)
        raise Unsupported(f"{v.ty} used as str")

    # ==========================================================================================
    # attributes of built-in values
    # ==========================================================================================
    def builtin_attr(self, v, attr, st, node):
        ty = v.ty
        if ty == DT:
            if attr == "microsecond":
                off = v.x.get("off", 0)
                return Val(INT, (v.t + off) % US)
            if attr == "tzinfo":
                aware = v.x.get("aware", True)
                if aware is True:
                    return Val(FN, ("ext", "datetime.timezone.utc"))
                if aware is False:
                    return NONE_VAL
                return Val(OptT(ANYREF), z3.If(aware, 1, 0))
        if ty == TD:
            # days / seconds / microseconds: the normalised components (0 <= seconds < 86400, 0 <= microseconds < 10**6)
            day = 86400 * US
            if attr == "days":
                return Val(INT, v.t / day)
            if attr == "seconds":
                return Val(INT, (v.t % day) / US)
            if attr == "microseconds":
                return Val(INT, v.t % US)
        if ty == FN and v.t[0] == "ext":
            return None
        return None

    # ==========================================================================================
    # external (library / builtin) functions by qualified name
    # ==========================================================================================
    def call_ext(self, q, args, kwargs, st, node):
        c = CONTRACTS.get(q)
        if c is not None:
            return self.call_ext_contract(q, c, args, kwargs, st, node)
        name = q.replace("builtins.", "bi_").replace(".", "_")
        m = getattr(self, "x_" + name, None)
        if m is None:
            raise Unsupported(f"external function {q}")
        return m(args, kwargs, st, node)

    def call_ext_contract(self, q, c, args, kwargs, st, node):
        class _F:
            pass
        fi = _F()
        fi.qualname = q
        fi.cls = None
        env = {}
        names = list(c["params"].keys())
        for n_, a in zip(names, args):
            env[n_] = a
        for k, v in kwargs.items():
            env[k] = v
        for n_ in names:
            if n_ not in env:
                env[n_] = NONE_VAL
        return self.call_contract(fi, c, env, st, node)

    # -- len / isinstance / int / str / bool / max / min ----------------------------------------
    def x_bi_len(self, args, kw, st, node):
        v = args[0]
        if v.ty.name == "Opt":
            v = self.unopt(v, st, getattr(node, "lineno", None))
        n = v.ty.name
        if n == "List":
            return Val(INT, self.list_len(v, st))
        if n == "str":
            return Val(INT, z3.Length(v.t))
        if n == "Tuple":
            return mk_int(len(v.t))
        if n == "Dict":
            return Val(INT, self.dict_size(v, st))
        raise Unsupported(f"len of {v.ty}")

    def dict_size(self, d, st):
        vty = self.dict_vty(d) or JV
        m = self.dict_map(d, st)
        f = z3.Function("dict_size_" + elem_sort_name(vty), m.sort(), I)
        key = "dict_size_" + elem_sort_name(vty)
        if key not in getattr(self, "_global_axioms", set()):
            # definitional: size is non-negative and zero exactly for the empty map (global background fact)
            if not hasattr(self, "_global_axioms"):
                self._global_axioms = set()
            self._global_axioms.add(key)
            mm = z3.Const("m!ds", m.sort())
            self.axioms.append(z3.ForAll([mm], z3.And(f(mm) >= 0, (f(mm) == 0) == (mm == self.empty_map(vty))), patterns=[f(mm)]))
        n = f(m)
        st.assume(n >= 0)
        st.assume((n == 0) == (m == self.empty_map(vty)))
        return n

    def x_bi_isinstance(self, args, kw, st, node):
        v, cls = args
        return Val(BOOL, self.isinstance_(v, cls, st))

    def isinstance_(self, v, cls, st):
        if cls.ty.name == "Tuple":
            return z3.Or(*[self.isinstance_(v, c, st) for c in cls.t])
        if cls.ty != FN:
            raise Unsupported("isinstance with non-class")
        d = cls.t
        cname = d[1].qualname if d[0] == "class" else d[1]
        cname = cname.replace("builtins.", "")
        ty = v.ty
        if ty.name == "Opt":
            inner = self._inner(v)
            return z3.And(z3.Not(self.is_none(v, st)), self.isinstance_(inner, cls, st))
        table = {
            "str": lambda: ty == STR, "int": lambda: ty in (INT, BOOL), "bool": lambda: ty == BOOL,
            "float": lambda: ty == FLOAT, "list": lambda: ty.name == "List",
            "dict": lambda: ty.name == "Dict" or (ty.name == "Obj" and self.is_dict_subclass(ty)),
            "datetime.timedelta": lambda: ty == TD, "datetime.datetime": lambda: ty == DT,
            "numbers.Real": lambda: ty in (INT, FLOAT, BOOL), "tuple": lambda: ty.name == "Tuple",
        }
        if ty == JV:
            if cname == "str":
                return jv_is_str(v.t)
            if cname == "list":
                return jv_is_list(v.t)
            if cname == "dict":
                return jv_is_dict(v.t)
            raise Unsupported(f"isinstance(JV, {cname})")
        if cname in table:
            return z3.BoolVal(bool(table[cname]()))
        if ty.name == "Obj":
            return z3.BoolVal(self.is_subclass(ty.args[0], cname))
        if ty == NONE:
            return z3.BoolVal(False)
        return z3.BoolVal(False)

    def is_dict_subclass(self, ty):
        ci = self.class_of(ty)
        return ci is not None and "dict" in ci.bases

    def is_subclass(self, cls, parent):
        seen = 0
        while cls and seen < 8:
            if cls == parent:
                return True
            r = self.world.lookup(cls)
            if not isinstance(r, front.ClassInfo):
                return False
            nxt = None
            for b in r.bases:
                q = self.world.resolve_name(r.module, b.split(".")[0])
                if q:
                    rr = self.world.lookup(q)
                    if isinstance(rr, front.ClassInfo):
                        nxt = rr.qualname
                        break
            cls = nxt
            seen += 1
        return False

    def x_bi_max(self, args, kw, st, node):
        return self._minmax(args, st, True, node)

    def x_bi_min(self, args, kw, st, node):
        return self._minmax(args, st, False, node)

    def _minmax(self, args, st, is_max, node=None):
        if len(args) == 1 and args[0].ty.name == "Tuple":
            args = args[0].t
        if len(args) == 1 and args[0].ty.name == "List" and args[0].ty.args[0] == INT:
            # max / min of a list of ints of unknown length: an element that bounds all the others (ValueError when empty)
            lst = args[0]
            n = self.list_len(lst, st)
            st.raise_if(n <= 0, "ValueError", getattr(node, "lineno", None))
            items = self.list_items(lst, st)
            m, w, j = fresh("mx", I), fresh("mx_at", I), fresh("q_mx", I)
            st.assume(z3.And(0 <= w, w < n, z3.Select(items, w) == m))
            st.assume(z3.ForAll([j], z3.Implies(z3.And(0 <= j, j < n), (z3.Select(items, j) <= m) if is_max else (z3.Select(items, j) >= m)),
                                patterns=[z3.Select(items, j)]))
            return Val(INT, m)
        if len(args) < 2:
            raise Unsupported("max/min over a collection")
        res = args[0]
        for b in args[1:]:
            a2, b2 = self.numeric_pair(res, b)
            c = (b2 > a2) if is_max else (b2 < a2)
            res = self.merge_vals(c, b, res)
        return res

    def x_bi_zip(self, args, kw, st, node):
        """zip of static sequences (tuples / literal lists of tuples): the static sequence of the transposed tuples."""
        if not all(isinstance(a, Val) and a.ty.name == "Tuple" for a in args):
            raise Unsupported("zip of sequences of unknown length (outside a for loop)")
        if not args:
            return Val(TupleT([]), [], was_list=True)
        n = min(len(a.t) for a in args)
        rows = [Val(TupleT([a.t[i].ty for a in args]), [a.t[i] for a in args]) for i in range(n)]
        return Val(TupleT([r.ty for r in rows]), rows, was_list=True)

    def m_str_join(self, recv, args, kw, st, node):
        """sep.join(static sequence of strings)"""
        seq = args[0]
        if seq.ty.name != "Tuple" or any(x.ty != STR for x in seq.t):
            raise Unsupported("str.join over a sequence of unknown length")
        out = None
        for x in seq.t:
            out = x.t if out is None else z3.Concat(out, recv.t, x.t)
        return Val(STR, z3.simplify(out) if out is not None else z3.StringVal(""))

    def x_bi_bool(self, args, kw, st, node):
        return Val(BOOL, self.truth(args[0], st)) if args else mk_bool(False)

    def x_bi_str(self, args, kw, st, node):
        if args and args[0].ty == STR:
            return args[0]
        return Val(STR, fresh("str", S))

    def x_bi_type(self, args, kw, st, node):
        return Val(FN, ("ext", "type_of"))

    def x_bi_tuple(self, args, kw, st, node):
        if not args:
            return Val(TupleT([]), [])
        v = args[0]
        if v.ty.name == "Tuple":
            return v
        if v.ty == JV:
            return Val(JV, jv_tuple_of(v.t))
        raise Unsupported(f"tuple({v.ty})")

    def x_bi_list(self, args, kw, st, node):
        if not args:
            return self.new_list(None, st)
        v = args[0]
        if v.ty.name == "List":
            return self.list_slice(v, None, None, None, st)
        raise Unsupported(f"list({v.ty})")

    def x_bi_dict(self, args, kw, st, node):
        if not args and not kw:
            return self.new_dict(st.ghost.get("__dict_vty__") or JV, st)
        raise Unsupported("dict(...)")

    def x_bi_int(self, args, kw, st, node):
        v = args[0]
        if v.ty == INT:
            return v
        if v.ty == BOOL:
            return Val(INT, z3.If(v.t, 1, 0))
        if v.ty == FLOAT:
            from . import flt
            return flt.int_of_float(self, v, st)
        if v.ty == STR:
            return self.int_of_str(v, st, getattr(node, "lineno", None))
        if v.ty.name == "Opt" and v.ty.args[0] == INT:
            return self.unopt(v, st, getattr(node, "lineno", None))
        raise Unsupported(f"int({v.ty})")

    def x_bi_float(self, args, kw, st, node):
        v = args[0]
        if v.ty == FLOAT:
            return v
        if v.ty == INT:
            return Val(FLOAT, z3.ToReal(v.t), exact_int=v.t)
        raise Unsupported(f"float({v.ty})")

    # -- regular expressions in specifications ---------------------------------------------------------
    def x_bi_re_search(self, args, kw, st, node):
        p, f, text = args
        text = self.as_str(text, st)
        fn = z3.Function("re_search", S, I, S, B)
        return Val(BOOL, fn(p.t, f.t, text.t))

    def x_bi_url_part(self, args, kw, st, node):
        name, url = args
        fn = z3.Function("url_" + name.t.as_string(), S, S)
        return Val(STR, fn(self.as_str(url, st).t))

    def x_bi_dict_without(self, args, kw, st, node):
        """Value of a dict with some keys removed (specification only)."""
        d = args[0]
        vty = self.dict_vty(d) or JV
        os_ = opt_sort(sort_of(vty))
        m = self.dict_map(d, st)
        for k in args[1:]:
            m = z3.Store(m, self.as_key(k), os_.none)
        return Val(d.ty, z3.IntVal(0), frozen=m)

    def x_bi_jv_dict(self, args, kw, st, node):
        """The dict stored as a JSON value."""
        inv = z3.Function("jv_to_Int", JVSort, I)
        return Val(DictT(JV), inv(args[0].t))

    def x_bi_key_index(self, args, kw, st, node):
        """Ghost: position of a key in the iteration order of the most recent iteration over this dict."""
        d, k = args
        info = st.ghost.get("g:keyiter:" + d.t.sexpr())
        if info is None:
            raise Unsupported("key_index: the dict was not iterated")
        return Val(INT, info(self.as_key(k)))

    def x_bi_real_plus(self, args, kw, st, node):
        """Specification only: the exact (real-number) sum of a float and an integer - no rounding, unlike the program's `+`."""
        x, c = args
        if c.ty not in (INT, FLOAT) or x.ty not in (INT, FLOAT):
            raise Unsupported("real_plus: numbers only")
        xt = z3.ToReal(x.t) if x.ty == INT else x.t
        return Val(FLOAT, xt + (z3.ToReal(c.t) if c.ty == INT else c.t))

    def x_bi_same_value(self, args, kw, st, node):
        """Identity of JSON values (the very same value, not merely Python-equal)."""
        a, b = args
        if a.ty.name == "Opt" and b.ty.name != "Opt":
            return Val(BOOL, z3.And(z3.Not(self.is_none(a, st)), self.x_bi_same_value([self._inner(a), b], kw, st, node).t))
        if b.ty.name == "Opt" and a.ty.name != "Opt":
            return self.x_bi_same_value([b, a], kw, st, node)
        if a.ty == NONE or b.ty == NONE:
            return Val(BOOL, self.is_none(b if a.ty == NONE else a, st))
        if not (z3.is_expr(a.t) and z3.is_expr(b.t) and a.t.sort() == b.t.sort()):
            raise Unsupported(f"same_value of {a.ty} and {b.ty}")
        return Val(BOOL, a.t == b.t)

    def x_bi_jv_list(self, args, kw, st, node):
        """The list stored as a JSON value (inverse of the embedding used when it was stored)."""
        v = args[0]
        inv = z3.Function("jv_to_Int", JVSort, I)
        ety = STR
        if len(args) > 1:
            if not (isinstance(args[1].t, str) or z3.is_string_value(args[1].t)):
                raise Unsupported("jv_list: element type must be a literal")
            ety = parse_type(args[1].t if isinstance(args[1].t, str) else args[1].t.as_string())
        return Val(ListT(ety), inv(v.t))

    # -- millisecond alignment (specification vocabulary; single modulus keeps the arithmetic simple) ----
    def x_bi_ms_aligned(self, args, kw, st, node):
        v = args[0]
        if v.ty.name == "Opt":
            v = self._inner(v)
        if v.ty not in (DT, TD):
            raise Unsupported(f"ms_aligned({v.ty})")
        off = v.x.get("off", 0) if v.ty == DT else 0
        return Val(BOOL, (v.t + off) % 1000 == 0)

    def x_bi_floor_to_ms(self, args, kw, st, node):
        v = args[0]
        if v.ty.name == "Opt":
            v = self._inner(v)
        off = v.x.get("off", 0)
        return Val(DT, v.t - ((v.t + off) % 1000), **v.x)

    # -- ghost maps (specification only) ---------------------------------------------------------
    def x_bi_mnew(self, args, kw, st, node):
        return Val(Ty("IntMap"), z3.K(I, z3.IntVal(-1)))

    def x_bi_mnew2(self, args, kw, st, node):
        return Val(Ty("IntMap2"), fresh("gmap2", z3.ArraySort(I, I, I)))

    def x_bi_mset(self, args, kw, st, node):
        m, i, v = args
        if i.ty.name == "Opt":
            i = Val(i.ty.args[0], opt_of(i.ty).val(i.t))     # ghost index through an Optional[int]
        return Val(Ty("IntMap"), z3.Store(m.t, i.t, v.t))

    def x_bi_mset2(self, args, kw, st, node):
        m, a, b, v = args
        return Val(Ty("IntMap2"), z3.Store(m.t, a.t, b.t, v.t))

    def x_bi_mset_row(self, args, kw, st, node):
        """Ghost: the two-index map with row k replaced by the one-index map m."""
        m2, k, m = args
        a_, b_ = z3.Int("a!mr"), z3.Int("b!mr")
        arr = fresh("gmap2", z3.ArraySort(I, I, I))
        ax = z3.ForAll([a_, b_], z3.Select(arr, a_, b_) == z3.If(a_ == k.t, z3.Select(m.t, b_), z3.Select(m2.t, a_, b_)),
                       patterns=[z3.Select(arr, a_, b_)])
        if st.spec:
            self.axioms.append(ax)
        else:
            st.assume(ax)
        return Val(Ty("IntMap2"), arr)

    def x_bi_mremap(self, args, kw, st, node):
        """Ghost: every entry equal to `frm` becomes `to`."""
        m, frm, to = args
        j = z3.Int("j!rm")
        return Val(Ty("IntMap"), self.def_array(st, j, z3.If(z3.Select(m.t, j) == frm.t, to.t, z3.Select(m.t, j))))

    def x_bi_last_filter(self, args, kw, st, node):
        """Ghost: the most recent filter-comprehension result of the function (a temporary without a name)."""
        v = st.ghost.get("g:lastfilter")
        if v is None:
            raise Unsupported("last_filter(): no filter comprehension was evaluated")
        return v

    def x_bi_filter_sel(self, args, kw, st, node):
        """Ghost: source index of the j-th element of a filter-comprehension result."""
        lst = args[0]
        if "sel" not in lst.x:
            if lst.ty.name != "List":
                raise Unsupported("filter_sel of a value that is not a list")
            # a list received from a callee (a witness of its postcondition): some fixed map, known only through that contract
            return Val(Ty("IntMap"), z3.Function("ghost_filter_sel", I, z3.ArraySort(I, I))(lst.t))
        j = z3.Int("j!fs")
        return Val(Ty("IntMap"), self.def_array(st, j, lst.x["sel"](j)))

    def x_bi_filter_pos(self, args, kw, st, node):
        """Ghost: position in a filter-comprehension result of source index i (valid when the element was kept)."""
        lst = args[0]
        if "pos" not in lst.x:
            if lst.ty.name != "List":
                raise Unsupported("filter_pos of a value that is not a list")
            return Val(Ty("IntMap"), z3.Function("ghost_filter_pos", I, z3.ArraySort(I, I))(lst.t))
        j = z3.Int("j!fp")
        return Val(Ty("IntMap"), self.def_array(st, j, lst.x["pos"](j)))

    def x_bi_sort_inv(self, args, kw, st, node):
        """Ghost: new position of old element i under the most recent sort of this list (pinv)."""
        key = "g:sortinv:" + args[0].t.sexpr()
        if key not in st.ghost:
            raise Unsupported("sort_inv of a list that was not sorted")
        return st.ghost[key][1]

    def x_bi_sort_perm(self, args, kw, st, node):
        key = "g:sortinv:" + args[0].t.sexpr()
        if key not in st.ghost:
            raise Unsupported("sort_perm of a list that was not sorted")
        return st.ghost[key][0]

    # -- datetime ------------------------------------------------------------------------------
    def x_datetime_timedelta(self, args, kw, st, node):
        total = z3.IntVal(0)
        units = {"days": 86400 * US, "seconds": US, "microseconds": 1, "milliseconds": 1000,
                 "minutes": 60 * US, "hours": 3600 * US, "weeks": 7 * 86400 * US}
        order = ["days", "seconds", "microseconds", "milliseconds", "minutes", "hours", "weeks"]
        given = dict(kw)
        for nme, a in zip(order, args):
            given[nme] = a
        for nme, v in given.items():
            if nme not in units:
                raise Unsupported(f"timedelta({nme}=)")
            v = self.unopt(v, st)
            if v.ty == INT or v.ty == BOOL:
                total = total + to_sort_term(v, INT) * units[nme]
            elif v.ty == FLOAT:
                if "const" in v.x:
                    us = _dt.timedelta(**{nme: v.x["const"]}) // _dt.timedelta(microseconds=1)
                    total = total + us
                elif "exact_us" in v.x and nme == "seconds":
                    self.used_assumptions.add("A-RT2")
                    total = total + v.x["exact_us"]
                elif nme == "seconds":
                    self.used_assumptions.add("A-TDF")
                    t = td_us(v.t)
                    st.assume(z3.And(z3.Implies(v.t >= 0, t >= 0), z3.Implies(v.t <= 0, t <= 0)))
                    total = total + t
                else:
                    raise Unsupported("timedelta of symbolic float in " + nme)
            else:
                raise Unsupported(f"timedelta({nme}={v.ty})")
        return Val(TD, z3.simplify(total) if z3.is_int_value(z3.simplify(total)) else total)

    def x_bi_clock_now(self, args, kw, st, node):
        """Specification: the current reading of the (monotone) clock - a lower bound of every later now()."""
        clock = st.ghost.get("g:clock")
        if clock is None:
            clock = z3.Const("clock0", I)
        return Val(DT, clock)

    def x_datetime_datetime_now(self, args, kw, st, node):
        self.used_assumptions.add("A-CLOCK")
        clock = st.ghost.get("g:clock")
        if clock is None:
            clock = z3.Const("clock0", I)
        t = fresh("now", I)
        st.assume(t >= clock)
        st.ghost = dict(st.ghost)
        st.ghost["g:clock"] = t
        return Val(DT, t)

    # -- copy ----------------------------------------------------------------------------------
    def x_copy_deepcopy(self, args, kw, st, node):
        self.used_assumptions.add("A-COPY")
        return self.deepcopy(args[0], st)

    def x_copy_copy(self, args, kw, st, node):
        self.used_assumptions.add("A-COPY")
        return self.shallowcopy(args[0], st)

    def shallowcopy(self, v, st):
        ty = v.ty
        if ty.name == "Obj":
            cd = CLASSDEFS.get(ty.args[0])
            if cd is None:
                raise Unsupported(f"copy of {ty}")
            ref = st.new_ref()
            for f, ft in cd["fields"].items():
                fty = parse_type(ft)
                key = f"{ty.args[0]}.{f}"
                st.write(key, sort_of(fty), ref, st.read(key, sort_of(fty), v.t))
                if cd.get("record"):
                    st.write(key + "!has", B, ref, st.read(key + "!has", B, v.t))
            return Val(ty, ref)
        if ty.name == "Dict":
            return self.dict_copy(v, st)
        if ty.name == "List":
            return self.list_slice(v, None, None, None, st)
        if ty in (INT, STR, BOOL, DT, TD, FLOAT, NONE, JV):
            return v
        raise Unsupported(f"copy of {ty}")

    def deepcopy(self, v, st):
        ty = v.ty
        if ty in (INT, STR, BOOL, DT, TD, FLOAT, NONE, JV):
            return v
        if ty.name == "Opt":
            if not is_reflike(ty.args[0]):
                return v
            isn = v.t == 0
            st.guards.append(z3.Not(isn))
            try:
                inner = self.deepcopy(Val(ty.args[0], v.t), st)
            finally:
                st.guards.pop()
            return Val(ty, z3.If(isn, 0, inner.t))
        if ty.name == "Dict":
            vty = self.dict_vty(v) or JV
            if is_reflike(vty):
                raise Unsupported("deepcopy of dict of objects")
            return self.dict_copy(v, st)
        if ty.name == "Obj":
            cd = CLASSDEFS.get(ty.args[0])
            if cd is None:
                raise Unsupported(f"deepcopy of {ty}")
            ref = st.new_ref()
            for f, ft in cd["fields"].items():
                fty = parse_type(ft)
                key = f"{ty.args[0]}.{f}"
                fv = from_sort_term(st.read(key, sort_of(fty), v.t), fty)
                cv = self.deepcopy(fv, st)
                st.write(key, sort_of(fty), ref, to_sort_term(cv, fty))
                if cd.get("record"):
                    st.write(key + "!has", B, ref, st.read(key + "!has", B, v.t))
            return Val(ty, ref)
        if ty.name == "List":
            return self.deepcopy_list(v, st)
        raise Unsupported(f"deepcopy of {ty}")

    def deepcopy_list(self, v, st):
        """Deep copy of a list of n objects: n+1 (+ n per nested reference field) fresh references."""
        ety = v.ty.args[0]
        n = self.list_len(v, st)
        if ety is None:
            return self.new_list(None, st)
        items = self.list_items(v, st)
        if not is_reflike(ety):
            if ety.name in ("Opt", "Tuple"):
                raise Unsupported(f"deepcopy of list of {ety}")
            return self.new_list(ety, st, n, items)
        if ety.name != "Obj":
            raise Unsupported(f"deepcopy of list of {ety}")
        cls = ety.args[0]
        cd = CLASSDEFS.get(cls)
        if cd is None:
            raise Unsupported(f"deepcopy of list of {cls}")
        lref = st.new_ref()
        base = st.alloc                       # element copies: base + j, j in [0, n)
        st.assume(n >= 0)
        st.alloc = base + n
        j = z3.Int("j!dc")
        r = z3.Int("r!dc")
        st.write("List.len", I, lref, n)
        st.write(self._items_key(ety), z3.ArraySort(I, I), lref, self.def_array(st, j, base + j))
        inrange = z3.And(r >= base, r < base + n)
        src = z3.Select(items, r - base)
        for f, ft in cd["fields"].items():
            fty = parse_type(ft)
            key = f"{cls}.{f}"
            arr = st.field(key, sort_of(fty))
            if is_reflike(fty) and fty.name == "Dict":
                # nested dict: fresh dict per element at base2 + j, same map
                base2 = st.alloc
                st.alloc = base2 + n
                vty = fty.args[0] or JV
                mkey = self._map_key(vty)
                marr = st.field(mkey, z3.ArraySort(S, opt_sort(sort_of(vty)).sort))
                in2 = z3.And(r >= base2, r < base2 + n)
                srcd = z3.Select(arr, z3.Select(items, r - base2))
                st.set_field_array(mkey, self.def_array(st, r, z3.If(in2, z3.Select(marr, srcd), z3.Select(marr, r))))
                st.set_field_array(key, self.def_array(st, r, z3.If(inrange, base2 + (r - base), z3.Select(arr, r))))
            elif is_reflike(fty) or (fty.name == "Opt" and is_reflike(fty.args[0])):
                raise Unsupported(f"deepcopy: nested reference field {key}")
            else:
                st.set_field_array(key, self.def_array(st, r, z3.If(inrange, z3.Select(arr, src), z3.Select(arr, r))))
            if cd.get("record"):
                harr = st.field(key + "!has", B)
                st.set_field_array(key + "!has", self.def_array(st, r, z3.If(inrange, z3.Select(harr, src), z3.Select(harr, r))))
        return Val(v.ty, lref)

    # -- sorted / list.sort --------------------------------------------------------------------
    def x_bi_sorted(self, args, kw, st, node):
        self.used_assumptions.add("A-STD")
        lst = args[0]
        if lst.ty.name != "List":
            raise Unsupported(f"sorted({lst.ty})")
        return self.sorted_list(lst, kw.get("key"), kw.get("reverse"), st)

    def sort_key(self, lst, keyfn, idx_term, st, items=None):
        ety = lst.ty.args[0]
        el = from_sort_term(z3.Select(items if items is not None else self.list_items(lst, st), idx_term), ety)
        if keyfn is None or keyfn.ty == NONE:
            if ety.name == "Obj":
                return ("lt", el)
            return ("val", el)
        k = self.call(keyfn, [el], {}, st)
        return ("val", k)

    def key_le(self, a, b, st):
        """a <= b for sort keys (tuples lexicographic)."""
        if a.ty.name == "Tuple":
            res = z3.BoolVal(True)
            for x, y in reversed(list(zip(a.t, b.t))):
                lt = self.compare(ast.Lt(), x, y, st)
                eq = self.equal(x, y, st)
                res = z3.Or(lt, z3.And(eq, res))
            return res
        return self.compare(ast.LtE(), a, b, st)

    def sorted_list(self, lst, keyfn, reverse, st):
        ety = lst.ty.args[0]
        n = self.list_len(lst, st)
        if ety is None:
            return self.new_list(None, st)
        rev = False
        if reverse is not None:
            if not z3.is_true(reverse.t) and not z3.is_false(reverse.t):
                raise Unsupported("symbolic reverse=")
            rev = z3.is_true(reverse.t)
        src = self.list_items(lst, st)
        perm = fresh_fn("perm", I, I)
        pinv = fresh_fn("pinv", I, I)
        j = z3.Int("j!so")
        new_items = self.def_array(st, j, z3.Select(src, perm(j)))
        out = self.new_list(ety, st, n, new_items)
        a, b = fresh("sa", I), fresh("sb", I)
        st.assume(z3.ForAll([a], z3.Implies(z3.And(0 <= a, a < n),
                                            z3.And(0 <= perm(a), perm(a) < n, pinv(perm(a)) == a))))
        st.assume(z3.ForAll([a], z3.Implies(z3.And(0 <= a, a < n),
                                            z3.And(0 <= pinv(a), pinv(a) < n, perm(pinv(a)) == a))))
        # ordering: for a < b, key(out[a]) <= key(out[b]); stable on equal keys
        sub = st.copy()
        sub.spec = True
        ka = self.sort_key(out, keyfn, a, sub, items=new_items)
        kb = self.sort_key(out, keyfn, b, sub, items=new_items)
        if ka[0] == "lt":
            # objects ordered by __lt__: sorted guarantees not (later < earlier)
            lt = self.compare(ast.Lt(), kb[1], ka[1], sub)
            ordered = z3.Not(lt)
            st.assume(z3.ForAll([a, b], z3.Implies(z3.And(0 <= a, a < b, b < n), ordered)))
        else:
            le = self.key_le(kb[1], ka[1], sub) if rev else self.key_le(ka[1], kb[1], sub)
            eq = self.equal(ka[1], kb[1], sub)
            st.assume(z3.ForAll([a, b], z3.Implies(z3.And(0 <= a, a < b, b < n),
                                                   z3.And(le, z3.Implies(eq, perm(a) < perm(b))))))
            # consequences for the two ends (the idioms sorted(xs)[0] / sorted(xs)[-1]), stated per *source* position so
            # that a fact about xs[i] finds them: key(xs[i]) lies between the keys of the first and the last element
            i0 = fresh("si", I)
            ki = self.sort_key(lst, keyfn, i0, sub, items=src)
            k_first = self.sort_key(out, keyfn, z3.IntVal(0), sub, items=new_items)
            k_last = self.sort_key(out, keyfn, n - 1, sub, items=new_items)
            lo_ok = self.key_le(ki[1], k_first[1], sub) if rev else self.key_le(k_first[1], ki[1], sub)
            hi_ok = self.key_le(k_last[1], ki[1], sub) if rev else self.key_le(ki[1], k_last[1], sub)
            import os as _os
            if not _os.environ.get("PYVC_NO_ENDS"):
                st.assume(z3.ForAll([i0], z3.Implies(z3.And(0 <= i0, i0 < n), z3.And(lo_ok, hi_ok)), patterns=[z3.Select(src, i0)]))
        out.x["perm"] = perm
        out.x["pinv"] = pinv
        a2 = z3.Int("j!pm")
        st.ghost = dict(st.ghost)
        maps = (Val(Ty("IntMap"), self.def_array(st, a2, perm(a2))), Val(Ty("IntMap"), self.def_array(st, a2, pinv(a2))))
        st.ghost["g:sortinv:" + out.t.sexpr()] = maps
        st.ghost["g:sortinv:" + lst.t.sexpr()] = maps
        return out

    # ==========================================================================================
    # methods on built-in values
    # ==========================================================================================
    def call_extmethod(self, recv, name, args, kw, st, node):
        line = getattr(node, "lineno", None)
        ty = recv.ty
        if ty.name == "Opt":
            recv = self.unopt(recv, st, line, "AttributeError")
            ty = recv.ty
        if ty == NONE:
            st.raise_if(z3.BoolVal(True), "AttributeError", line)
            return NONE_VAL
        if ty.name == "Obj" and ty.args[0].startswith("sqlite3."):
            r = self.sqlite_method(recv, name, args, kw, st, node)
            if r is not None:
                return r
        if ty == JV and name == "append" and len(args) == 1 and args[0].ty.name == "Obj":
            # a JSON value that holds a list (of objects of the argument's class): the list object it embeds.  That it is a
            # list is an obligation (AttributeError otherwise); its elements are read under the argument's type
            st.raise_if(z3.Not(jv_is_list(recv.t)), "AttributeError", line)
            lst = Val(ListT(args[0].ty), z3.Function("jv_to_Int", JVSort, I)(recv.t))
            return self.m_List_append(lst, args, kw, st, node)
        m = getattr(self, f"m_{ty.name}_{name}", None)
        if m is None and ty.name == "Obj":
            fty = None
        if m is None:
            raise Unsupported(f"method {ty}.{name}")
        return m(recv, args, kw, st, node)

    # -- str methods ------------------------------------------------------------------------------------------
    def _char_class(self, recv, name, st):
        """str.isdecimal/isalpha/isdigit/isspace/isalnum: an uninterpreted predicate of the string (T-UNICODE: which
        characters belong to a class is Unicode's business); false on the empty string, as in Python."""
        self.trusted_used.add("T-UNICODE: str.isdecimal/isalpha/isdigit/isspace are uninterpreted predicates of the string (false on '')")
        f = z3.Function("str_" + name, S, B)
        st.assume(z3.Not(f(z3.StringVal(""))))
        return Val(BOOL, f(recv.t))

    def string_fold_facts(self, a, c, st):
        """all_decimal(s) is defined by all_decimal('') and all_decimal(s + c) == (all_decimal(s) and c.isdecimal()) for a
        one-character c: the instance for this concatenation (no quantified string axiom is ever given to the solvers)."""
        alld, isd = z3.Function("str_all_isdecimal", S, B), z3.Function("str_isdecimal", S, B)
        st.assume(alld(z3.StringVal("")))
        st.assume(z3.Implies(z3.Length(c) == 1, alld(z3.Concat(a, c)) == z3.And(alld(a), isd(c))))

    def x_bi_all_decimal(self, args, kw, st, node):
        """Specification: every character of the string is a decimal digit (vacuously true of '')."""
        ax = z3.Function("str_all_isdecimal", S, B)(z3.StringVal(""))
        if not any(ax.eq(x) for x in self.axioms):
            self.axioms.append(ax)
        return Val(BOOL, z3.Function("str_all_isdecimal", S, B)(args[0].t))

    def int_of_str(self, v, st, line=None):
        """int(s): does not raise when s is a non-empty string of decimal digits (any Unicode Nd characters: T-UNICODE /
        A-INT); for any other string it may raise ValueError.  The value is an uninterpreted function of the text."""
        self.trusted_used.add("A-INT: int(s) succeeds on a non-empty string all of whose characters satisfy str.isdecimal; otherwise it may raise ValueError")
        ok = z3.And(z3.Function("str_all_isdecimal", S, B)(v.t), z3.Length(v.t) > 0)
        st.raise_if(z3.And(z3.Not(ok), fresh("int_rejects", B)), "ValueError", line)
        return Val(INT, z3.Function("str_to_int", S, I)(v.t))

    def m_str_isdecimal(self, recv, args, kw, st, node):
        return self._char_class(recv, "isdecimal", st)

    def m_str_isalpha(self, recv, args, kw, st, node):
        return self._char_class(recv, "isalpha", st)

    def m_str_isdigit(self, recv, args, kw, st, node):
        return self._char_class(recv, "isdigit", st)

    def m_str_isspace(self, recv, args, kw, st, node):
        return self._char_class(recv, "isspace", st)

    def m_str_strip(self, recv, args, kw, st, node):
        """s.strip(): s == l + s.strip() + r for some (whitespace) l, r - an uninterpreted function of s with that
        decomposition; l and r consist of str.isspace characters (uninterpreted, T-UNICODE): the result neither starts
        nor ends with one, an empty result means the string was empty or starts and ends with one, and a string
        that neither starts nor ends with one is its own strip."""
        if args:
            raise Unsupported("str.strip(chars)")
        strip, lw, rw = z3.Function("str_strip", S, S), z3.Function("str_lws", S, S), z3.Function("str_rws", S, S)
        t = recv.t
        sp = z3.Function("str_isspace", S, B)
        first = lambda x: z3.SubString(x, 0, 1)
        last = lambda x: z3.SubString(x, z3.Length(x) - 1, 1)
        r = strip(t)
        empty = z3.StringVal("")
        facts = [
            t == z3.Concat(lw(t), r, rw(t)),
            z3.Length(t) == z3.Length(lw(t)) + z3.Length(r) + z3.Length(rw(t)),      # (spelled out for the arithmetic solver)
            strip(r) == r,
            # what is stripped is white space (str.isspace) and nothing else
            z3.Or(r == empty, z3.And(z3.Not(sp(first(r))), z3.Not(sp(last(r))))),
            z3.Implies(r == empty, z3.Or(t == empty, z3.And(sp(first(t)), sp(last(t))))),
            z3.Implies(z3.And(t != empty, z3.Not(sp(first(t))), z3.Not(sp(last(t)))), r == t),
        ]
        for f in facts:
            if st.spec:
                # facts about this application hold for every string: background facts of later obligations
                if not any(f.eq(x) for x in self.axioms):
                    self.axioms.append(f)
            else:
                st.assume(f)
        return Val(STR, r)

    def m_str_replace(self, recv, args, kw, st, node):
        """s.replace(a, b) replaces every occurrence: an uninterpreted function of (s, a, b); never raises."""
        if len(args) != 2 or any(a.ty != STR for a in args):
            raise Unsupported("str.replace arguments")
        f = z3.Function("str_replace_all", S, S, S, S)
        return Val(STR, f(recv.t, args[0].t, args[1].t))

    def m_str_find(self, recv, args, kw, st, node):
        if len(args) != 1 or args[0].ty != STR:
            raise Unsupported("str.find arguments")
        return Val(INT, z3.IndexOf(recv.t, args[0].t, 0))

    def m_List_append(self, recv, args, kw, st, node):
        # rebind the receiver name if the element type was unknown
        res = self.list_append(recv, args[0], st)
        self._rebind_receiver(node, recv, args[0], st)
        return res

    def _rebind_receiver(self, node, recv, v, st):
        if recv.ty.args[0] is None and node is not None and isinstance(node.func, ast.Attribute) \
                and isinstance(node.func.value, ast.Name):
            nm = node.func.value.id
            if nm in st.env and st.env[nm].ty.name == "List" and st.env[nm].ty.args[0] is None:
                st.env[nm] = self.with_elem(recv, v, st)

    def m_List_pop(self, recv, args, kw, st, node):
        return self.list_pop(recv, args[0] if args else None, st, getattr(node, "lineno", None))

    def m_List_insert(self, recv, args, kw, st, node):
        res = self.list_insert(recv, args[0], args[1], st)
        self._rebind_receiver(node, recv, args[1], st)
        return res

    def m_List_extend(self, recv, args, kw, st, node):
        return self.list_extend(recv, args[0], st)

    def m_List_sort(self, recv, args, kw, st, node):
        self.used_assumptions.add("A-STD")
        if recv.ty.args[0] is None:
            return NONE_VAL
        out = self.sorted_list(recv, kw.get("key"), kw.get("reverse"), st)
        self.set_list(recv, st, None, self.list_items(out, st))
        return NONE_VAL

    def m_List_copy(self, recv, args, kw, st, node):
        return self.list_slice(recv, None, None, None, st)

    def m_Dict_get(self, recv, args, kw, st, node):
        default = args[1] if len(args) > 1 else NONE_VAL
        return self.dict_get(recv, args[0], st, default=default)

    def m_Dict_copy(self, recv, args, kw, st, node):
        return self.dict_copy(recv, st)

    def dict_values_list(self, d, st):
        desc = self.dict_iter_desc(d, st)
        vty = self.dict_vty(d) or JV
        os_ = opt_sort(sort_of(vty))
        j = z3.Int("j!dv")
        m0 = self.dict_map(d, st)
        items = self.def_array(st, j, os_.val(z3.Select(m0, z3.Select(desc.keyseq, j))))
        out = self.new_list(vty, st, desc.n, items)
        # the same fact from the key side (gives e-matching the term items[pos(k)] for a present key k)
        kq = fresh("qk", S)
        st.assume(z3.ForAll([kq], z3.Implies(os_.is_some(z3.Select(m0, kq)),
                                             z3.Select(items, desc.pos(kq)) == os_.val(z3.Select(m0, kq))),
                            patterns=[z3.Select(m0, kq)]))
        out.x["keyseq"] = desc.keyseq
        out.x["keypos"] = desc.pos
        return out

    def m_Dict_values(self, recv, args, kw, st, node):
        return self.dict_values_list(recv, st)

    def m_Dict_keys(self, recv, args, kw, st, node):
        desc = self.dict_iter_desc(recv, st)
        return self.new_list(STR, st, desc.n, desc.keyseq)

    def x_re_compile(self, args, kw, st, node):
        pat = self.as_str(args[0], st)
        flags = args[1] if len(args) > 1 else kw.get("flags", mk_int(0))
        ref = st.new_ref()
        st.write("re.Pattern.pattern", S, ref, pat.t)
        st.write("re.Pattern.flags", I, ref, flags.t)
        self.trusted_used.add("T-RE: re.compile/search/sub are uninterpreted functions of (pattern, flags, text)")
        return Val(ObjT("re.Pattern"), ref)

    def _re_args(self, recv, st):
        return st.read("re.Pattern.pattern", S, recv.t), st.read("re.Pattern.flags", I, recv.t)

    def m_Obj_copy(self, recv, args, kw, st, node):
        """dict.copy() on a record object: a plain dict with the same (constant) keys."""
        cls = recv.ty.args[0]
        cd = CLASSDEFS.get(cls)
        if not (cd and cd.get("record")):
            raise Unsupported(f"copy on {recv.ty}")
        d = {}
        for k, ft in cd["fields"].items():
            fty = parse_type(ft)
            if self.under_construction(recv, st):
                st.raise_if(z3.Not(st.read(f"{cls}.{k}!has", B, recv.t)), "KeyError")
            d[k] = from_sort_term(st.read(f"{cls}.{k}", sort_of(fty), recv.t), fty)
        return Val(Ty("SDict"), d)

    def m_Obj_get(self, recv, args, kw, st, node):
        """dict.get on a record object (constant key)."""
        cls = recv.ty.args[0]
        cd = CLASSDEFS.get(cls)
        key = args[0]
        if not (cd and cd.get("record") and key.ty == STR and z3.is_string_value(key.t)):
            raise Unsupported(f"get on {recv.ty}")
        k = key.t.as_string()
        default = args[1] if len(args) > 1 else NONE_VAL
        if k not in cd["fields"]:
            return default
        fty = parse_type(cd["fields"][k])
        val = from_sort_term(st.read(f"{cls}.{k}", sort_of(fty), recv.t), fty)
        has = st.read(f"{cls}.{k}!has", B, recv.t) if self.under_construction(recv, st) else z3.BoolVal(True)
        if z3.is_true(has):
            return val
        return self.merge_vals(has, val, default)

    def m_Obj_search(self, recv, args, kw, st, node):
        if recv.ty.args[0] != "re.Pattern":
            raise Unsupported("search on " + str(recv.ty))
        text = self.as_str(args[0], st, getattr(node, "lineno", None))
        p, f = self._re_args(recv, st)
        fn = z3.Function("re_search", S, I, S, B)
        return Val(OptT(ANYREF), z3.If(fn(p, f, text.t), 1, 0))

    def m_Obj_sub(self, recv, args, kw, st, node):
        if recv.ty.args[0] != "re.Pattern":
            raise Unsupported("sub on " + str(recv.ty))
        repl = self.as_str(args[0], st)
        text = self.as_str(args[1], st, getattr(node, "lineno", None))
        p, f = self._re_args(recv, st)
        fn = z3.Function("re_sub", S, I, S, S, S)
        return Val(STR, fn(p, f, repl.t, text.t))

    def x_urllib_parse_urlparse(self, args, kw, st, node):
        url = self.as_str(args[0], st, getattr(node, "lineno", None))
        self.trusted_used.add("T-URL: urllib.parse.urlparse components are uninterpreted functions of the url")
        ref = st.new_ref()
        for f in ("scheme", "netloc", "path", "params", "query", "fragment"):
            fn = z3.Function("url_" + f, S, S)
            st.write("urllib.parse.ParseResult." + f, S, ref, fn(url.t))
        return Val(ObjT("urllib.parse.ParseResult"), ref)

    def x_functools_reduce(self, args, kw, st, node):
        """reduce(f, xs, init): a left fold, executed as the loop `acc = init; for x in xs: acc = f(acc, x)`
        cut by the invariant the contract gives under the loop key "reduce"."""
        f, xs, init = args
        lc, _ = None, None
        c = self.contract_of(st.frame.qualname)
        lc = (c or {}).get("loops", {}).get("reduce")
        s_env = st.env
        st.env = dict(st.env)
        st.env["__f"] = f
        st.env["__xs"] = xs
        st.env["acc"] = init
        loop = ast.parse("for x in __xs:\n    acc = __f(acc, x)").body[0]
        ast.fix_missing_locations(loop)
        try:
            if lc is None:
                raise Unsupported("reduce without a 'reduce' loop invariant")
            desc = self.iter_desc_val(xs, st)
            outs = self.cut_loop(loop, st, lc, "reduce", desc=desc)
            normal = [o for o in outs if o.status == "run"]
            for o in outs:
                if o.status == "raise":
                    o.env = s_env
                    st.spawned.append(o)
            if len(normal) != 1:
                raise Unsupported("reduce: unexpected control flow")
            o = normal[0]
            st.pc, st.heap, st.alloc_base, st.alloc_off, st.ghost = o.pc, o.heap, o.alloc_base, o.alloc_off, o.ghost
            for gname in lc.get("ghost", {}):
                s_env[gname] = o.env[gname]
            return o.env["acc"]
        finally:
            st.env = s_env

    def m_timedelta_total_seconds(self, recv, args, kw, st, node):
        f = z3.Function("td_total_seconds", I, R)             # the float number of seconds of a timedelta
        return Val(FLOAT, f(recv.t), exact_us=recv.t)

    def m_datetime_astimezone(self, recv, args, kw, st, node):
        x = dict(recv.x)
        x["off"] = 0
        x["aware"] = True
        aware = recv.x.get("aware", True)
        if aware is not True:
            # astimezone() on a naive datetime would consult the machine's local zone: must be unreachable
            st.raise_if(z3.Not(aware) if not isinstance(aware, bool) else z3.BoolVal(True), "NaiveDatetime",
                        getattr(node, "lineno", None))
        return Val(DT, recv.t, **x)

    def m_datetime_isoformat(self, recv, args, kw, st, node):
        f = z3.Function("isoformat", I, I, S)
        off = recv.x.get("off", 0)
        return Val(STR, f(recv.t, off if not isinstance(off, int) else z3.IntVal(off)), iso_of=recv)

    def m_datetime_replace(self, recv, args, kw, st, node):
        x = dict(recv.x)
        t = recv.t
        for k, v in kw.items():
            if k == "microsecond":
                off = x.get("off", 0)
                st.raise_if(z3.Or(v.t < 0, v.t >= US), "ValueError", getattr(node, "lineno", None))
                t = t - ((t + off) % US) + v.t
            elif k == "tzinfo":
                if v.ty == NONE:
                    x["aware"] = False
                else:
                    # attaching UTC to a naive value: the wall-clock reading becomes the instant
                    x["aware"] = True
                    x["off"] = 0
            else:
                raise Unsupported(f"datetime.replace({k}=)")
        return Val(DT, t, **x)

    def m_datetime_utcoffset(self, recv, args, kw, st, node):
        off = recv.x.get("off", 0)
        aware = recv.x.get("aware", True)
        offt = z3.IntVal(off) if isinstance(off, int) else off
        if aware is True:
            return Val(TD, offt)
        srt = opt(I)
        return Val(OptT(TD), z3.If(aware, srt.some(offt), srt.none) if not isinstance(aware, bool) else srt.none)

    def x_iso8601_parse_date(self, args, kw, st, node):
        """A-ISO: returns the aware datetime the ISO-8601 text denotes (whole-minute offset); A-RT1: parsing the
        isoformat() of a datetime gives that datetime back."""
        v = args[0]
        self.used_assumptions.add("A-ISO")
        if v.ty == STR and "iso_of" in v.x:
            self.used_assumptions.add("A-RT1")
            src = v.x["iso_of"]
            return Val(DT, src.t, off=src.x.get("off", 0), aware=True)
        s_ = self.as_str(v, st, getattr(node, "lineno", None))
        inst = z3.Function("iso_instant", S, I)(s_.t)
        off = z3.Function("iso_offset", S, I)(s_.t)
        st.assume(off % 60000000 == 0)
        st.spawned.append(self._parse_error_state(st, node))
        return Val(DT, inst, off=off, aware=True)

    def _parse_error_state(self, st, node):
        r = st.copy()
        r.pc = st.hyp() + [fresh("iso_parse_error", B)]
        r.guards = []
        r.status = "raise"
        r.exc = "ParseError"
        r.exc_site = getattr(node, "lineno", None)
        return r

    def x_bi_parse_date(self, args, kw, st, node):
        r = self.x_iso8601_parse_date(args, kw, st, node)
        st.spawned = [x for x in st.spawned if x.exc != "ParseError"] if st.spec else st.spawned
        return r

    def x_bi_json_type(self, args, kw, st, node):
        """JSON Schema type name of a value, by its static type (specification only)."""
        ty = args[0].ty
        name = {"str": "string", "float": "number", "int": "integer", "bool": "boolean", "None": "null",
                "Dict": "object", "SDict": "object", "List": "array", "Obj": "object"}.get(ty.name)
        if name is None:
            name = "opt:" + repr(ty)
        return mk_str(name)

    def x_json_dumps(self, args, kw, st, node):
        """json.dumps: an uninterpreted function of the value (for dicts: of the key/value map).  A-JSON."""
        v = args[0]
        self.used_assumptions.add("A-JSON")
        if v.ty.name == "Dict":
            m = self.dict_map(v, st)
            f = z3.Function("json_dumps_map", m.sort(), S)
            return Val(STR, f(m))
        if v.ty.name == "Opt" and v.ty.args[0].name == "Dict":
            inner = self._inner(v)
            m = self.dict_map(inner, st)
            f = z3.Function("json_dumps_map", m.sort(), S)
            return Val(STR, z3.If(self.is_none(v, st), z3.StringVal("null"), f(m)))
        return Val(STR, fresh("json", S), json_of=v)

    def x_json_loads(self, args, kw, st, node):
        """json.loads of a text: a fresh dict whose map is json_loads_map(text); loads(dumps(m)) == m (A-JSON)."""
        s_ = self.as_str(args[0], st, getattr(node, "lineno", None))
        self.used_assumptions.add("A-JSON")
        msort = z3.ArraySort(S, opt(JVSort).sort)
        f = z3.Function("json_loads_map", S, msort)
        g = z3.Function("json_dumps_map", msort, S)
        if "A-JSON" not in getattr(self, "_global_axioms", set()):
            if not hasattr(self, "_global_axioms"):
                self._global_axioms = set()
            self._global_axioms.add("A-JSON")
            mm = z3.Const("m!js", msort)
            self.axioms.append(z3.ForAll([mm], f(g(mm)) == mm, patterns=[g(mm)]))
        return self.new_dict(JV, st, f(s_.t))

    def m_datetime_timestamp(self, recv, args, kw, st, node):
        f = z3.Function("dt_timestamp", I, R)                 # the float POSIX timestamp of an instant
        self.lemma_F3()
        return Val(FLOAT, f(recv.t), ts_of=recv.t)

    def x_datetime_datetime_fromtimestamp(self, args, kw, st, node):
        v = args[0]
        f = z3.Function("dt_fromtimestamp", R, I)             # the instant of a float POSIX timestamp
        self.lemma_F3()
        return Val(DT, f(to_sort_term(v, FLOAT)))

    def lemma_F3(self):
        """Lemma F3 (pyvc/fplemmas.py: f3_cells, proved per run by the check that uses it): for every instant T, a whole number
        of microseconds between 1970 and 2100 + 31 days,   fromtimestamp(((T.timestamp() * 1000000) / 1000000), utc) == T."""
        if "F3" in getattr(self, "_global_axioms", set()):
            return
        if not hasattr(self, "_global_axioms"):
            self._global_axioms = set()
        self._global_axioms.add("F3")
        from .fplemmas import LIMIT_F3_US
        T = z3.Int("T!f3")
        ts = z3.Function("dt_timestamp", I, R)
        back = z3.Function("dt_fromtimestamp", R, I)
        mul, div = z3.Function("f_mul", R, R, R), z3.Function("f_div", R, R, R)
        M = z3.RealVal(1000000)
        stored = mul(ts(T), M)
        self.axioms.append(z3.ForAll([T], z3.Implies(z3.And(0 <= T, T <= LIMIT_F3_US), back(div(stored, M)) == T),
                                     patterns=[stored]))
        # Lemma F5 (same cells, claim 'near'): the stored float is within half a microsecond of the instant - so the encoding is
        # strictly increasing on whole microseconds (comparing stored floats is comparing instants)
        self.axioms.append(z3.ForAll([T], z3.Implies(z3.And(0 <= T, T <= LIMIT_F3_US),
                                                     z3.And(z3.ToReal(T) - stored < z3.RealVal("1/2"), stored - z3.ToReal(T) < z3.RealVal("1/2"),
                                                            stored >= 0)),       # (a rounded non-negative real is non-negative)
                                     patterns=[stored]))
        self.lemmas_used.add("F3")


def _neg_const(t):
    t = z3.simplify(t)
    return z3.is_int_value(t) and t.as_long() < 0


def _nonneg_const(t):
    return z3.is_int_value(t) and t.as_long() >= 0
