"""Symbolic executor / VC generator over the Python AST of the real source.

Forward symbolic execution, path splitting at statements, heap-as-arrays, modular calls
(callee contract instead of callee body), loops cut by invariants.  See DESIGN.md section 2.

Encoding assumptions (all listed in evidence by `ASSUMPTIONS`):
  int = SMT Int; aware datetime / timedelta = Int microseconds; object reference = Int, each field
  an SMT array; list = (len, items-array); dict[str,V] = array String -> Option V.
"""
from __future__ import annotations
import ast
import itertools
import z3

from . import front
from .api import CONTRACTS, CLASSDEFS

# ----------------------------------------------------------------------------------------------
# types
# ----------------------------------------------------------------------------------------------


class Ty:
    __slots__ = ("name", "args")

    def __init__(self, name, args=()):
        self.name = name
        self.args = tuple(args)

    def __eq__(self, o):
        return isinstance(o, Ty) and self.name == o.name and self.args == o.args

    def __hash__(self):
        return hash((self.name, self.args))

    def __repr__(self):
        if not self.args:
            return self.name
        return f"{self.name}[{','.join(map(repr, self.args))}]"


INT, BOOL, STR, DT, TD, FLOAT, NONE, JV, FN, ANYREF = (Ty(n) for n in
                                                         ("int", "bool", "str", "datetime", "timedelta", "float",
                                                          "None", "JV", "fn", "anyref"))


def ObjT(cls):
    return Ty("Obj", (cls,))


def ListT(e):
    return Ty("List", (e,))


def DictT(v):
    return Ty("Dict", (v,))


def OptT(t):
    if t.name == "Opt":
        return t
    return Ty("Opt", (t,))


CLS = Ty("Cls")          # a class object (value of a variable that holds one of the program's classes): an Int tag
CLASS_IDS = {}           # qualname -> tag (>= 1)
CLASS_BY_ID = {}         # tag -> front.ClassInfo


def class_id(ci):
    q = ci.qualname
    if q not in CLASS_IDS:
        CLASS_IDS[q] = len(CLASS_IDS) + 1
        CLASS_BY_ID[CLASS_IDS[q]] = ci
    return CLASS_IDS[q]


def TupleT(ts):
    return Ty("Tuple", tuple(ts))


def is_reflike(t):
    return t.name in ("Obj", "List", "Dict", "anyref")


TYPE_ALIASES = {
    "Event": "aw_core.models.Event",
    "Timeslot": "timeslot.timeslot.Timeslot",
}


def parse_type(s):
    if isinstance(s, Ty):
        return s
    node = ast.parse(s, mode="eval").body
    return _type_of_node(node)


def _type_of_node(n):
    if isinstance(n, ast.Name):
        nm = n.id
        if nm == "SDict":
            return Ty("SDict")
        if nm == "IntMap":
            return Ty("IntMap")
        if nm == "IntMap2":
            return Ty("IntMap2")
        if nm == "Cls":
            return CLS
        simple = {"int": INT, "bool": BOOL, "str": STR, "datetime": DT, "timedelta": TD, "float": FLOAT,
                  "None": NONE, "JV": JV, "Seconds": FLOAT, "fn": FN}
        if nm in simple:
            return simple[nm]
        if nm not in TYPE_ALIASES:
            # a class name used unqualified in a contract: resolve by the last component of a classdef
            cands = [q for q in CLASSDEFS if q.split(".")[-1] == nm]
            if len(cands) == 1:
                TYPE_ALIASES[nm] = cands[0]
        return ObjT(TYPE_ALIASES.get(nm, nm))
    if isinstance(n, ast.Constant) and n.value is None:
        return NONE
    if isinstance(n, ast.Constant) and isinstance(n.value, str):
        return ObjT(TYPE_ALIASES.get(n.value, n.value))
    if isinstance(n, ast.Attribute):
        return ObjT(ast.unparse(n))
    if isinstance(n, ast.Subscript):
        head = ast.unparse(n.value)
        sl = n.slice
        elts = sl.elts if isinstance(sl, ast.Tuple) else [sl]
        if head == "List":
            return ListT(_type_of_node(elts[0]))
        if head == "Optional":
            return OptT(_type_of_node(elts[0]))
        if head == "Dict":
            return DictT(_type_of_node(elts[-1]))
        if head == "Tuple":
            return TupleT([_type_of_node(e) for e in elts])
    raise Unsupported(f"type {ast.unparse(n)}")


class Unsupported(Exception):
    pass


class EngineError(Exception):
    pass


# ----------------------------------------------------------------------------------------------
# sorts
# ----------------------------------------------------------------------------------------------
JVSort = z3.DeclareSort("JV")
I = z3.IntSort()
B = z3.BoolSort()
S = z3.StringSort()
R = z3.RealSort()

_opt_cache = {}
_tuple_cache = {}


class _Opt:
    """Option datatype with constructor names unique per instance (SMT-LIB text stays unambiguous for cvc5)."""

    def __init__(self, inner):
        tag = str(inner).replace(" ", "_").replace("(", "_").replace(")", "_")
        d = z3.Datatype("Opt_" + tag)
        d.declare("none_" + tag)
        d.declare("some_" + tag, ("val_" + tag, inner))
        self.sort = d.create()
        self.none = getattr(self.sort, "none_" + tag)
        self.some = getattr(self.sort, "some_" + tag)
        self.val = getattr(self.sort, "val_" + tag)
        self.is_none = getattr(self.sort, "is_none_" + tag)
        self.is_some = getattr(self.sort, "is_some_" + tag)


def opt(inner):
    key = str(inner)
    if key not in _opt_cache:
        _opt_cache[key] = _Opt(inner)
    return _opt_cache[key]


def opt_sort(inner):
    """Helper object with .sort/.none/.some/.val/.is_none/.is_some for Option[inner]."""
    return opt(inner)


def tuple_sort(sorts):
    key = ",".join(str(s) for s in sorts)
    if key not in _tuple_cache:
        nm = "Tup_" + key.replace(" ", "_").replace(",", "_").replace("(", "_").replace(")", "_")
        d = z3.Datatype(nm)
        d.declare("mk", *[(f"f{i}", s) for i, s in enumerate(sorts)])
        _tuple_cache[key] = d.create()
    return _tuple_cache[key]


def opt_of(ty):
    """Option helper for an Opt[scalar] type."""
    return opt(sort_of(ty.args[0]))


def sort_of(ty):
    n = ty.name
    if n in ("int", "datetime", "timedelta", "Obj", "List", "Dict", "anyref"):
        return I
    if n == "bool":
        return B
    if n == "str":
        return S
    if n == "float":
        return R
    if n == "JV":
        return JVSort
    if n == "Opt":
        inner = ty.args[0]
        if is_reflike(inner):
            return I
        return opt_sort(sort_of(inner)).sort
    if n == "Tuple":
        return tuple_sort([sort_of(a) for a in ty.args])
    if n == "None":
        return I
    if n == "IntMap":
        return z3.ArraySort(I, I)
    if n == "IntMap2":
        return z3.ArraySort(I, I, I)
    if n == "Cls":
        return I
    raise Unsupported(f"no sort for {ty}")


_fresh_counter = itertools.count()


def fresh(prefix, sort):
    return z3.Const(f"{prefix}!{next(_fresh_counter)}", sort)


def fresh_fn(prefix, *sorts):
    return z3.Function(f"{prefix}!{next(_fresh_counter)}", *sorts)


# uninterpreted helpers shared by all VCs
td_us = z3.Function("td_us", R, I)               # timedelta(seconds=x) in microseconds   (A-TDF)
jv_is_str = z3.Function("jv_is_str", JVSort, B)
jv_str = z3.Function("jv_str", JVSort, S)
jv_of_str = z3.Function("jv_of_str", S, JVSort)
jv_null = z3.Const("jv_null", JVSort)                      # Python's None as a JSON value
jv_is_list = z3.Function("jv_is_list", JVSort, B)
jv_is_dict = z3.Function("jv_is_dict", JVSort, B)
jv_tuple_of = z3.Function("jv_tuple_of", JVSort, JVSort)
jv_truthy = z3.Function("jv_truthy", JVSort, B)
jv_pyeq = z3.Function("jv_pyeq", JVSort, JVSort, B)   # Python's == on JSON-ish values


class Val:
    __slots__ = ("ty", "t", "x")

    def __init__(self, ty, t, **x):
        self.ty = ty
        self.t = t
        self.x = x

    def __repr__(self):
        return f"<{self.ty}:{self.t}>"


def mk_int(v):
    return Val(INT, z3.IntVal(v) if isinstance(v, int) else v)


def mk_bool(v):
    return Val(BOOL, z3.BoolVal(v) if isinstance(v, bool) else v)


def mk_str(v):
    return Val(STR, z3.StringVal(v) if isinstance(v, str) else v)


NONE_VAL = Val(NONE, None)


def to_sort_term(v, ty):
    """z3 term of `v` coerced to the representation of static type `ty` (for storing)."""
    if v.ty == ty:
        if ty.name == "Tuple":
            srt = sort_of(ty)
            return srt.mk(*[to_sort_term(x, a) for x, a in zip(v.t, ty.args)])
        return v.t
    if ty == CLS and v.ty == FN and v.t[0] == "class":
        return z3.IntVal(class_id(v.t[1]))
    if ty.name == "Opt" and ty.args[0] == CLS and v.ty == FN and v.t[0] == "class":
        return opt_of(ty).some(z3.IntVal(class_id(v.t[1])))
    if ty.name == "Obj" and v.ty.name == "Obj":
        return v.t          # a reference to an instance of a subclass where the base class is declared
    if ty.name == "Opt":
        inner = ty.args[0]
        if is_reflike(inner):
            if v.ty == NONE:
                return z3.IntVal(0)
            if is_reflike(v.ty) or (v.ty.name == "Opt" and is_reflike(v.ty.args[0])):
                return v.t
        else:
            srt = opt_of(ty)
            if v.ty == NONE:
                return srt.none
            if v.ty == inner:
                return srt.some(v.t)
            if v.ty == BOOL and inner == INT:
                return srt.some(z3.If(v.t, 1, 0))
    if ty == ANYREF and (is_reflike(v.ty) or v.ty.name == "Opt"):
        return v.t
    if is_reflike(ty) and v.ty.name == "Opt" and v.ty.args[0] == ty:
        return v.t
    if is_reflike(ty) and v.ty == ANYREF:
        return v.t
    if ty == FLOAT and v.ty == INT:
        return z3.ToReal(v.t)
    if ty == INT and v.ty == BOOL:
        return z3.If(v.t, 1, 0)
    if ty.name == "List" and v.ty.name == "List" and (v.ty.args[0] is None or ty.args[0] is None
                                                       or sort_of(v.ty.args[0]) == sort_of(ty.args[0])):
        return v.t
    if ty.name == "Dict" and v.ty.name == "Dict":
        return v.t
    if ty == JV and v.ty == NONE:
        return jv_null          # Python's None as a JSON value
    if ty.name in ("Dict", "List") and v.ty == JV:
        # a JSON value that is a table / list: the object it embeds (inverse of the embedding)
        return z3.Function("jv_to_Int", JVSort, I)(v.t)
    if ty.name == "Tuple" and v.ty.name == "Tuple" and len(ty.args) == len(v.ty.args):
        srt = sort_of(ty)
        return srt.mk(*[to_sort_term(x, a) for x, a in zip(v.t, ty.args)])
    raise Unsupported(f"cannot coerce {v.ty} to {ty}")


def from_sort_term(t, ty):
    if ty == CLS and z3.is_int_value(t) and t.as_long() in CLASS_BY_ID:
        return Val(FN, ("class", CLASS_BY_ID[t.as_long()]))
    if ty.name == "Tuple":
        srt = sort_of(ty)
        return Val(ty, [from_sort_term(srt.accessor(0, i)(t), a) for i, a in enumerate(ty.args)])
    return Val(ty, t)


# ----------------------------------------------------------------------------------------------
# state
# ----------------------------------------------------------------------------------------------


class State:
    def __init__(self, ex):
        self.ex = ex
        self.pc = []            # path condition (list of z3 Bool)
        self.guards = []        # expression-level guards (short-circuit evaluation)
        self.env = {}
        self.heap = {}          # field key -> z3 array
        self.alloc_base = None  # allocation epoch base (z3 Int const); every ref < alloc is allocated
        self.alloc_off = 0
        self.status = "run"     # run | return | raise | break | continue
        self.ret = None
        self.exc = None         # exception class name
        self.exc_site = None
        self.spawned = []       # raise-states forked inside the statement being executed
        self.old = None         # pre-state (for old(...))
        self.spec = False       # evaluating a specification expression
        self.ghost = {}
        self.trace = []         # branch decisions (for reporting)
        self.yields = None
        self.frame = None
        self.ret_tmp = None

    def copy(self):
        s = State(self.ex)
        s.pc = list(self.pc)
        s.guards = list(self.guards)
        s.env = dict(self.env)
        s.heap = dict(self.heap)
        s.alloc_base = self.alloc_base
        s.alloc_off = self.alloc_off
        s.status = self.status
        s.ret = self.ret
        s.exc = self.exc
        s.exc_site = self.exc_site
        s.spawned = []
        s.old = self.old
        s.spec = self.spec
        s.ghost = dict(self.ghost)
        s.trace = list(self.trace)
        s.yields = self.yields
        s.frame = self.frame
        return s

    # -- allocation ----------------------------------------------------------------------------
    @property
    def alloc(self):
        if self.alloc_base is None:
            return None
        return self.alloc_base + self.alloc_off if self.alloc_off else self.alloc_base

    @alloc.setter
    def alloc(self, term):
        """Start a new allocation epoch whose base equals `term`."""
        if term is None:
            self.alloc_base = None
            return
        if z3.is_int_value(term):
            self.alloc_base, self.alloc_off = term, 0
            return
        cur = self.alloc
        if cur is not None and term.eq(cur):
            return
        b = fresh("alloc", I)
        self.ex.epochs[b.get_id()] = (self.alloc_base.get_id() if self.alloc_base is not None else None, self.alloc_off)
        self.alloc_base, self.alloc_off = b, 0
        self.assume_unguarded(b == term)

    def new_epoch_at_least(self, lower):
        b = fresh("alloc", I)
        self.ex.epochs[b.get_id()] = (self.alloc_base.get_id() if self.alloc_base is not None else None, self.alloc_off)
        self.alloc_base, self.alloc_off = b, 0
        self.assume_unguarded(b >= lower)

    def assume_unguarded(self, c):
        self.pc.append(c)

    # -- path condition ------------------------------------------------------------------------
    def guard(self):
        return z3.And(*self.guards) if self.guards else None

    def assume(self, c):
        g = self.guard()
        self.pc.append(z3.Implies(g, c) if g is not None else c)

    def hyp(self):
        return list(self.pc) + list(self.guards)

    def raise_if(self, cond, exc, site=None):
        """Primitive may raise `exc` when `cond`: fork a raise-state, continue under not cond."""
        if self.spec:
            return
        if z3.is_false(cond):
            return
        r = self.copy()
        r.pc = self.hyp() + [cond]
        r.guards = []
        r.status = "raise"
        r.exc = exc
        r.exc_site = site
        self.spawned.append(r)
        self.assume(z3.Not(cond))

    # -- heap ----------------------------------------------------------------------------------
    def field(self, key, sort):
        if key not in self.heap:
            init = self.ex.init_heap
            if key not in init:
                init[key] = z3.Const("H0_" + key, z3.ArraySort(I, sort))
            arr = init[key]
            # heap fields come into existence when first used: a frame havoc that named a whole family of fields
            # (`obj.*`, `Dict.map`, `heap`, fields of objects a callee allocated) before this one existed applies to it too.
            # The result is a function of (field, havoc history): every copy of the state sees the same array.
            cache = self.ex.__dict__.setdefault("lazy_field_cache", {})
            hist = []
            for ev in self.ghost.get("__havocs__", ()):
                if not key.startswith(ev[1]):
                    continue
                hist.append(ev[3])
                ck = (key, tuple(hist))
                if ck in cache:
                    arr, facts = cache[ck]
                else:
                    facts = []
                    if ev[0] == "all":
                        arr = fresh("hv_" + key, arr.sort())
                    elif ev[0] == "at":
                        arr = z3.Store(arr, ev[2], fresh("hv_" + key.rsplit(".", 1)[-1], arr.sort().range()))
                    elif ev[0] == "fresh":
                        new = fresh("wf_" + key.rsplit(".", 1)[-1], arr.sort())
                        r = fresh("r", I)
                        facts.append(z3.ForAll([r], z3.Implies(r < ev[2], z3.Select(new, r) == z3.Select(arr, r)),
                                               patterns=[z3.Select(new, r)]))
                        arr = new
                    cache[ck] = (arr, facts)
                for f in facts:
                    self.assume_unguarded(f)
            self.heap[key] = arr
        return self.heap[key]

    def note_havoc(self, kind, prefix, arg=None):
        self.ghost = dict(self.ghost)
        serial = self.ex.__dict__.setdefault("havoc_serial", [0])
        serial[0] += 1
        self.ghost["__havocs__"] = tuple(self.ghost.get("__havocs__", ())) + ((kind, prefix, arg, serial[0]),)

    def write(self, key, sort, ref, val):
        arr = self.field(key, sort)
        new = z3.Store(arr, ref, val)
        g = self.guard()
        self.heap[key] = z3.If(g, new, arr) if g is not None else new
        wr = self.ex.write_refs
        if wr is not None:
            wr.append((key, ref))

    def set_field_array(self, key, arr):
        g = self.guard()
        old = self.heap.get(key)
        self.heap[key] = z3.If(g, arr, old) if (g is not None and old is not None) else arr
        wr = self.ex.write_refs
        if wr is not None:
            wr.append((key, None))

    def new_ref(self):
        r = self.alloc
        # allocation under a guard still bumps alloc (harmless: refs only need to be distinct)
        self.alloc_off += 1
        return r

    # -- syntactic disequality of references (keeps store chains out of the formulas) ------------
    def _decomp(self, t):
        if z3.is_add(t) and t.num_args() == 2:
            a, b = t.arg(0), t.arg(1)
            if z3.is_int_value(b):
                return a, b.as_long()
            if z3.is_int_value(a):
                return b, a.as_long()
        return t, 0

    def distinct_refs(self, r1, r2):
        if r1.eq(r2):
            return False
        b1, c1 = self._decomp(r1)
        b2, c2 = self._decomp(r2)
        if b1.eq(b2):
            return c1 != c2
        ep = self.ex.epochs
        i1, i2 = b1.get_id(), b2.get_id()
        old = self.ex.old_refs
        f1, f2 = i1 in ep, i2 in ep
        if f1 and i2 in old and c2 == 0 and c1 >= 0:
            return True
        if f2 and i1 in old and c1 == 0 and c2 >= 0:
            return True
        if f1 and f2 and c1 >= 0 and c2 >= 0:
            # is epoch i1 an ancestor of i2 (or vice versa) with the ref inside the used part?
            for (lo, clo, hi) in ((i1, c1, i2), (i2, c2, i1)):
                cur = hi
                while cur is not None and cur in ep:
                    prev, used = ep[cur]
                    if prev == lo:
                        if clo < used:
                            return True
                        break
                    cur = prev
        return False

    def ref_before(self, ref, limit):
        """Syntactic: ref < limit, where limit is an allocation point (epoch base + offset)."""
        rb, rc = self._decomp(ref)
        lb, lc = self._decomp(limit)
        if rb.get_id() in self.ex.old_refs and rc == 0:
            return True
        if rb.eq(lb):
            return 0 <= rc < lc
        ep = self.ex.epochs
        cur = lb.get_id()
        seen = 0
        while cur in ep and seen < 60:
            prev, used = ep[cur]
            if prev == rb.get_id():
                return 0 <= rc < used
            cur = prev
            seen += 1
        return False

    def read(self, key, sort, ref):
        arr = self.field(key, sort)
        while True:
            # walk the store chain while the written cell is provably a different reference
            while z3.is_store(arr):
                i = arr.arg(1)
                if i.eq(ref):
                    return arr.arg(2)
                if self.distinct_refs(i, ref):
                    arr = arr.arg(0)
                else:
                    break
            # an array introduced by a frame "everything allocated before L is unchanged": read through it
            info = self.ex.region_havoc.get(arr.get_id()) if z3.is_const(arr) else None
            if info is not None and self.ref_before(ref, info[1]):
                arr = info[0]
                continue
            break
        return z3.Select(arr, ref)


# ----------------------------------------------------------------------------------------------
# obligations
# ----------------------------------------------------------------------------------------------


class Obligation:
    def __init__(self, name, hyps, goal, fn, kind, clause=None, site=None, state=None, note=""):
        self.name = name
        self.hyps = hyps
        self.goal = goal
        self.fn = fn
        self.kind = kind
        self.clause = clause
        self.site = site
        self.state = state
        self.note = note
        self.result = None
        self.time = 0.0
        self.model = None
        self.backend = None

    def formula(self):
        return z3.And(*self.hyps, z3.Not(self.goal)) if self.hyps else z3.Not(self.goal)


ASSUMPTIONS = {
    "A-LOG": "dropped logger.* calls (and their f-string arguments) neither raise nor have effects",
    "A-DT": "aware datetimes are exact integer-microsecond instants; datetime +/-/compare are integer ops",
    "A-TD": "timedelta is an exact integer number of microseconds",
    "A-TDF": "timedelta(seconds=x) is a function td_us(x) of x with td_us(0)=0 and sign(td_us(x))=sign(x)",
    "A-STD": "sorted/list.sort return a stable ordered permutation; max/min/sum/zip/enumerate/reversed as documented",
    "A-COPY": "copy.deepcopy returns a structure-preserving deep-fresh copy; copy.copy/dict.copy are shallow",
    "A-DICT": "dict iteration order is insertion order",
    "A-PARMAP": "a comprehension whose element call writes only its own element's data dict is encoded as a parallel map: the callee's postcondition is taken against the state before the comprehension (distinct dicts are an obligation; independence of the postcondition from other dicts is assumed)",
    "A-JV": "JSON-like values inside event data are opaque values with equality",
    "A-CLOCK": "datetime.now() readings are monotone: every reading is >= every earlier one (the specification's clock_now() is the latest lower bound)",
    "A-GEN": "a generator consumed to exhaustion by its caller is executed eagerly, its yields collected in order into a ghost list",
    "A-ISO": "iso8601.parse_date returns the aware datetime its text denotes, with a whole-minute UTC offset, or raises ParseError",
    "A-RT1": "iso8601.parse_date(d.isoformat()) == d for every aware datetime d",
    "A-RT2": "timedelta(seconds=td.total_seconds()) == td for |td| <= 270 years (exhaustively cross-checked on samples, not proved)",
    "A-JSON": "json.dumps is a function of the value (for a dict: of its key/value map) and json.loads(json.dumps(m)) has the map m; nothing else is assumed about the text",
    "T-SOLVER": "z3 / cvc5 answer unsat only for unsatisfiable queries; the VC generator itself (guarded by cross-checks and planted-failure tests)",
}
