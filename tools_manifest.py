#!/usr/bin/env python3-vt
"""Regenerates MANIFEST.json from props/*.py (single source of truth for what is claimed)."""
import importlib, json, os, sys
here = os.path.dirname(os.path.abspath(__file__))
sys.path.insert(0, here)
ALL = [f"C{i:02d}" for i in range(1, 21)]
checks, na = [], []


def technique(P):
    """Names the deciding method: what is discharged deductively and what is only a bounded run-time check."""
    fns = []
    for f in P.get("functions", []):
        if f.get("bounded_only"):
            continue
        short = ".".join(f["fn"].split(".")[-2:]) if f["fn"].split(".")[-2][:1].isupper() else f["fn"].split(".")[-1]
        if short not in fns:
            fns.append(short)
    bounded_fns = [f["fn"].split(".")[-1] for f in P.get("functions", []) if f.get("bounded_only")]
    parts = []
    if fns:
        parts.append("contract-based deductive verification (sidecar contracts on the real functions; verification conditions generated from the "
                     "AST of the working tree, frames included, discharged by z3 / cvc5 for all inputs) of: " + ", ".join(fns))
    if P.get("extra") or bounded_fns or any(not f.get("rt_skip") for f in P.get("functions", [])):
        what = []
        if bounded_fns:
            what.append("run-time contracts of " + ", ".join(bounded_fns))
        if P.get("extra"):
            what.append("reference-model harness on the real code")
        if any(not f.get("rt_skip") and not f.get("bounded_only") for f in P.get("functions", [])):
            what.append("native evaluation of the same contracts on sampled small inputs (encoder cross-check)")
        parts.append("bounded stand-in, never counted as proved: " + "; ".join(what))
    return " | ".join(parts)

for pid in ALL:
    if not os.path.exists(os.path.join(here, "props", pid + ".py")):
        na.append({"property_id": pid, "reason": "check not built yet (contract-based verification planned; see DESIGN.md section 8)"})
        continue
    m = importlib.import_module(f"props.{pid}")
    P = m.PROP
    if P.get("not_applicable"):
        na.append({"property_id": pid, "reason": P["not_applicable"]})
        continue
    checks.append({
        "property_id": pid,
        "quick_cmd": f"./bin/check {pid} --tier quick",
        "thorough_cmd": f"./bin/check {pid} --tier thorough",
        "evidence_file": f"evidence/{pid}.json",
        "replay_cmd_template": f"./bin/check {pid} --replay {{path}}",
        "engine": "pyvc",
        "level_claimed": {"category": P.get("level", "other"), "text": P.get("level_text", P.get("explanation", "")),
                          "design_ref": f"DESIGN.md section 8 / {pid}"},
        "level_note": P.get("level_note", "trusted base and assumptions are listed in the evidence file (coverage.trusted_base)"),
        "technique": technique(P),
    })
man = {
    "version": 1,
    "setup_cmd": "./bin/selftest",
    "hooks": {"guard": "ACTIVITYWATCH_AW_CORE_VERIF", "enable": "no hooks: contracts are sidecar files, /repo is only parsed and imported",
              "baseline_off_cmd": "cd /repo && /venv/bin/python -m pytest -ra -q -p no:cacheprovider --timeout=900 --continue-on-collection-errors",
              "source_commits": [], "add_only": True},
    "engines": [{"name": "pyvc", "path": "pyvc/", "serves_properties": [c["property_id"] for c in checks],
                 "kind_free_text": "symbolic executor / VC generator over Python ast of /repo's working tree, sidecar contracts, z3 + cvc5; run-time replay of counterexamples under /venv/bin/python"}],
    "checks": checks,
    "not_applicable": na,
    "notes": "exit codes: 0 held, 1 VIOLATION, 2 undecided (undischarged obligation outside the ledger), 3 engine error",
}
json.dump(man, open(os.path.join(here, "MANIFEST.json"), "w"), indent=1)
print(len(checks), "checks;", len(na), "not applicable")
