"""Engine regression cases: tiny functions with one contract that MUST verify and one or more that MUST NOT.
Each wrong contract encodes an unsoundness the engine once had (or a classic one); `bin/selftest` fails if any of them
is accepted.  The functions are verified exactly like functions of /repo (the front end also reads this package)."""


class Box:
    def __init__(self, v):
        self.v = v
        self.w = 0


def bump_all(boxes):
    """writes at an index-dependent cell in every iteration"""
    for b in boxes:
        b.v = b.v + 1
    return boxes


def touch_one(boxes, i):
    boxes[i].v = 7


def set_w(b):
    b.w = 5            # a field nothing has read before the call (created lazily in the caller's state)


def caller_of_set_w(b):
    set_w(b)
    return b.w


def make_box():
    return Box(1)


def sneaky(b, c):
    c.v = 3            # writes an object the contract does not name
    return b.v


def count_down(n):
    while n > 0:
        n = n - 1
    return n
